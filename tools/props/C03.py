"""C03 — every outbound payment reaches a truthful terminal outcome.

Coq: Model/Outbound.v (transliteration of OutboundPayments), Proofs/C03*.v, Props/C03.v.
Tie 1 (functional, op-for-op): h_outbound drives the REAL OutboundPayments through the
`_verif_hooks` wrappers with a scripted router / send callback; after every operation the pushed
events, the allocated HTLCs and the dump of pending_outbound_payments are compared with the model.
Tie 2 (end-to-end): h_payflow runs whole payments on real ChannelManagers (functional_test_utils)
and judges the real event stream.
Judge on the implementation: the property's statement evaluated on the implementation's own event
stream / dumps (no model involved)."""
import json
import re
import os
import subprocess

from vlib import core
from rs2v import consts_lite

BINS = [b for b in ["h_outbound", "h_payflow", "h_paysched"] if os.path.exists(os.path.join(core.HARNESS, "src", "bin", b + ".rs"))]
LEVEL = "proof"
MANIFEST = {
    "category": "proof",
    "text": "Coq theorems, by induction over ALL operation lists and interleavings of payment ids, about a transliterated model of OutboundPayments (per entry lifetime at most one of PaymentSent|PaymentFailed, never contradicted, PaymentSent only from a claim with that preimage and with the entry's amount/fee, PaymentFailed only if no claim hit the entry, drained payments terminate, duplicate ids refused, removal only by PaymentFailed or the idempotency timeout, Fulfilled snapshots never fail after restart, a path whose send returned Ok or MonitorUpdateInProgress keeps its part, no PaymentFailed while a part is pending, PaymentSent's fee is the sum of the fees of the parts pending at the claim - also after an abandonment and after restarts that re-insert tracked HTLCs); the model is tied to the code on every run by op-for-op differential execution of the real OutboundPayments (send results Ok / hard error / MonitorUpdateInProgress mixed), by scripted end-to-end scenarios and by a seeded random scheduler on real ChannelManagers and ChannelMonitors (2-4 nodes, async persistence, single message deliveries, config changes, force closes, blocks, restarts of the sender from its latest monitors and any earlier manager snapshot) judged by the property's statement on the real event stream, list_recent_payments, channels and monitors.",
    "note": "Proved on the hand model; OutboundPayments validated by functional correspondence (not proved equal). Channel/monitor guarantees (an HTLC is claimed or failed, never both; preimage checked against the hash in channel.rs; monitors re-report only unresolved HTLCs) are hypotheses validated end-to-end only; the scheduler tier found three classes where they fail on the unchanged tree (known findings C03:stale-manager-fails-settled-payment, C03:stale-manager-loses-handled-resolution; C03:held-failure-dropped-on-close and C03:abandoned-payment-fee-counts-failed-parts were found here and fixed). Retry::Timeout, BOLT12/static-invoice states, blinded/trampoline paths, event completion actions are not modelled.",
    "technique": "machine-checked proof in Coq (induction over operation lists with a per-id scanner invariant) + op-for-op differential correspondence + end-to-end judge",
}
FEATURES = ["std", "_test_utils", "_verif_hooks"]
CONST_ITEMS = [("lightning/src/ln/outbound_payment.rs", "IDEMPOTENCY_TIMEOUT_TICKS")]
PROBE_BASE = 1000000
COQ_IMPORTS = ["LdkV.Prim.U64", "LdkV.Gen.ConstsC03", "LdkV.Model.Outbound"]


def _cleanup_eval(ctx):
    """scratch files of this process' coq_eval calls (their names carry the pid so that two
    concurrent runs of the same check do not overwrite each other's shards)"""
    d = os.path.join(ctx.tmp, "coq")
    tag = "_%d_" % os.getpid()
    try:
        for f in os.listdir(d):
            if tag in f:
                os.remove(os.path.join(d, f))
    except OSError:
        pass


def generate(ctx):
    text, meta = consts_lite.extract(core.REPO, CONST_ITEMS, FEATURES)
    core.write_if_changed(os.path.join(core.COQ, "Gen", "ConstsC03.v"), text)
    ctx.gen_meta = meta
    return meta


# ------------------------------------------------------------------ implementation driver
class Impl:
    """Interactive line-oriented session with h_outbound."""

    def __init__(self, ctx):
        self.p = subprocess.Popen([ctx.bin_path("h_outbound")], stdin=subprocess.PIPE, stdout=subprocess.PIPE,
                                  universal_newlines=True, cwd=ctx.tmp, bufsize=1)

    def do(self, line):
        self.p.stdin.write(line + "\n")
        self.p.stdin.flush()
        out = self.p.stdout.readline()
        if not out:
            raise RuntimeError("h_outbound died on: " + line)
        return json.loads(out)

    def close(self):
        try:
            self.p.stdin.close()
            self.p.wait(timeout=10)
        except Exception:
            self.p.kill()


# ------------------------------------------------------------------ op representation
# An op is a dict {"k": kind, ...}; impl_line() renders the harness command, coq() the model term.
def ans_line(answers):
    s = [str(len(answers))]
    for a in answers:
        if a is None:
            s.append("N")
        else:
            over, paths = a
            s += ["R", str(len(paths)), str(over)]
            for (fee, nh, res) in paths:
                s += [str(fee), str(nh), str(res)]
    return " ".join(s)


def ans_coq(answers):
    def one(a):
        if a is None:
            return "ANoRoute"
        over, paths = a
        return "ARoute %d%%nat %s %d [%s]" % (len(paths), core.zlist([p[0] for p in paths]), over,
                                               "; ".join(["SOk", "SUnavail", "SMuip"][p[2]] for p in paths))
    return "[" + "; ".join(one(a) for a in answers) + "]"


def oz(v):
    return "None" if v is None or v < 0 else "(Some %d)" % v


def impl_line(o):
    k = o["k"]
    if k == "add":
        return "add %d %d %d %d %d %d %s" % (o["id"], o["hash"], -1 if o["retry"] is None else o["retry"],
                                            -1 if o["mf"] is None else o["mf"], 1 if o["probe"] else 0, len(o["paths"]),
                                            " ".join("%d %d %d" % p for p in o["paths"]))
    if k == "await":
        return "await %d %d %d" % (o["id"], o["ticks"], o["retry"])
    if k == "send":
        return "send %d %d %d %d %d %s" % (o["id"], o["hash"], o["retry"], o["amt"], -1 if o["mf"] is None else o["mf"], ans_line(o["answers"]))
    if k == "retry":
        return "retry %d %s" % (len(o["answers"]), " ".join("%d %s" % (i, ans_line(a)) for i, a in o["answers"]))
    if k == "claim":
        return "claim %d %d" % (o["sp"], 1 if o["onchain"] else 0)
    if k == "finalize":
        return "finalize %d %s" % (len(o["sps"]), " ".join(str(x) for x in o["sps"]))
    if k == "fail":
        m = o["mode"]
        if m[0] == "L":
            return "fail %d L %d" % (o["sp"], m[1])
        if m[0] == "R":
            return "fail %d R %d %d" % (o["sp"], m[1], m[2])
        return "fail %d G %d" % (o["sp"], m[1])
    if k == "abandon":
        return "abandon %d %d" % (o["id"], o["reason"])
    if k == "tick":
        return "tick"
    if k == "handle":
        return "handle %d" % o["n"]
    if k == "startup":
        return "startup %d" % o["sp"]
    raise ValueError(k)


def coq_op(o):
    k = o["k"]
    if k == "add":
        h = PROBE_BASE + o["id"] if o["probe"] else o["hash"]
        return "OpAdd %d %d %s [%s] %s" % (o["id"], h, oz(o["retry"]), "; ".join("(%d, %d)" % (p[0], p[1]) for p in o["paths"]), oz(o["mf"]))
    if k == "await":
        return "OpAwait %d %d %d" % (o["id"], o["ticks"], o["retry"])
    if k == "send":
        return "OpSend %d %d %d %d %s %s" % (o["id"], o["hash"], o["retry"], o["amt"], oz(o["mf"]), ans_coq(o["answers"]))
    if k == "retry":
        return "OpCheckRetry [%s]" % "; ".join("(%d, %s)" % (i, ans_coq(a)) for i, a in o["answers"])
    if k == "claim":
        return "OpClaim %d %d %s" % (o["sp"], o["pre"], "true" if o["onchain"] else "false")
    if k == "finalize":
        return "OpFinalize %s" % core.zlist(o["sps"])
    if k == "fail":
        return "OpFail %d %s %s" % (o["sp"], "true" if o["perm"] else "false", "true" if o["probe"] else "false")
    if k == "abandon":
        return "OpAbandon %d %d" % (o["id"], o["reason"])
    if k == "tick":
        return "OpTick"
    if k == "handle":
        return "OpHandle %d%%nat" % o["n"]
    if k == "startup":
        return "OpStartup %d" % o["sp"]
    raise ValueError(k)


PERM_CODES = {0: False, 1: True, 2: True, 3: False, 4: True, 5: False, 6: True, 7: False}
NODE_CODES = (0, 1)


# ------------------------------------------------------------------ generation (state-aware, from the implementation's dump)
class Gen:
    def __init__(self, rng, tier):
        self.rng = rng
        self.tier = tier
        self.htlcs = {}   # sp -> dict(id, hash, amt, fee, res, nhops)
        self.next_hash = 1
        self.state = []   # rows of the last dump (without the trailer)
        self.qlen = 0
        self.life = {}    # id -> number of entries created for it so far
        self.queue = []   # operations already decided (a restart re-reports the same HTLC several times)

    def absorb(self, res, op=None):
        for o in res["outs"]:
            if o[0] == 10:
                self.life[o[1]] = self.life.get(o[1], 0) + 1
        for o in res["outs"]:
            if o[0] == 12:
                self.htlcs[o[2]] = {"id": o[1], "hash": o[3], "amt": o[4], "fee": o[5], "res": o[6], "nhops": o[7],
                                    "life": self.life.get(o[1], 0)}
        if op is not None and op["k"] == "startup" and op["sp"] in self.htlcs:
            h = self.htlcs[op["sp"]]
            h["life"] = self.life.get(h["id"], 0)
        if res["state"]:
            self.state = res["state"][:-1]
            self.qlen = res["state"][-1][1]

    def kind_of(self, pid):
        for r in self.state:
            if r[0] == pid:
                return r[1]
        return None

    def row(self, pid):
        for r in self.state:
            if r[0] == pid:
                return r
        return None

    def paths(self, n):
        rng = self.rng
        ps = []
        for _ in range(n):
            amt = rng.choice([1, 1000, 25000, 1000 * rng.range(1, 500), rng.range(1, 10 ** 7)])
            nh = rng.range(1, 4)
            fee = 0 if nh == 1 else rng.choice([0, 1, rng.range(0, 3000)])
            ps.append((amt, fee, nh))
        return ps

    def answers(self, need, capped):
        """router answers for a request of `need` msat. The library debug-asserts that a route has
        no superfluous MPP part and respects the fee cap, so: several paths only when every part stays
        >= 5 msat through three nested retries, over-payment only on single-path routes without a cap."""
        rng = self.rng
        n = rng.choice([0, 1, 1, 1, 2, 2, 3])
        kmax = max(1, min(5, need // 125))
        out = []
        for _ in range(n):
            if rng.chance(1, 4):
                out.append(None)
            else:
                k = min(kmax, rng.choice([1, 1, 2, 2, 3, 5]))
                over = 0
                if k == 1 and not capped and rng.chance(1, 5):
                    over = rng.choice([1, need // 20, need // 9, need // 2, 10 ** 6])
                ps = []
                for _ in range(k):
                    nh = rng.range(1, 4)
                    fee = 0 if nh == 1 else rng.choice([0, 1, rng.range(0, 3000)])
                    res = rng.choice([0, 0, 0, 0, 1, 1, 2])
                    ps.append((fee, nh, res))
                out.append((over, ps))
        return out

    def pick_sp(self, want_kinds, live_bias=True, same_life=False):
        """an sp whose owning entry is absent or of one of want_kinds (never AwaitingInvoice: the
        library debug_asserts on HTLC operations against pre-HTLC entries). same_life: exclude HTLCs
        of an earlier lifetime of a payment id that has been re-used since (the channel layer never
        delivers a claim for an HTLC of a payment whose every HTLC was resolved before)."""
        rng = self.rng
        live = [sp for r in self.state if r[1] in want_kinds for sp in r[13:]]
        if live and (live_bias and rng.chance(4, 5)):
            return rng.choice(live)
        cand = [sp for sp, h in self.htlcs.items() if self.kind_of(h["id"]) in (None,) + tuple(want_kinds)
                and (not same_life or self.kind_of(h["id"]) is None or h["life"] == self.life.get(h["id"], 0))]
        if not cand:
            return None
        return rng.choice(sorted(cand))

    def next_op(self):
        rng = self.rng
        ids = [1, 2, 3, 4, 5, 6]
        if self.queue:
            return self.queue.pop(0)
        if rng.chance(1, 14):
            # restart(s) with an up-to-date manager: the monitor of a closed channel re-reports HTLCs the
            # manager already tracks (insert_from_monitor_on_startup with a session priv that is in the entry)
            live = [sp for r in self.state if r[1] == 0 for sp in r[13:]]
            if live:
                sp = rng.choice(sorted(live))
                n = rng.range(1, 3)
                self.queue = [{"k": "startup", "sp": sp} for _ in range(n - 1)]
                return {"k": "startup", "sp": sp}
        for _ in range(50):
            r = rng.below(100)
            if r < 11:
                pid = rng.choice(ids)
                probe = rng.chance(1, 8)
                retry = rng.choice([None, 0, 1, 2, 3, 5])
                mf = None if rng.chance(2, 3) else rng.choice([10 ** 9, 10 ** 7])
                n = 1 if probe else rng.choice([1, 1, 2, 3, 5])
                h = self.next_hash
                self.next_hash += 1
                return {"k": "add", "id": pid, "hash": h, "retry": retry, "mf": mf, "probe": probe, "paths": self.paths(n)}
            if r < 21:
                pid = rng.choice(ids)
                h = self.next_hash
                self.next_hash += 1
                mf = None if rng.chance(2, 3) else 10 ** 9
                amt = rng.choice([1000, 50000, 10 ** 6, rng.range(1000, 10 ** 7)])
                ans = self.answers(amt, mf is not None)
                return {"k": "send", "id": pid, "hash": h, "retry": rng.choice([0, 1, 2, 3]), "amt": amt, "mf": mf, "answers": ans}
            if r < 24:
                return {"k": "await", "id": rng.choice(ids), "ticks": rng.choice([0, 1, 2, 5]), "retry": rng.choice([0, 3])}
            if r < 36:
                present = [row[0] for row in self.state]
                ans = []
                # check_retry_payments walks a HashMap: at most one payment per operation gets
                # routes (= allocates session privs), so that the numbering does not depend on
                # the iteration order; the others get "no route" answers only.
                routed = rng.choice(present) if present and rng.chance(3, 4) else None
                for pid in present:
                    row = self.row(pid)
                    if pid == routed:
                        need = max(1, row[8] - row[6]) if row[1] == 0 else 1
                        ans.append((pid, self.answers(need, row[1] == 0 and row[9] >= 0)))
                    elif rng.chance(1, 3):
                        ans.append((pid, [None] * rng.choice([1, 2])))
                return {"k": "retry", "answers": ans}
            if r < 50:
                sp = self.pick_sp((0, 1, 2), same_life=True)
                if sp is None:
                    continue
                h = self.htlcs[sp]
                if h["hash"] >= PROBE_BASE:
                    continue
                return {"k": "claim", "sp": sp, "pre": h["hash"], "onchain": rng.chance(1, 3)}
            if r < 58:
                n = rng.choice([1, 1, 2, 3])
                sps = []
                for _ in range(n):
                    sp = self.pick_sp((1,))
                    if sp is not None:
                        sps.append(sp)
                if not sps:
                    continue
                return {"k": "finalize", "sps": sps}
            if r < 76:
                sp = self.pick_sp((0, 1, 2))
                if sp is None:
                    continue
                h = self.htlcs[sp]
                last = h["nhops"] - 1
                m = rng.below(10)
                if m < 2:
                    mode = ("L", rng.choice([0, 3, 5]))
                    perm = False
                elif m < 9:
                    hop = rng.choice([last, last, rng.range(0, last)])
                    code = rng.below(8)
                    mode = ("R", hop, code)
                    perm = PERM_CODES[code] and hop == last
                else:
                    mode = ("G", rng.choice([0, 10, 40, 292]))
                    perm = True
                return {"k": "fail", "sp": sp, "mode": mode, "perm": perm, "probe": h["hash"] == PROBE_BASE + h["id"]}
            if r < 82:
                return {"k": "abandon", "id": rng.choice(ids), "reason": rng.choice([1, 1, 3, 5])}
            if r < 90:
                return {"k": "tick"}
            if r < 96:
                return {"k": "handle", "n": rng.choice([1, 2, max(1, self.qlen), 100])}
            sp = self.pick_sp((0, 1, 2, 3), live_bias=False, same_life=True)
            if sp is None:
                continue
            return {"k": "startup", "sp": sp}
        return {"k": "tick"}


# ------------------------------------------------------------------ normalisation / comparison
def norm_outs(outs, impl):
    """-> dict with per-id event lists, result codes, ghost sets."""
    evs, res, created, hits, news, panic, gone = {}, [], set(), set(), [], False, set()
    for o in outs:
        t = o[0]
        if t in (1, 2, 3, 4, 5, 6):
            e = list(o)
            if impl:
                if t == 1:
                    e = e[:5]
                elif t == 4:
                    e = e[:5]
            evs.setdefault(e[1], []).append(e)
        elif t == 10:
            created.add(o[1])
        elif t == 11:
            hits.add(o[1])
        elif t == 12:
            news.append(list(o[:7]))
        elif t == 13:
            res.append(o[1])
        elif t == 14:
            panic = True
        elif t == 15:
            gone.add((o[1], o[2]))
    return {"evs": evs, "res": res, "created": sorted(created), "hits": sorted(hits), "news": sorted(news), "panic": panic,
            "gone": sorted(gone)}


def parse_coq_lll(v):
    """Coq prints list (list (list Z)) as [[[1; 2]; [3]]; ...] -> python lists"""
    return json.loads(v.replace(";", ","))


# ------------------------------------------------------------------ the judge: C03's statement on the implementation's own outputs
class Judge:
    """Fed (op, result-before-state, result) for one sequence; returns list of failure strings."""

    def __init__(self, idem):
        self.idem = idem
        self.life = {}      # id -> {"terminal": None|"sent"|"failed", "claimed": bool}
        self.fails = []
        self.prev_state = []
        self.prev_queue = []
        # ground truth about HTLCs, independent of what OutboundPayments believes: an HTLC whose send
        # returned Ok or MonitorUpdateInProgress is committed to a channel and stays in flight until
        # the channel delivers its fulfil or fail (the first claim / fail operation naming it)
        self.ht = {}        # sp -> {"id", "life", "flight": bool, "amt", "fee"}
        self.lifeno = {}    # id -> number of entries created so far
        self.total = {}     # id -> the amount the current entry was created for (from the operation, not the dump)

    def in_flight(self, pid, but=None):
        return sorted(sp for sp, h in self.ht.items()
                      if h["id"] == pid and h["flight"] and h["life"] == self.lifeno.get(pid, 0) and sp != but)

    def row(self, state, pid):
        for r in state:
            if r[0] == pid:
                return r
        return None

    def step(self, idx, op, res):
        outs = res["outs"]
        state = res["state"][:-1] if res["state"] else []
        before = self.prev_state

        def bad(msg, cls=None):
            f = {"op_index": idx, "op": impl_line(op), "why": msg}
            if cls:
                f["cls"] = cls
            self.fails.append(f)

        if res.get("panic"):
            bad("the implementation panicked (an assertion of the library fired)")
            return
        ids_before = {r[0] for r in before}
        ids_after = {r[0] for r in state}
        # lifetimes
        for pid in ids_after - ids_before:
            self.life[pid] = {"terminal": None, "claimed": False}
        # a removed-and-recreated id within one op (send that fails entirely) shows up as creation marker
        for o in outs:
            if o[0] == 10 and o[1] in ids_before:
                bad("an entry was created for an id that was already present")
            if o[0] == 10:
                self.life[o[1]] = {"terminal": None, "claimed": False}
                self.lifeno[o[1]] = self.lifeno.get(o[1], 0) + 1
        for o in outs:
            if o[0] == 12:
                self.ht[o[2]] = {"id": o[1], "life": self.lifeno.get(o[1], 0), "flight": o[6] in (0, 2), "amt": o[4], "fee": o[5]}
        for o in outs:
            if o[0] == 10:
                if op["k"] == "send" and op["id"] == o[1]:
                    # (the route may overpay a little: the payment's total is the route's, not the request's)
                    self.total.pop(o[1], None)
                elif op["k"] == "add" and op["id"] == o[1]:
                    self.total[o[1]] = sum(pp[0] for pp in op["paths"])
                elif op["k"] == "startup" and op["sp"] in self.ht:
                    self.total[o[1]] = self.ht[op["sp"]]["amt"]
                else:
                    self.total.pop(o[1], None)
        if op["k"] == "startup" and op["sp"] in self.ht:
            # the monitor reports the HTLC as outstanding: if the entry took it in (again), it is in flight
            h = self.ht[op["sp"]]
            ra, rb0 = self.row(state, h["id"]), self.row(before, h["id"])
            if ra is not None and op["sp"] in ra[13:] and (rb0 is None or op["sp"] not in rb0[13:]):
                h["life"] = self.lifeno.get(h["id"], 0)
                h["flight"] = True
        resolved_now = None
        if op["k"] in ("claim", "fail") and op["sp"] in self.ht and self.ht[op["sp"]]["flight"]:
            resolved_now = op["sp"]
            h = self.ht[resolved_now]
            if op["k"] == "claim" and h["life"] == self.lifeno.get(h["id"], 0):
                lf0 = self.life.get(h["id"])
                if lf0 is not None and lf0["terminal"] is None and not any(o[0] == 1 and o[1] == h["id"] for o in outs):
                    bad("the fulfil of an in-flight HTLC of payment %d was settled but no PaymentSent was reported" % h["id"])
                if lf0 is not None and lf0["terminal"] == "failed":
                    bad("an HTLC of payment %d was fulfilled after PaymentFailed had been reported" % h["id"])
        claim_id = None
        if op["k"] == "claim":
            for o in outs:
                if o[0] == 11:
                    claim_id = o[1]
        for o in outs:
            t = o[0]
            if t == 1:
                pid = o[1]
                lf = self.life.get(pid)
                if lf is None or pid not in ids_before and not any(x[0] == 10 and x[1] == pid for x in outs):
                    bad("PaymentSent for a payment id with no pending entry")
                    continue
                if lf["terminal"] is not None:
                    bad("second terminal event (PaymentSent after %s) within one lifetime of payment id %d" % (lf["terminal"], pid))
                lf["terminal"] = "sent"
                if op["k"] != "claim":
                    bad("PaymentSent emitted by an operation that is not a claim")
                else:
                    if o[5] != 1:
                        bad("PaymentSent: reported preimage does not hash to the reported payment hash")
                    if o[2] != op["pre"]:
                        bad("PaymentSent: preimage is not the one the claim carried")
                    rb = self.row(before, pid)
                    if rb is not None:
                        if rb[5] >= 0 and o[6] != rb[5]:
                            bad("PaymentSent: payment hash differs from the pending payment's hash")
                        if o[3] != rb[8]:
                            bad("PaymentSent: amount_msat %d is not the payment's total %d" % (o[3], rb[8]))
                        if o[4] != rb[7]:
                            bad("PaymentSent: fee_paid_msat %d is not the pending fee %d" % (o[4], rb[7]))
                    # ... and against the ground truth kept here per HTLC (not the entry's own accounting)
                    if pid in self.total and o[3] != self.total[pid]:
                        bad("PaymentSent: amount_msat %d, but the payment was created for %d msat" % (o[3], self.total[pid]))
                    true_fee = sum(h["fee"] for h in self.ht.values()
                                   if h["id"] == pid and h["life"] == self.lifeno.get(pid, 0) and h["flight"])
                    if o[4] >= 0 and o[4] != true_fee:
                        if rb is not None and rb[1] == 2:
                            # an Abandoned entry keeps the fee total it had when it was abandoned; parts that
                            # fail afterwards are removed without being subtracted (class of its own)
                            bad("PaymentSent for a payment that had been abandoned: fee_paid_msat %d, but the fees of the parts actually in flight or settled sum to %d: "
                                "the fees of parts that FAILED after the payment was abandoned are still counted (the sender's balance falls by amount + %d)"
                                % (o[4], true_fee, true_fee), cls="abandoned_fee")
                        else:
                            bad("PaymentSent: fee_paid_msat %d, but the fees of the parts actually in flight or settled for this payment sum to %d "
                                "(the sender's balance falls by amount + %d)" % (o[4], true_fee, true_fee))
            elif t == 2:
                pid = o[1]
                lf = self.life.get(pid)
                if lf is None:
                    bad("PaymentFailed for a payment id that never had an entry")
                    continue
                if lf["terminal"] is not None:
                    bad("second terminal event (PaymentFailed after %s) within one lifetime of payment id %d" % (lf["terminal"], pid))
                if lf["claimed"] or claim_id == pid:
                    bad("PaymentFailed although an HTLC of payment id %d was claimed in this lifetime" % pid)
                fl = self.in_flight(pid, but=resolved_now if op["k"] == "fail" else None)
                if fl:
                    bad("PaymentFailed for payment %d while its HTLC(s) %s are still in flight (sent, or committed behind a monitor update)" % (pid, fl))
                lf["terminal"] = "failed"
                if pid in ids_after:
                    bad("PaymentFailed but the entry is still tracked (a later event can contradict it)")
                rb = self.row(before, pid)
                if rb is not None and rb[1] in (0, 2) and len(rb[13:]) > (1 if op["k"] == "fail" else 0):
                    bad("PaymentFailed while an HTLC of the payment was still pending")
            elif t == 4:
                pos, nh = o[5], o[6]
                if o[4] == 1:
                    if pos != 0:
                        bad("PaymentPathFailed(InitialSend) does not name the first-hop channel")
                elif op["k"] == "fail":
                    m = op["mode"]
                    if m[0] == "L" and pos != 0:
                        bad("PaymentPathFailed for a local failure does not name the first-hop channel")
                    if m[0] == "R":
                        hop = min(m[1], nh - 1)
                        final = hop == nh - 1
                        allowed = {hop} if (m[2] in NODE_CODES or final) else {hop + 1}
                        if m[2] == 5 and not final:
                            allowed = {hop}
                        if final and m[2] in (2, 5):
                            allowed = {-1}
                        if pos not in allowed:
                            bad("PaymentPathFailed names channel position %d, failure occurred at hop %d (code %d, %d hops)" % (pos, hop, m[2], nh))
        if claim_id is not None and claim_id in self.life:
            self.life[claim_id]["claimed"] = True
            ra = self.row(state, claim_id)
            if ra is None or ra[1] != 1:
                bad("after a claim the payment is not tracked as Fulfilled")
        # duplicate refusal
        if op["k"] in ("add", "send", "await") and op["id"] in ids_before:
            codes = [o[1] for o in outs if o[0] == 13]
            routed = op["k"] != "send" or (op["answers"] and op["answers"][0] is not None)
            if routed and codes != [1]:
                bad("a second send with a pending payment id was not refused as DuplicatePayment")
            if state != before or any(o[0] in (1, 2, 3, 4, 5, 6, 12) for o in outs):
                bad("a refused duplicate send changed state or produced events")
        # removal discipline
        for pid in ids_before - ids_after:
            rb = self.row(before, pid)
            ok = any(o[0] == 2 and o[1] == pid for o in outs) or any(o[0] in (5, 6) and o[1] == pid for o in outs)
            if op["k"] == "tick" and rb[1] == 1 and len(rb) == 13 and rb[10] == self.idem:
                ok = True
                if any(q[0] in (1, 3, 4) and q[1] == pid for q in self.prev_queue):
                    bad("payment id %d was freed for re-use by the idempotency timeout while an event of it was still unhandled" % pid)
            if not ok:
                bad("payment id %d left the map without PaymentFailed and not by the idempotency timeout (row %s)" % (pid, rb))
        for r in state:
            if r[1] == 2 and len(r) == 13:
                bad("an Abandoned payment with no HTLC left is still tracked: it will never get its PaymentFailed")
        # drained payments terminate on check_retry_payments when the router has no route
        if op["k"] == "retry":
            answered = {i for i, a in op["answers"] if a}
            for rb in before:
                if rb[1] == 0 and len(rb) == 13 and rb[0] not in answered:
                    if rb[0] in ids_after or not any(o[0] == 2 and o[1] == rb[0] for o in outs):
                        bad("drained Retryable payment %d got no PaymentFailed from check_retry_payments without a route" % rb[0])
        if resolved_now is not None:
            self.ht[resolved_now]["flight"] = False
        self.prev_state = state
        self.prev_queue = res.get("queue", [])


def run_impl_sequence(ctx, ops_or_gen, nops, idem):
    """Runs one sequence on the implementation. ops_or_gen: a Gen (ops are generated from the
    implementation's dump) or a list of ops (replay). Returns (ops, results, judge_failures)."""
    impl = Impl(ctx)
    try:
        impl.do("reset")
        judge = Judge(idem)
        ops, results = [], []
        prev_rows = []
        gen = ops_or_gen if isinstance(ops_or_gen, Gen) else None
        fixed = None if gen else list(ops_or_gen)
        n = nops if gen else len(fixed)
        for i in range(n):
            op = gen.next_op() if gen else fixed[i]
            res = impl.do(impl_line(op))
            # ghost marker of the model's OGone, derived from the implementation's dumps: an id that
            # left the map without a PaymentFailed in this operation
            if res["state"]:
                before_ids = {r[0] for r in prev_rows}
                after_ids = {r[0] for r in res["state"][:-1]}
                for pid in sorted(before_ids - after_ids):
                    if not any(o[0] == 2 and o[1] == pid for o in res["outs"]):
                        res["outs"].append([15, pid, 0 if op["k"] == "tick" else 1])
                prev_rows = res["state"][:-1]
            ops.append(op)
            results.append(res)
            if gen:
                gen.absorb(res, op)
            judge.step(i, op, res)
            if res.get("panic"):
                break
        return ops, results, judge.fails
    finally:
        impl.close()


def shrink(ctx, ops, idem, budget=60):
    """greedy removal of single ops while the judge still fails on the implementation"""
    cur = list(ops)
    _, _, f = run_impl_sequence(ctx, cur, len(cur), idem)
    if not f:
        return cur, f
    cur = cur[:f[0]["op_index"] + 1]
    kind = f[0]["why"][:40]
    i = len(cur) - 2
    while i >= 0 and budget > 0:
        cand = cur[:i] + cur[i + 1:]
        budget -= 1
        try:
            _, _, f2 = run_impl_sequence(ctx, cand, len(cand), idem)
        except Exception:
            f2 = []
        if f2 and f2[0]["why"][:40] == kind:
            cur = cand[:f2[0]["op_index"] + 1]
            f = f2
            i = min(i, len(cur) - 1)
        i -= 1
    return cur, f


# op-level sequences that run first in every check
DIRECTED_OPS = [
    # a payment is abandoned with two parts in flight, one of them fails, the other is claimed
    ("abandoned_then_part_fails_then_claimed", [
        {"k": "send", "id": 4, "hash": 10, "retry": 0, "amt": 242858, "mf": None, "answers": [(0, [(2256, 3, 1), (1, 2, 0), (406, 4, 0)])]},
        {"k": "fail", "sp": 3, "mode": ("G", 40), "perm": True, "probe": False},
        {"k": "claim", "sp": 2, "pre": 10, "onchain": False}]),
    # restarts with an up-to-date manager: the monitor of a closed channel re-reports a tracked HTLC three times
    ("tracked_htlc_reinserted_on_startup", [
        {"k": "send", "id": 1, "hash": 11, "retry": 2, "amt": 1000000, "mf": None, "answers": [(0, [(1000, 2, 0)])]},
        {"k": "startup", "sp": 1}, {"k": "startup", "sp": 1}, {"k": "startup", "sp": 1},
        {"k": "claim", "sp": 1, "pre": 11, "onchain": True}]),
    ("tracked_htlcs_reinserted_on_startup_mpp", [
        {"k": "send", "id": 2, "hash": 12, "retry": 1, "amt": 3000000, "mf": None, "answers": [(0, [(700, 3, 0), (1300, 2, 2)])]},
        {"k": "startup", "sp": 2}, {"k": "startup", "sp": 1}, {"k": "startup", "sp": 2},
        {"k": "claim", "sp": 2, "pre": 12, "onchain": False}, {"k": "claim", "sp": 1, "pre": 12, "onchain": True}]),
]


def functional(ctx, model_ok):
    rng = ctx.rng.fork("outbound-functional")
    nseq, nops = (160, 60) if ctx.tier == "quick" else (2000, 80)
    seqs = []
    judge_fails = []
    kinds = {}
    evkinds = {}
    idem = 7
    try:
        import re
        idem = int(re.search(r"IDEMPOTENCY_TIMEOUT_TICKS : Z := (\d+)", open(os.path.join(core.COQ, "Gen", "ConstsC03.v")).read()).group(1))
    except Exception:
        idem = 7
    known = {}
    ctx.c03_known_op = known
    for s in range(-len(DIRECTED_OPS), nseq):
        if s < 0:
            dops = DIRECTED_OPS[s + len(DIRECTED_OPS)][1]
            ops, results, fails = run_impl_sequence(ctx, list(dops), len(dops), idem)
        else:
            g = Gen(rng.fork("seq%d" % s), ctx.tier)
            ops, results, fails = run_impl_sequence(ctx, g, nops, idem)
        for f in fails:
            if f.get("cls") and f["cls"] not in known:
                known[f["cls"]] = (s, ops, [f])
        fails = [f for f in fails if not f.get("cls")]
        seqs.append((ops, results))
        for o in ops:
            kinds[o["k"]] = kinds.get(o["k"], 0) + 1
        for r in results:
            for o in r["outs"]:
                evkinds[o[0]] = evkinds.get(o[0], 0) + 1
        if fails and len(judge_fails) < 3:
            judge_fails.append((s, ops, fails))
    ctx.coverage["functional_sequences"] = len(seqs)
    ctx.coverage["functional_ops"] = sum(len(o) for o, _ in seqs)
    ctx.coverage["op_kind_histogram"] = kinds
    names = {1: "PaymentSent", 2: "PaymentFailed", 3: "PaymentPathSuccessful", 4: "PaymentPathFailed", 5: "ProbeSuccessful",
             6: "ProbeFailed", 10: "entry created", 11: "claim hit an entry", 12: "HTLC allocated", 13: "result code", 14: "panic", 15: "entry removed without PaymentFailed (idempotency timeout / probe resolved)"}
    ctx.coverage["impl_output_histogram"] = {names.get(k, str(k)): v for k, v in sorted(evkinds.items())}
    # ---- model side
    dis = []
    if model_ok:
        exprs = ["run_show init [%s]" % "; ".join(coq_op(o) for o in ops) for ops, _ in seqs]
        try:
            vals = ctx.coq_eval("corr_outbound_%d" % os.getpid(), COQ_IMPORTS, exprs, shards=min(16, len(exprs)), timeout=1500)
        except Exception as ex:
            # the model could not be evaluated on these operations (e.g. the implementation produced
            # something the op rendering does not cover): a broken correspondence, not a crash; the
            # implementation-side judge above has already searched the same sequences
            ctx.log("model evaluation failed:", str(ex)[-600:])
            dis.append({"why": "model evaluation failed", "detail": str(ex)[-1500:]})
            vals = []
        for si, ((ops, results), v) in enumerate(zip(seqs, vals)):
            try:
                model = parse_coq_lll(v)
            except ValueError:
                dis.append({"sequence": si, "why": "unparsable model output"})
                continue
            for i, (op, res, m) in enumerate(zip(ops, results, model)):
                cut = m.index([-3])
                mo, ms = norm_outs(m[:cut], False), m[cut + 1:]
                io = norm_outs(res["outs"], True)
                if res.get("panic"):
                    io["panic"] = True
                if mo != io or (not res.get("panic") and ms != res["state"]):
                    dis.append({"sequence": si, "op_index": i, "op": impl_line(op), "model_op": coq_op(op),
                                "model": {"outs": m[:cut], "state": ms}, "impl": {"outs": res["outs"], "state": res["state"]},
                                "ops_prefix": [impl_line(o) for o in ops[:i + 1]]})
                    break
            if len(dis) >= 5:
                break
    # distinct non-trivial: sequences' (op kind, outcome signature) pairs
    sig = set()
    for ops, results in seqs:
        for o, r in zip(ops, results):
            sig.add((o["k"], tuple(sorted({x[0] for x in r["outs"]})), tuple(sorted({row[1] for row in r["state"][:-1]})) if r["state"] else ()))
    ctx.coverage["functional_distinct_signatures"] = len(sig)
    if seqs:
        ops, results = seqs[0]
        ctx.samples.append({"sequence0_first_ops": [impl_line(o) for o in ops[:6]], "impl_after_op5": results[min(5, len(results) - 1)]})
    return seqs, dis, judge_fails, idem


def e2e(ctx):
    path = ctx.bin_path("h_payflow")
    if not os.path.exists(path):
        return None
    mode = "quick" if ctx.tier == "quick" else "thorough"
    rc, lines = ctx.run_bin("h_payflow", "", args=[mode, str(ctx.seed)], timeout=1700)
    recs = []
    for l in lines:
        l = l.strip()
        if l.startswith("{\"c03\""):
            try:
                recs.append(json.loads(l))
            except ValueError:
                pass
    if rc != 0 or not recs:
        ctx.violation("end-to-end payment scenarios crashed or produced nothing", {"broken": "e2e:h_payflow", "rc": rc, "tail": [l for l in lines if not l.startswith("{")][-15:]}, False)
        return []
    kinds = {}
    for r in recs:
        kinds[r.get("scenario", "?")] = kinds.get(r.get("scenario", "?"), 0) + 1
    ctx.coverage["e2e_scenarios"] = len(recs)
    ctx.coverage["e2e_scenario_histogram"] = kinds
    ctx.samples.append(recs[0])
    return [r for r in recs if r.get("ok") is False]


# ------------------------------------------------------------------ e2e tier 2: seeded random scheduler on real nodes (h_paysched)
STALE_KEY = "C03:stale-manager-fails-settled-payment"
# a resolution (of the payment or of one MPP part) was handled, the monitor released it, and the sender restarts
# from a manager persisted before that: the restored manager waits for that part for ever
LOST_KEY = "C03:stale-manager-loses-handled-resolution"
# the peer's failure of an HTLC is irrevocably committed while a monitor update is in progress; the Channel keeps it
# in monitor_pending_failures; the channel is closed before the update completes and force_shutdown drops it
HELD_KEY = "C03:held-failure-dropped-on-close"
CLASS_KEYS = {"stale": STALE_KEY, "lost": LOST_KEY, "heldfail": HELD_KEY}
# op level: an Abandoned entry keeps the fee total of the moment it was abandoned; parts failing afterwards are removed
# without being subtracted (remove() only accounts for Retryable), so a late PaymentSent over-reports fee_paid_msat
OP_CLASS_KEYS = {"abandoned_fee": "C03:abandoned-payment-fee-counts-failed-parts"}

DIRECTED = {
    # one path behind an in-progress monitor update, the other path's first hop gone (both orders)
    "mpp_inprogress_plus_failing_path_a": ["cfg 2 1 0 0 0", "persist 0 1", "disconnect 0 2", "sendmpp 3000", "persist 0 0", "pump", "fail", "pump"],
    "mpp_inprogress_plus_failing_path_b": ["cfg 2 1 0 0 0", "persist 0 1", "disconnect 0 1", "sendmpp 700", "complete 0", "pump", "reconnect 0 1", "pump", "fail", "pump"],
    "mpp_inprogress_plus_failing_path_claimed": ["cfg 2 0 1 0 0", "persist 0 1", "disconnect 0 2", "sendmpp 3000", "persist 0 0", "pump", "silence", "pump"],
    # an add waits in the holding cell behind a monitor update and cannot be sent any more when it is freed
    "holding_cell_add_freed_after_config_change": ["cfg 0 1 0 0 0", "persist 0 1", "send 5000 0", "send 0 0", "config 0 0 1 0", "persist 0 0", "pump", "claim", "pump"],
    # ... the update in progress is the one for the peer's last commitment_signed: when it completes the channel
    # awaits nothing, the cell is freed by the manager's own check and the add is the only thing in it
    "holding_cell_add_unsendable_when_freed_by_manager": ["cfg 0 1 0 0 0", "send 5000 0", "deliver 0", "deliver 0", "persist 0 1", "deliver 0", "send 0 0", "config 0 0 1 0",
                                                          "persist 0 0", "pump", "claim", "pump"],
    "holding_cell_add_unsendable_when_freed_by_manager_line": ["cfg 1 1 1 0 0", "send 4000 0", "deliver 0", "deliver 0", "persist 0 1", "deliver 0", "send 1 2", "config 0 0 1 1", "config 0 1 1 1",
                                                               "complete 0", "pump", "persist 0 0", "pump", "claim", "pump"],
    "holding_cell_add_freed_after_config_change_line": ["cfg 1 1 0 0 0", "persist 0 1", "send 4000 1", "send 0 1", "send 1 0", "config 0 0 1 0", "complete 0", "pump", "persist 0 0", "pump", "claim", "fail", "pump"],
    # the HTLC is only in the previous (unrevoked) counterparty commitment when the channel closes with
    # a commitment lacking it; the sender restarts before it polled its monitor
    "htlc_only_in_prev_counterparty_commitment_reload": ["cfg 0 1 0 0 0", "send 5000 0", "pump", "fail", "deliver 0", "deliver 0", "deliver 0", "disconnect 0 1",
                                                         "fclose 0 0", "snapshot", "freeze", "mine", "blocks 6", "reload 1", "pump"],
    # ... its manager has taken the MonitorEvent out of the monitor, but was not persisted afterwards
    "htlc_only_in_prev_counterparty_commitment_lost_monitor_event": ["cfg 0 1 0 0 0", "send 5000 0", "pump", "fail", "deliver 0", "deliver 0", "deliver 0", "disconnect 0 1",
                                                                     "fclose 0 0", "snapshot", "freeze", "mine", "blocks 6", "halfpoll", "reload 1000", "pump"],
    "htlc_only_in_prev_counterparty_commitment_lost_monitor_event_line": ["cfg 1 1 0 2 0", "send 5000 0", "pump", "fail", "pump", "send 3000 0", "pump", "fail", "deliver 0", "deliver 0", "deliver 0",
                                                                          "deliver 0", "deliver 0", "disconnect 0 1", "fclose 0 0", "snapshot", "freeze", "mine", "blocks 6", "halfpoll",
                                                                          "reload 1000", "reconnect 0 1", "pump"],
    "lost_monitor_event_of_onchain_claim": ["cfg 0 1 0 1 0", "send 5000 0", "pump", "disconnect 0 1", "fclose 1 0", "claim", "snapshot", "freeze", "mine", "blocks 3", "mine", "blocks 6", "halfpoll",
                                            "reload 1000", "pump"],
    "htlc_only_in_prev_counterparty_commitment_reload_line": ["cfg 1 1 0 0 0", "send 5000 0", "pump", "fail", "pump", "send 3000 0", "pump", "fail", "deliver 0", "deliver 0", "deliver 0", "deliver 0", "deliver 0",
                                                              "disconnect 0 1", "fclose 0 0", "snapshot", "freeze", "mine", "blocks 6", "reload 1", "reconnect 0 1", "pump"],
    # the three classes of findings (known_findings.json), each with its smallest history
    "finding_stale_manager_fails_settled_payment": ["cfg 0 1 0 0 1", "send 5000 0", "pump", "blocks 1", "claim", "pump", "reload 1", "reconnect 0 1", "pump"],
    "finding_stale_manager_loses_handled_part_failure": ["cfg 2 1 0 1 0", "sendmpp 2442", "fclose 0 3", "snapshot", "blocks 6", "reload 1000"],
    "finding_stale_manager_loses_handled_terminal_event": ["cfg 0 1 0 0 0", "send 5000 0", "pump", "fclose 0 0", "snapshot", "claim", "blocks 8", "reload 1000"],
    # (fixed in 852ad65; the histories stay: without the fix the payment never gets its PaymentFailed)
    "finding_held_failure_dropped_on_close": ["cfg 0 1 0 0 0", "send 5000 0", "pump", "fail", "persist 0 1", "pump", "complete 0", "pump", "fclose 0 0"],
    "held_failure_then_peer_closes": ["cfg 0 1 0 1 0", "send 5000 0", "pump", "fail", "persist 0 1", "pump", "complete 0", "pump", "fclose 1 0", "mine", "pump"],
    "held_failure_then_close_then_reload": ["cfg 0 1 0 2 0", "send 5000 0", "pump", "fail", "persist 0 1", "pump", "complete 0", "pump", "fclose 0 0", "snapshot", "blocks 8", "reload 1000", "pump"],
    "held_failure_of_one_mpp_part_then_close": ["cfg 2 1 0 0 0", "sendmpp 3000", "pump", "fail", "settle 3 1", "settle 3 2", "persist 0 1", "settle 1 0", "complete 0", "settle 1 0", "fclose 0 0", "pump"],
    # the forwarder parks the failure of a forwarded HTLC and closes the downstream channel: the sender still gets its PaymentFailed
    "held_failure_at_forwarder_then_close": ["cfg 1 1 0 0 0", "send 5000 0", "pump", "fail", "persist 1 1", "pump", "complete 1", "pump", "fclose 1 1", "pump"],
    # restarts from a fully up-to-date manager with the first-hop channel closed and the HTLC unresolved (the monitor
    # re-reports HTLCs the manager tracks), then an on-chain claim: PaymentSent's fee against what was committed
    "uptodate_reload_closed_first_hop_onchain_claim": ["cfg 1 1 0 0 0", "send 5000 0", "pump", "disconnect 0 1", "fclose 0 0", "snapshot", "reload 1000", "claim", "pump",
                                                       "mine", "blocks 2", "mine", "blocks 8", "pump"],
    "uptodate_reload_twice_closed_first_hop_onchain_claim": ["cfg 1 1 0 1 0", "send 7000 0", "pump", "disconnect 0 1", "fclose 0 0", "snapshot", "reload 1000", "snapshot", "reload 1000",
                                                             "claim", "pump", "mine", "blocks 2", "mine", "blocks 8", "pump"],
    "uptodate_reload_closed_first_hop_onchain_claim_mpp": ["cfg 2 1 0 2 0", "sendmpp 3000", "pump", "disconnect 0 1", "fclose 0 0", "snapshot", "reload 1000", "reconnect 0 2", "claim", "pump",
                                                           "mine", "blocks 2", "mine", "blocks 8", "pump"],
    # plain restarts
    "reload_with_payment_in_flight": ["cfg 1 1 0 0 0", "send 5000 1", "snapshot", "pump", "freeze", "reload 1", "reconnect 0 1", "pump", "claim", "pump"],
    "reload_after_onchain_claim": ["cfg 0 1 0 0 0", "send 5000 0", "pump", "snapshot", "disconnect 0 1", "fclose 1 0", "claim", "freeze", "mine", "blocks 3", "mine", "reload 1", "pump"],
}


def dance_families():
    """The removal of an HTLC (fail or fulfil) takes four messages between the sender and its peer: their
    update + commitment_signed, our revoke_and_ack, our commitment_signed, their revoke_and_ack. The sender's manager
    is persisted at EVERY boundary and restarted with the monitors of EVERY later boundary; single part (pair) and
    two parts (diamond, the dance on the channel to node 1, the other part untouched or resolved first)."""
    fams = {}
    for kind in ("fail", "claim"):
        for multi in (0, 1, 2):
            if multi == 0:
                base = ["cfg 0 1 0 0 0", "send 5000 0", "pump", kind]
                tail = ["reload 1000", "reconnect 0 1", "pump"]
            else:
                base = ["cfg 2 1 0 %d 0" % multi, "sendmpp 3000", "pump", kind, "settle 3 1", "settle 3 2"] + (["settle 2 0"] if multi == 2 else [])
                tail = ["reload 1000", "reconnect 0 1", "reconnect 0 2", "pump"]
            steps = ["deliverto 1 0", "deliverto 0 1", "deliverto 0 1", "deliverto 1 0"]
            for i in range(4):
                for j in range(i + 1, 5):
                    mid = steps[i:j]
                    variants = [(0, mid)]
                    if mid[-1] == "deliverto 1 0":
                        # ... the last message reaches the sender, which goes down before it is polled again
                        variants.append((1, mid[:-1] + ["freeze", mid[-1]]))
                    for frz, m in variants:
                        name = "dance_%s_%s_snap%d_mon%d%s" % (kind, ["single", "mpp", "mpp_other_first"][multi], i, j, "_unpolled" if frz else "")
                        fams[name] = base + steps[:i] + ["snapshot"] + m + tail
    return fams


def motif(rng, topo, legacy, n):
    """A short stretch of steps that steers into a region plain random steps rarely reach; every parameter is
    random and single steps are dropped or repeated at random, so the neighbourhood is explored as well."""
    k = rng.below(4)
    small = rng.choice([0, 1, 300])
    big = 2000 + rng.below(6000)
    if k == 0:
        # an add enters the holding cell behind a monitor update in progress; something changes before it is freed
        m = ["send %d %d" % (big, rng.below(3))] + ["deliver 0"] * rng.below(4) + ["persist 0 1"] + ["deliver 0"] * rng.below(2) + \
            ["send %d %d" % (small, rng.below(3)), "config 0 %d %d %d" % (rng.below(4), rng.below(3), rng.choice([0, 1, 1000]))] + \
            [rng.choice(["persist 0 0", "complete 0"]), "pump"]
    elif k == 1:
        # a resolution travels back step by step, the channel closes in the middle, the sender restarts
        m = ["send %d 0" % big, "pump", rng.choice(["fail", "claim"])] + ["deliver 0"] * (1 + rng.below(6)) + ["disconnect 0 1"] + \
            (["fclose %d %d" % (rng.below(2), rng.below(2))] if legacy else []) + ["snapshot", "freeze", "mine", "blocks %d" % rng.choice([1, 5, 6, 7])] + \
            (["halfpoll"] if rng.chance(1, 2) else []) + ["reload %d" % (1000 + rng.below(2)), "reconnect 0 1", "pump"]
    elif k == 2 and topo == 2:
        # a two-path payment with one first hop behind a monitor update in progress and the other in trouble
        m = ["persist 0 1"] + ([rng.choice(["disconnect 0 1", "disconnect 0 2", "config 0 %d 1 0" % rng.below(4)])] if rng.chance(2, 3) else []) + \
            ["sendmpp %d" % rng.below(4000), rng.choice(["persist 0 0", "complete 0"]), "pump", rng.choice(["fail", "claim", "silence"]), "pump"]
    else:
        m = ["send %d %d" % (big, rng.below(3)), "snapshot", "pump", rng.choice(["claim", "fail"])] + ["deliver 0"] * rng.below(5) + \
            ["freeze"] + ["deliver 0"] * rng.below(3) + (["halfpoll"] if rng.chance(1, 2) else []) + ["reload %d" % (1000 + rng.below(3)), "reconnect 0 1", "pump"]
    out = []
    for l in m:
        r = rng.below(12)
        if r == 0:
            continue
        out.append(l)
        if r == 1:
            out.append(l)
    return out


def gen_schedule(rng, nsteps):
    topo = rng.choice([0, 1, 1, 2, 2])
    legacy = 1 if rng.chance(7, 10) else 0
    lines = ["cfg %d %d %d %d 1" % (topo, legacy, 1 if rng.chance(1, 3) else 0, rng.below(3))]
    n = [2, 3, 4][topo]
    reloads = 0
    motif_at = rng.below(nsteps) if rng.chance(1, 2) else -1
    W = [("send", 14), ("sendmpp", 6 if topo == 2 else 0), ("persist", 8), ("complete", 5), ("deliver", 14), ("pump", 10), ("disconnect", 5),
         ("reconnect", 7), ("config", 5), ("claim", 6), ("fail", 4), ("silence", 1), ("fclose", 4 if legacy else 0), ("mine", 4), ("blocks", 4), ("tick", 3), ("freeze", 1), ("unfreeze", 1), ("halfpoll", 2), ("snapshot", 1), ("reload", 3)]
    tot = sum(w for _, w in W)
    for stepno in range(nsteps):
        if stepno == motif_at:
            for l in motif(rng, topo, legacy, n):
                if l.startswith("reload"):
                    if reloads >= 2:
                        continue
                    reloads += 1
                lines.append(l)
            continue
        r = rng.below(tot)
        for name, w in W:
            if r < w:
                break
            r -= w
        if name == "send":
            lines.append("send %d %d" % (rng.choice([0, 1, 300, rng.below(9000)]), rng.below(3)))
        elif name == "sendmpp":
            lines.append("sendmpp %d" % rng.below(4000))
        elif name == "persist":
            lines.append("persist %d %d" % (rng.choice([0, 0, rng.below(n)]), rng.below(2)))
        elif name == "complete":
            lines.append("complete %d" % rng.choice([0, rng.below(n)]))
        elif name == "deliver":
            lines.append("deliver %d" % rng.below(6))
        elif name in ("disconnect", "reconnect"):
            a = rng.below(n)
            lines.append("%s %d %d" % (name, a, rng.below(n)))
        elif name == "config":
            lines.append("config %d %d %d %d" % (rng.choice([0, rng.below(n)]), rng.below(4), rng.below(3), rng.choice([0, 1, 1000, rng.below(6000000)])))
        elif name in ("fclose", "snapcommit"):
            lines.append("%s %d %d" % (name, rng.below(n), rng.below(4)))
        elif name == "minesnap":
            lines.append("minesnap %d" % rng.below(4))
        elif name == "blocks":
            lines.append("blocks %d" % rng.choice([0, 5, 6, rng.below(30)]))
        elif name == "tick":
            lines.append("tick %d" % rng.below(n))
        elif name == "reload":
            if reloads < 2:
                reloads += 1
                lines.append("reload %d" % rng.choice([rng.below(40), 1000 + rng.below(3)]))
        else:
            lines.append(name)
    return lines


def run_schedule(ctx, lines):
    try:
        p = subprocess.run([ctx.bin_path("h_paysched")], input="\n".join(lines) + "\n", stdout=subprocess.PIPE, stderr=subprocess.DEVNULL,
                           universal_newlines=True, timeout=300, cwd=ctx.tmp)
    except subprocess.TimeoutExpired:
        return {"ok": False, "cat": "panic", "why": "schedule did not terminate", "step": -1}
    rec, pan = None, None
    for l in p.stdout.split("\n"):
        if l.startswith('{"c03s":'):
            try:
                rec = json.loads(l)
            except ValueError:
                pass
        elif l.startswith('{"c03s_panic":'):
            pan = l[15:-2]
    if rec is None:
        return {"ok": False, "cat": "panic", "why": "process died: " + (pan or "no output")[:300], "step": -1}
    if rec.get("panic") and pan and "harness or library assertion" in rec.get("why", ""):
        rec["why"] += " | " + pan[:300]
    return rec


def _why_class(why):
    return re.sub(r"payment [0-9a-f]{8}", "payment", why or "")[:60]


def shrink_schedule(ctx, lines, cat, why, budget=150):
    """Keeps the failure class and the head of the message. First whole stretches, then single steps are
    replaced by 'nop' (which keeps the numbering of the steps, and with it the automatic snapshots, stable);
    then the nops are dropped where the failure survives that too."""
    head = _why_class(why)

    def fails(cand):
        r = run_schedule(ctx, cand)
        return (not r.get("ok")) and r.get("cat") == cat and _why_class(r.get("why", "")) == head

    cur = list(lines)
    size = max(1, (len(cur) - 1) // 2)
    while size >= 1 and budget > 0:
        i = 1
        while i < len(cur) and budget > 0:
            cand = cur[:i] + ["nop"] * min(size, len(cur) - i) + cur[i + size:]
            if cand != cur:
                budget -= 1
                if fails(cand):
                    cur = cand
            i += size
        size //= 2
    while len(cur) > 1 and cur[-1] == "nop":
        cur.pop()
    i = len(cur) - 1
    while i >= 1 and budget > 0:
        if cur[i] == "nop":
            cand = cur[:i] + cur[i + 1:]
            budget -= 1
            if fails(cand):
                cur = cand
        i -= 1
    return cur


def sched_tier(ctx):
    if not os.path.exists(ctx.bin_path("h_paysched")):
        return [], {}
    from concurrent.futures import ThreadPoolExecutor
    rng = ctx.rng.fork("sched")
    n, steps = (150, 60) if ctx.tier == "quick" else (10000, 60)
    jobs = [(name, lines) for name, lines in DIRECTED.items()] + sorted(dance_families().items())
    for i in range(n):
        r = rng.fork("s%d" % i)
        jobs.append(("random", gen_schedule(r, 10 + r.below(steps - 9))))
    with ThreadPoolExecutor(max_workers=core.NPROC) as ex:
        results = list(ex.map(lambda j: run_schedule(ctx, j[1]), jobs))
    hist, nsteps, npay, nterm = {}, 0, 0, [0, 0]
    real, classes = [], {k: [] for k in CLASS_KEYS}
    for (name, lines), r in zip(jobs, results):
        nsteps += len(lines)
        for pmt in r.get("payments", []):
            npay += 1
            nterm[0] += pmt[2]
            nterm[1] += pmt[3]
        for l in lines[1:]:
            k = l.split()[0]
            hist[k] = hist.get(k, 0) + 1
        if not r.get("ok"):
            classes.get(r.get("cat"), real).append((name, lines, r))
    ctx.coverage["sched_schedules"] = len(jobs)
    ctx.coverage["sched_steps"] = nsteps
    ctx.coverage["sched_action_histogram"] = hist
    # LDK's hash maps are randomly keyed outside cfg(test): in a few percent of the 4-node schedules the order in
    # which a node forwards differs between two runs of the same schedule. The judge's rules hold for every run, so
    # the verdict does not depend on it; the counts below would, so they only go to the log.
    ctx.log("scheduler: %d payments accepted, %d PaymentSent, %d PaymentFailed; finding-class hits %s" %
            (npay, nterm[0], nterm[1], {k: len(v) for k, v in classes.items()}))
    ctx.coverage["sched_finding_classes_seen"] = sorted(k for k, v in classes.items() if v)
    if jobs:
        ctx.samples.append({"schedule": jobs[0][1], "result": results[0]})
    return real, classes


def run(ctx):
    ok_build, out = ctx.build_harness(BINS)
    if not ok_build:
        ctx.violation("harness does not build against the current tree", {"broken": "harness-build", "log_tail": out[-3000:]}, False)
        ctx.write_evidence(LEVEL)
        return
    gen_err = None
    try:
        generate(ctx)
    except Exception as ex:
        gen_err = str(ex)
        ctx.obligations.append(("rs2v-generation", False, gen_err))
    okm, proved = False, False
    if gen_err is None:
        okm, outm = ctx.coq_make(["Model/Outbound.vo"])
        if not okm:
            ctx.log(outm[-2000:])
        proved = ctx.prove("C03")
    ctx.trusted_base += [
        "Coq 8.16.1 kernel + vm_compute (no native_compute)",
        "tools/rs2v/consts_lite (IDEMPOTENCY_TIMEOUT_TICKS regenerated from the source every run)",
        "Model/Outbound.v hand transliteration of OutboundPayments, tied by op-for-op functional correspondence through lightning feature _verif_hooks (ln::outbound_payment::verif_hooks_outbound)",
        "harness crate /verif/harness (h_outbound: scripted router/entropy/send callback; h_payflow and h_paysched: LDK functional_test_utils, TestPersister, test wallet; read-only hooks monupd_view and monitor_htlc_view)",
        "channel/monitor layer (hypotheses, validated end-to-end only): an HTLC is fulfilled or failed, never both; update_fulfill preimages are checked against the HTLC hash; monitors re-report on startup only HTLCs whose resolution was not yet released to the user",
    ]
    ctx.assumptions += ["HTLCSource (payment id, session priv, path) travels unchanged with each HTLC", "Retry::Timeout / BOLT12 pre-HTLC states not modelled",
                        "scheduler: node 0 sends, the last node receives; at most two restarts, of the sender only; every broadcast transaction that can confirm does so in the next block; no revoked commitment is broadcast; payments whose parts are all below the dust limit may be claimed and still fail (forfeited on chain by design)",
                        "scheduler: LDK hash maps are randomly keyed outside cfg(test); the judged rules hold for every run, counts that vary between runs are logged, not recorded"]
    seqs, dis, judge_fails, idem = functional(ctx, okm)
    e2e_fails = e2e(ctx)
    sched_real, sched_classes = sched_tier(ctx)
    nfun = ctx.coverage.get("functional_ops", 0)
    ctx.coverage["evaluations"] = nfun + ctx.coverage.get("e2e_scenarios", 0) + ctx.coverage.get("sched_steps", 0)
    ctx.coverage["distinct_nontrivial"] = ctx.coverage.get("functional_distinct_signatures", 0) + len(ctx.coverage.get("e2e_scenario_histogram", {}))
    ctx.coverage["rule"] = ("functional: one evaluation = one operation executed on the real OutboundPayments and on the model with outputs and full state compared; "
                            "distinct non-trivial = distinct (operation kind, set of output kinds, set of entry kinds in the resulting state) signatures; "
                            "e2e: distinct scenario kinds on real ChannelManagers")
    ctx.coverage["translated_items"] = getattr(ctx, "gen_meta", [])
    # ---- decide (DESIGN.md §9)
    for (s, ops, fails) in judge_fails[:2]:
        try:
            small, f2 = shrink(ctx, ops, idem)
        except Exception:
            small, f2 = ops, fails
        f = (f2 or fails)[0]
        ctx.violation("C03 violated by the implementation: " + f["why"],
                      {"broken": "implementation judge (h_outbound)", "ops": [impl_line(o) for o in small], "ops_struct": small, "failure": f,
                       "replay_cmd": "printf 'reset\\n<ops, one per line>\\n' | %s" % ctx.bin_path("h_outbound")}, True)
    for cls, (sq, ops, fails) in sorted(getattr(ctx, "c03_known_op", {}).items()):
        ctx.violation("C03 (operation level): " + fails[0]["why"],
                      {"broken": "implementation judge (h_outbound), class '%s'" % cls, "ops": [impl_line(o) for o in ops[:fails[0]["op_index"] + 1]],
                       "ops_struct": ops[:fails[0]["op_index"] + 1], "failure": fails[0],
                       "replay_cmd": "printf 'reset\\n<ops, one per line>\\n' | %s" % ctx.bin_path("h_outbound")}, True, key=OP_CLASS_KEYS[cls])
    if e2e_fails:
        for f in e2e_fails[:3]:
            ctx.violation("end-to-end payment scenario violates C03: " + f.get("why", ""),
                          {"broken": "e2e judge (h_payflow)", "scenario": f, "replay_cmd": "%s replay %s" % (ctx.bin_path("h_payflow"), f.get("params", ""))}, True,
                          key="e2e:" + f.get("scenario", "?") + ":" + f.get("why", ""))
    sched_real.sort(key=lambda h: (h[2].get("cat") != "c03", len(h[1])))
    for k, (name, lines, r) in enumerate(sched_real[:2]):
        small = lines
        if r.get("cat") == "c03" and len(lines) > 20 and k == 0:
            try:
                small = shrink_schedule(ctx, lines, r.get("cat"), r.get("why", ""), budget=80 if ctx.tier == "quick" else 200)
            except Exception:
                small = lines
        ctx.violation(("scheduled run on real nodes violates C03: " if r.get("cat") == "c03" else "scheduled run on real nodes died (library assertion or harness): ") + r.get("why", "")[:300],
                      {"broken": "e2e scheduler judge (h_paysched)", "family": name, "schedule": small, "result": r,
                       "replay_cmd": "printf '<schedule lines>' | %s" % ctx.bin_path("h_paysched")}, r.get("cat") == "c03")
    for cat in sorted(CLASS_KEYS):
        hits = sched_classes.get(cat, [])
        if hits:
            # the shortest schedule showing the class
            name, lines, r = min(hits, key=lambda h: len(h[1]))
            ctx.violation("scheduled run on real nodes: " + r.get("why", "")[:400],
                          {"broken": "e2e scheduler judge (h_paysched), class '%s' (%d schedules of this run)" % (cat, len(hits)), "family": name, "schedule": lines, "result": r,
                           "replay_cmd": "printf '<schedule lines>' | %s" % ctx.bin_path("h_paysched")}, True, key=CLASS_KEYS[cat])
    broken = []
    if not proved:
        broken.append({"obligation": "Coq proof of Props/C03.v", "detail": getattr(ctx, "proof_failure", {"where": gen_err})})
    if dis:
        broken.append({"correspondence": "h_outbound vs Model/Outbound.v", "first_disagreements": dis[:3], "n": len(dis)})
    if broken and not judge_fails and not e2e_fails and not sched_real:
        ctx.violation("C03 no longer shown: " + ("proof" if not proved else "model/implementation correspondence") + " broken",
                      {"broken": broken, "search": "implementation judge over %d operations in %d sequences + e2e scenarios found no failing input" % (nfun, ctx.coverage.get("functional_sequences", 0))}, False)
    _cleanup_eval(ctx)
    ctx.write_evidence(LEVEL)


def replay(ctx, rep):
    print(json.dumps({k: rep[k] for k in rep if k not in ("ops_struct",)}, indent=1)[:6000])
    if "ops_struct" in rep:
        ctx.build_harness(BINS)
        ops, results, fails = run_impl_sequence(ctx, rep["ops_struct"], len(rep["ops_struct"]), 7)
        for o, r in zip(ops, results):
            print(impl_line(o), "->", json.dumps(r))
        print("judge:", json.dumps(fails, indent=1))
        return 1 if fails else 0
    if "schedule" in rep:
        ctx.build_harness(BINS)
        print("\n".join(rep["schedule"]))
        for attempt in range(6):
            # (randomly keyed hash maps inside LDK: a 4-node schedule may need more than one run)
            r = run_schedule(ctx, rep["schedule"])
            print("->", json.dumps(r))
            if not r.get("ok"):
                return 1
        return 0
    return 0
