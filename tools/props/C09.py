"""C09 — no state is revealed to the peer before its monitor update is durable.

Pipeline: (1) build the trace harness h_monupd against the current tree; (2) Coq: model
Model/MonUpd.v + theorems Props/C09.v (induction over arbitrary label lists); (3) seeded schedules
on real ChannelManagers/ChainMonitors with a scripted Persist implementation; (4) judges that
evaluate the property text directly on the implementation's trace (props/_c09_trace.py); (5) trace
correspondence: every real trace is mapped to model labels, the model must accept it and predict
the update ids, the held flags and the released message sets; (6) DESIGN.md §9 decision.
"""
import json
import os
import time

from vlib import core
from props import _c09_trace as T

BINS = ["h_monupd"]
LEVEL = "proof"
HAVE_COQ = os.path.exists(os.path.join(core.COQ, "Props", "C09.v"))
MANIFEST = {
    "claim": HAVE_COQ,
    "category": "proof",
    "text": "Coq theorems (induction over ARBITRARY lists of handler / persister-verdict / completion labels) about a hand model of the monitor-update pipeline of FundedChannel + ChannelManager + ChainMonitor: update ids gap-free, nothing released before its update and all earlier ones completed, frozen while pending, exactly the held messages released once in resend_order, ChainMonitor reports Completed last. The model is tied to the code by trace correspondence on real nodes with a scripted Persist, and the property's own predicates are judged directly on every real trace.",
    "note": "Proved about the model only; ChannelManager/FundedChannel/ChainMonitor are validated by trace correspondence (model replays every real trace and predicts ids, flags and released messages) and by implementation-side judges. Not modelled: splice tx_signatures gating, async signer, quiescence. Known finding F1 (channel_ready re-sent on reestablish before the initial persist) is reported, not repaired.",
    "technique": "machine-checked proof in Coq (invariants over all label lists) + trace correspondence + implementation-side trace judges on real nodes",
}

# Anchored expressions (DESIGN.md §3.1, "anchored-expression mode"): the hand model transliterates these source
# expressions; each must still be present verbatim (whitespace-insensitive) in the function that owns it. A miss is a
# broken obligation: the §9 search for a failing input runs, and a VIOLATION is reported with or without one.
ANCHORS = [
    ("renumber-takes-first-blocked", "lightning/src/ln/channel.rs", 1,
     r"let blocked_upd = self\.context\.blocked_monitor_updates\.get\(0\);"),
    ("renumber-shifts-every-blocked", "lightning/src/ln/channel.rs", 1,
     r"for held_update in self\.context\.blocked_monitor_updates\.iter_mut\(\) \{ held_update\.update\.update_id \+= 1; \}"),
    ("merged-update-resets-id", "lightning/src/ln/channel.rs", 6,
     r"self\.context\.latest_monitor_update_id = monitor_update\.update_id;"),
    ("channel_ready-held-before-disconnect-check", "lightning/src/ln/channel.rs", 1,
     r"if self\.context\.channel_state\.is_monitor_update_in_progress\(\) \{ log_debug!\(logger, \"Not producing channel_ready: a monitor update is in progress\. Setting monitor_pending_channel_ready\.\"\); self\.context\.monitor_pending_channel_ready = true; return None; \} if self\.context\.channel_state\.is_peer_disconnected\(\) \{"),
    ("closing-needs-no-other-flag", "lightning/src/ln/channel.rs", 1,
     r"ChannelState::AwaitingChannelReady\(flags\) => \{ flags & FundedStateFlags::ALL == FundedStateFlags::LOCAL_SHUTDOWN_SENT \| FundedStateFlags::REMOTE_SHUTDOWN_SENT \}"),
    ("no-commitment-while-monitor-update", "lightning/src/ln/channel.rs", 1,
     r"!flags\.is_set\(FundedStateFlags::MONITOR_UPDATE_IN_PROGRESS\.into\(\)\) && !flags\.is_set\(FundedStateFlags::PEER_DISCONNECTED\.into\(\)\)"),
    ("reestablish-holds-raa", "lightning/src/ln/channel.rs", 1,
     r"if self\.context\.channel_state\.is_monitor_update_in_progress\(\) \{ self\.context\.monitor_pending_revoke_and_ack = true; None \}"),
    ("manager-retains-above-highest", "lightning/src/ln/channelmanager.rs", 1,
     r"pending\.retain\(\|upd\| upd\.update_id > highest_applied_update_id\);"),
    ("manager-resumes-only-when-none-in-flight", "lightning/src/ln/channelmanager.rs", 1,
     r"if remaining_in_flight != 0 \{ return false; \}"),
    ("all-complete-needs-empty-in-flight", "lightning/src/ln/channelmanager.rs", 1,
     r"\(update_completed, update_completed && in_flight_updates\.is_empty\(\)\)"),
    ("chainmonitor-completed-only-when-none-pending", "lightning/src/chain/chainmonitor.rs", 1,
     r"if monitor_is_pending_updates \{ // If there are still monitor updates pending, we cannot yet construct a // Completed event\. return Ok\(\(\)\); \}"),
    ("flush-is-fifo", "lightning/src/chain/chainmonitor.rs", 1, r"let op = match queue\.pop_front\(\) \{"),
]


def check_anchors():
    import re as _re
    bad = []
    cache = {}
    for (name, rel, count, pat) in ANCHORS:
        path = os.path.join(core.REPO, rel)
        if path not in cache:
            try:
                cache[path] = _re.sub(r"\s+", " ", open(path).read())
            except OSError:
                cache[path] = ""
        n = len(_re.findall(pat, cache[path]))
        if n != count:
            bad.append({"anchor": name, "file": rel, "expected_occurrences": count, "found": n, "pattern": pat})
    return bad


JUDGE_NAMES = {
    "a": "update ids handed to chain::Watch gap-free and increasing",
    "b": "no dependent message/broadcast/event released before its update and all earlier ones completed",
    "c": "channel frozen while an update is outstanding (only PaymentPreimage updates from local operations)",
    "d": "exactly the held messages released, once, in the required order; nothing owed is lost",
    "e": "ChainMonitor/ChannelManager treat the channel as complete only when no update is pending",
    "panic": "library panicked",
    "health": "honest peers ended in a protocol error",
    "harness": "harness failure",
}


def n_schedules(tier):
    return 1200 if tier == "quick" else 16000


def gen_lines(ctx, n, tag="sched"):
    rng = ctx.rng.fork(tag)
    lines, metas = [], []
    for i in range(n):
        l, m = T.gen_schedule(rng.fork("s%d" % i))
        lines.append(l)
        metas.append(m)
    return lines, metas


def run_traces(ctx, lines, tag):
    t0 = time.time()
    out = []
    B = 4000
    for i in range(0, len(lines), B):
        out += T.run_harness(ctx.bin_path("h_monupd"), lines[i:i + B], os.path.join(ctx.tmp, "run"), tag, jobs=core.NPROC,
                             timeout=1700)
    ctx.timed("harness_run_s", time.time() - t0)
    return out


def report_impl_violation(ctx, line, trace, viols, shrink_budget):
    """A judge failed on the implementation: shrink, write the replay, report (or match a known finding)."""
    v0 = viols[0]
    key = v0.get("key")
    if key and ctx.known_match(key):
        ctx.violation(v0["what"], {}, True, key=key)
        return
    small = line
    try:
        small = T.shrink(ctx.bin_path("h_monupd"), line, os.path.join(ctx.tmp, "shrink"), set([v0["judge"]]), budget_s=shrink_budget)
    except Exception as ex:  # shrinking is best effort
        ctx.log("shrink failed:", ex)
    tr = T.run_harness(ctx.bin_path("h_monupd"), [small], os.path.join(ctx.tmp, "shrink"), "final", jobs=1)[0]
    vs, _ = T.judge_trace(tr)
    vs = [x for x in vs if not (x.get("key") and ctx.known_match(x["key"]))] or viols
    first = vs[0]
    steps = [T.summarize_step(r) for r in tr[:-1] if r["step"] >= max(0, first["step"] - 6) and r["step"] <= first["step"]]
    ctx.violation(
        "C09 violated on the implementation (%s): %s" % (JUDGE_NAMES.get(first["judge"], first["judge"]), first["what"]),
        {"broken": "implementation-side judge (%s)" % first["judge"], "judge": first["judge"], "schedule": small,
         "original_schedule_ops": len(T.split_schedule(line)[1]), "violations": vs[:6], "trace_tail": steps,
         "replay_cmd": "printf '%%s\\n' '%s' > s.txt && %s s.txt out.jsonl && cat out.jsonl" % (small, ctx.bin_path("h_monupd"))},
        True, key=first.get("key"))


def run(ctx):
    ok_build, out = ctx.build_harness(BINS)
    if not ok_build:
        ctx.violation("harness does not build against the current tree", {"broken": "harness-build", "log_tail": out[-3000:]}, False)
        ctx.write_evidence(LEVEL)
        return
    ctx.trusted_base += [
        "Coq 8.16.1 kernel + vm_compute (no native_compute)",
        "Model/MonUpd.v: hand transliteration of the monitor-update pipeline, tied to the code by trace correspondence only",
        "harness/src/bin/h_monupd.rs, tools/props/_c09_trace.py (trace judges) and LDK's functional_test_utils / TestChainMonitor / TestKeysInterface",
        "lightning feature _verif_hooks: update_step_kinds, monupd_view (read-only)",
    ]
    ctx.assumptions += [
        "the Persist implementation follows the documented rule: once it returned InProgress for a channel it keeps doing so (strict schedules); relaxed schedules return Completed again only when nothing is pending, as the library's own tests do",
        "schedules are at the granularity of public API calls; thread interleavings inside a call are not explored",
    ]
    # ---- model + proofs
    proved = None
    model_ok = False
    if HAVE_COQ:
        model_ok, outm = ctx.coq_make(["Model/MonUpd.vo", "Model/MonUpdTrace.vo"])
        if not model_ok:
            ctx.log(outm[-1500:])
        proved = ctx.prove("C09")
    # ---- anchored expressions the hand model transliterates
    anchor_bad = check_anchors()
    for (name, rel, count, pat) in ANCHORS:
        hit = [a for a in anchor_bad if a["anchor"] == name]
        ctx.obligations.append(("anchor:" + name, not hit, "expression present in %s" % rel if not hit else "expected %d occurrence(s), found %d" % (count, hit[0]["found"])))
    # ---- real traces + judges + model correspondence, in batches (a trace with its per-step views is large)
    lines, metas = gen_lines(ctx, n_schedules(ctx.tier))
    tot = {}
    failing = []
    nontrivial = set()
    kinds = {}
    known_hits = 0
    corr_dis = None
    corr_left = (150 if ctx.tier == "quick" else 2400) if (HAVE_COQ and model_ok) else 0
    corr_cov = {"model_instances_replayed": 0, "model_steps_compared": 0, "model_disagreements": 0}
    sample = None
    BATCH = 600
    for b0 in range(0, len(lines), BATCH):
        blines = lines[b0:b0 + BATCH]
        traces = run_traces(ctx, blines, "main")
        for j, (l, tr) in enumerate(zip(blines, traces)):
            i = b0 + j
            v, st = T.judge_trace(tr)
            for k, x in st.items():
                tot[k] = max(tot.get(k, 0), x) if k == "max_outstanding" else tot.get(k, 0) + x
            key = "%s/%s/%s" % (metas[i]["kind"], "relaxed" if metas[i]["relaxed"] else "strict", "deferred" if metas[i]["deferred"] else "immediate")
            kinds[key] = kinds.get(key, 0) + 1
            if st["inprogress"] > 0 and st["releases_after_completion"] > 0:
                # distinct by the sequence of (update id handed, verdict, completion) events and released message kinds
                sig = []
                for r in tr[:-1]:
                    sig.append((tuple((w[0], w[2], tuple(w[3])) for w in r["w"]), tuple((p[0], p[2], p[4]) for p in r["p"]),
                                tuple((c[0], c[2]) for c in r["c"]), tuple((m[0], m[2]) for m in r["m"])))
                nontrivial.add(hash(tuple(x for x in sig if any(x))))
            if v:
                unknown = [x for x in v if not (x.get("key") and ctx.known_match(x["key"]))]
                if unknown:
                    if len(failing) < 5:
                        failing.append((i, unknown, tr))
                else:
                    known_hits += 1
                    ctx.violation(v[0]["what"], {}, True, key=v[0]["key"])
        if sample is None and traces:
            mid = traces[len(traces) // 2]
            sample = {"schedule": blines[len(blines) // 2][:600], "steps": [T.summarize_step(r) for r in mid[:-1][:12]]}
        if corr_left > 0:
            from props import _c09_model as M
            n = min(corr_left, len(blines))
            corr_left -= n
            try:
                dis = M.correspondence(ctx, blines[:n], traces[:n])
            except Exception as ex:
                dis = [{"error": "model evaluation failed: %r" % (ex,)}]
            for k in corr_cov:
                corr_cov[k] += ctx.coverage.get(k, 0)
            corr_dis = (corr_dis or []) + dis
        del traces
    ctx.coverage.update(corr_cov)
    ctx.coverage["evaluations"] = len(lines)
    ctx.coverage["distinct_nontrivial"] = len(nontrivial)
    ctx.coverage["rule"] = ("seeded random schedules over sends/claims/fails/fee updates/single-message deliveries/disconnects/persister verdicts/"
                            "out-of-order completions/deferred flushes on 2-3 real nodes; non-trivial = at least one update returned InProgress and at "
                            "least one message was released after a completion; distinct = different sequence of (updates handed, verdicts, completions, released message kinds)")
    ctx.coverage["schedule_kinds"] = kinds
    ctx.coverage["trace_stats"] = tot
    ctx.coverage["traces_validated_against_impl"] = len(lines)
    ctx.coverage["schedules_hitting_known_findings"] = known_hits
    if sample:
        ctx.samples.append(sample)
    # ---- decide (DESIGN.md §9)
    for (i, v, tr) in failing[:3]:
        report_impl_violation(ctx, lines[i], tr, v, 60 if ctx.tier == "quick" else 300)
    broken = []
    if HAVE_COQ and not proved:
        broken.append({"obligation": "Coq proof of Props/C09.v", "detail": getattr(ctx, "proof_failure", None)})
    if corr_dis:
        broken.append({"correspondence": "h_monupd traces vs Model/MonUpd.v", "first_disagreements": corr_dis[:3], "n": len(corr_dis)})
    if anchor_bad:
        broken.append({"anchored_expressions_changed": anchor_bad})
    if broken and not failing:
        # search harder for a failing input on the implementation before reporting without one
        extra_n = 1500 if ctx.tier == "quick" else 9000
        xl, xm = gen_lines(ctx, extra_n, "search")
        found = None
        for b0 in range(0, len(xl), 600):
            xt = run_traces(ctx, xl[b0:b0 + 600], "search")
            for l, tr in zip(xl[b0:b0 + 600], xt):
                v, _ = T.judge_trace(tr)
                v = [x for x in v if not (x.get("key") and ctx.known_match(x["key"]))]
                if v:
                    found = (l, tr, v)
                    break
            del xt
            if found:
                break
        if found:
            report_impl_violation(ctx, found[0], found[1], found[2], 60)
        else:
            ctx.violation("C09 no longer shown: " + ("proof" if (HAVE_COQ and not proved) else ("model/implementation correspondence" if corr_dis else "a source expression the model transliterates changed")) + " broken",
                          {"broken": broken, "search": "implementation-side judges on %d + %d further schedules found no failing input" % (len(lines), extra_n)}, False)
    ctx.write_evidence(LEVEL)


def replay(ctx, rep):
    sched = rep.get("schedule")
    if not sched:
        print(json.dumps(rep, indent=1))
        return 0
    ok_build, out = ctx.build_harness(BINS)
    tr = T.run_harness(ctx.bin_path("h_monupd"), [sched], os.path.join(ctx.tmp, "replay"), "replay", jobs=1)[0]
    v, _ = T.judge_trace(tr)
    for r in tr[:-1]:
        print(json.dumps(T.summarize_step(r)))
    print(json.dumps({"violations": v}, indent=1))
    return 1 if v else 0
