"""C09 helpers: schedule generator, harness runner and the implementation-side judges that evaluate
the property text directly on a trace of the real ChannelManager / ChainMonitor (no model involved).

Trace = list of step records produced by harness/src/bin/h_monupd.rs (see its header), followed by
one end record. All judges are pure functions of the trace.
"""
import json
import os
import subprocess
import time

HOLDER = ("LatestHolderCommitmentTXInfo", "LatestHolderCommitment")
CPARTY = ("LatestCounterpartyCommitmentTXInfo", "LatestCounterpartyCommitment")
SECRET = "CommitmentSecret"
PREIMAGE = "PaymentPreimage"
COMMIT_MSGS = ("update_add_htlc", "update_fulfill_htlc", "update_fail_htlc", "update_fail_malformed_htlc",
               "update_fee", "commitment_signed")
CHANNEL_MSGS = COMMIT_MSGS + ("revoke_and_ack",)
LOCAL_OPS = ("send", "claim", "fail", "fee", "tick", "fwd", "fwdany", "close")


# --------------------------------------------------------------------------- schedules
def gen_guided(rng):
    """Forwarded payments driven to the claim stage in sync mode, then asynchronous persistence at the
    forwarding node while claims, deliveries and (out-of-order) completions interleave. This is what
    reaches blocked RAA updates (RAA blockers), preimage updates jumping the blocked queue, holding-cell
    claims and post-completion action release."""
    relaxed = rng.chance(1, 4)
    deferred = rng.chance(1, 6)
    ops = []
    npay = rng.range(1, 3)
    for _ in range(npay):
        a, b = rng.choice([(0, 2), (2, 0), (0, 2), (0, 1), (2, 1)])
        ops.append("send %d %d %d" % (a, b, rng.choice([1000000, 3000000, 20000000])))
    if deferred:
        for n in range(3):
            ops.append("flush %d 0" % n)
    for _ in range(rng.range(10, 26)):
        ops.append("dany 0")
        if rng.chance(1, 3):
            ops.append("fwdany 0")
        if deferred and rng.chance(1, 2):
            ops.append("flush %d 0" % rng.below(3))
    ops.append("fwdany 0")
    ops.append("fwdany 0")
    if rng.chance(9, 10):
        ops.append("pmode 1 async")
    for n in (0, 2):
        if rng.chance(1, 3):
            ops.append("pmode %d async" % n)
    if rng.chance(1, 2):
        # the downstream channel's updates complete while the upstream preimage update stays in flight: the
        # forwarding node's next revoke_and_ack update on the downstream channel is held by an RAA blocker
        dst = rng.choice([2, 0])
        down = 1 if dst == 2 else 0  # index of the downstream channel at node 1
        ops += ["claim %d 0" % dst, "deliver %d 1" % dst, "deliver %d 1" % dst, "complete 1 %d 0" % down,
                "deliver 1 %d" % dst, "deliver 1 %d" % dst, "deliver %d 1" % dst, "deliver %d 1" % dst]
    for _ in range(rng.range(25, 70)):
        r = rng.below(100)
        if r < 16:
            ops.append("claim %d %d" % (rng.choice([2, 0, 1, 2]), rng.below(2)))
        elif r < 50:
            ops.append("dany %d" % rng.below(6))
        elif r < 68:
            ops.append("complete 1 %d %d" % (rng.below(2), rng.below(3)))
        elif r < 76:
            ops.append("cany %d" % rng.below(8))
        elif r < 82:
            a, b = rng.choice([(0, 2), (2, 0), (1, 2), (1, 0), (0, 1), (2, 1)])
            ops.append("send %d %d %d" % (a, b, rng.choice([1000000, 3000000, 250000])))
        elif r < 88:
            ops.append("fwdany %d" % rng.below(3))
        elif r < 90:
            a, b = rng.choice([(0, 1), (1, 2)])
            ops.append("disc %d %d" % (a, b))
        elif r < 93:
            a, b = rng.choice([(0, 1), (1, 2)])
            ops.append("reconn %d %d" % (a, b))
        elif r < 95:
            ops.append("fee %d %d" % (rng.below(3), rng.choice([40, 250])))
        elif r < 97:
            ops.append("fail %d %d" % (rng.below(3), rng.below(2)))
        elif deferred:
            ops.append("flush %d %d" % (rng.below(3), rng.below(3)))
        elif relaxed:
            ops.append(rng.choice(["pmode 1 sync", "pnext 1 2"]))
        else:
            ops.append("dany %d" % rng.below(6))
    ops.append("settle")
    head = "steady %s %s" % ("relaxed" if relaxed else "strict", "def" if deferred else "imm")
    return head + " ; " + " ; ".join(ops), {"kind": "guided", "relaxed": relaxed, "deferred": deferred, "n_ops": len(ops)}


def _shuffle(rng, xs):
    xs = list(xs)
    for i in range(len(xs) - 1, 0, -1):
        j = rng.below(i + 1)
        xs[i], xs[j] = xs[j], xs[i]
    return xs


def gen_openflow(rng):
    """Channel opening under asynchronous persistence: the funding confirmation lands at any point relative to
    message delivery, disconnect / reconnect and the completion of either side's initial persist; also 0-conf.
    Short schedules; the judge is 'after everything completes and the peers are connected the channel is usable and
    nothing that depends on the initial persist left early, channel_ready once per connection'."""
    relaxed = rng.chance(1, 4)
    zeroconf = rng.chance(1, 4)
    ops = []
    for n in range(2):
        if rng.chance(3, 5):
            ops.append("pmode %d async" % n)
    a, b = (0, 1) if rng.chance(1, 2) else (1, 0)
    ops.append("open %d %d" % (a, b))
    body = ["dany %d" % rng.below(3) for _ in range(rng.range(7, 12))]
    body += ["cany %d" % rng.below(3) for _ in range(rng.range(1, 4))]
    body += ["confirm"] * rng.range(1, 3)
    for _ in range(rng.range(0, 2)):
        body += ["disc 0 1", "reconn 0 1"]
    body = _shuffle(rng, body)
    # the handshake needs its first four messages before anything else can happen
    ops += ["dany 0"] * rng.range(2, 4) + body
    for _ in range(rng.range(0, 6)):
        r = rng.below(10)
        if r < 3:
            x, y = (0, 1) if rng.chance(1, 2) else (1, 0)
            ops.append("send %d %d %d" % (x, y, rng.choice([1000000, 3000000])))
        elif r < 7:
            ops.append("dany %d" % rng.below(3))
        elif r < 9:
            ops.append("cany %d" % rng.below(3))
        else:
            ops.append(rng.choice(["disc 0 1", "reconn 0 1", "confirm"]))
    ops.append("settle")
    head = "open %s imm%s" % ("relaxed" if relaxed else "strict", " zeroconf" if zeroconf else "")
    return head + " ; " + " ; ".join(ops), {"kind": "openflow", "relaxed": relaxed, "deferred": False, "n_ops": len(ops)}


def gen_shutdown(rng):
    """Cooperative close under asynchronous persistence: shutdown / closing_signed by funder or fundee, before or
    after channel_ready, with or without an upfront shutdown script (without: a ShutdownScript monitor update), with
    HTLCs pending or not."""
    relaxed = rng.chance(1, 4)
    noupfront = rng.chance(3, 4)
    pre_ready = rng.chance(1, 3)
    ops = []
    if pre_ready:
        a, b = (0, 1) if rng.chance(1, 2) else (1, 0)
        ops.append("open %d %d" % (a, b))
        ops += ["dany 0"] * 4  # funding broadcast, both monitors persisted synchronously
        if rng.chance(1, 3):
            ops.append("confirm")
            ops += ["dany 0"] * rng.range(0, 2)
        closer = rng.choice([a, b, a])
        for n in _shuffle(rng, [0, 1]):
            if rng.chance(2, 3):
                ops.append("pmode %d async" % n)
        ops.append("close %d 0" % closer)
        nn = 2
    else:
        nn = 3
        for _ in range(rng.range(0, 2)):
            x, y = rng.choice([(0, 1), (1, 0), (0, 2), (2, 1), (1, 2)])
            ops.append("send %d %d %d" % (x, y, rng.choice([1000000, 3000000])))
            ops += ["dany %d" % rng.below(4) for _ in range(rng.range(0, 8))]
        for n in _shuffle(rng, [0, 1, 2]):
            if rng.chance(1, 2):
                ops.append("pmode %d async" % n)
        closer = rng.below(3)
        ops.append("close %d %d" % (closer, rng.below(2)))
    for _ in range(rng.range(8, 24)):
        r = rng.below(100)
        if r < 50:
            ops.append("dany %d" % rng.below(5))
        elif r < 72:
            ops.append("cany %d" % rng.below(5))
        elif r < 78:
            ops.append("close %d %d" % (rng.below(nn), rng.below(2)))
        elif r < 84:
            ops.append("fwdany %d" % rng.below(3))
        elif r < 90:
            ops.append("claim %d %d" % (rng.below(nn), rng.below(2)))
        elif r < 94:
            x, y = rng.choice([(0, 1), (1, 0)] if nn == 2 else [(0, 1), (1, 2)])
            ops.append("disc %d %d" % (x, y))
        elif r < 98:
            x, y = rng.choice([(0, 1), (1, 0)] if nn == 2 else [(0, 1), (1, 2)])
            ops.append("reconn %d %d" % (x, y))
        else:
            ops.append("confirm" if pre_ready else "dany 0")
    ops.append("settle")
    head = "%s %s imm%s" % ("open" if pre_ready else "steady", "relaxed" if relaxed else "strict", " noupfront" if noupfront else "")
    return head + " ; " + " ; ".join(ops), {"kind": "shutdown", "relaxed": relaxed, "deferred": False, "n_ops": len(ops)}


def gen_blocked(rng):
    """Two or more BLOCKED monitor updates on one channel, then a claim / more traffic on it. The forwarding node
    B stops handling its events: the unhandled PaymentSent / PaymentForwarded keeps the next revoke_and_ack update of
    the channel the preimage came from blocked; further commitment_signed / revoke_and_ack updates queue behind it;
    then a preimage for an inbound HTLC on that very channel arrives (its update must jump the whole queue and take
    the id of the FIRST blocked update), more traffic is queued, and finally the events are handled."""
    relaxed = rng.chance(1, 4)
    ops = []
    far = rng.choice([2, 0])       # the channel B<->far gets the blocked queue
    near = 2 - far                 # the other neighbour of B
    # p1: B pays far directly (its PaymentSent will be the blocker); p2: far -> near via B (claimed later by near)
    ops.append("evhold 1 on")
    ops.append("send 1 %d %d" % (far, rng.choice([1000000, 3000000])))
    ops.append("send %d %d %d" % (far, near, rng.choice([1000000, 3000000])))
    if rng.chance(1, 2):
        ops.append("send %d %d %d" % (far, near, 2000000))
    for _ in range(30):
        ops.append("dany 0")
        if rng.chance(1, 3):
            ops.append("fwdany 0")
    ops += ["fwdany 0", "fwdany 0", "dany 0", "dany 0", "dany 0", "dany 0", "dany 0", "dany 0", "fwdany 0"]
    if rng.chance(1, 2):
        ops.append("pmode 1 async")
    # far claims p1; B gets the preimage (PaymentSent stays unhandled) and the dance ends with a blocked RAA update
    ops += ["claim %d 0" % far, "deliver %d 1" % far, "deliver %d 1" % far]
    if rng.chance(1, 2):
        ops.append("cany 0")
    ops += ["deliver 1 %d" % far, "deliver 1 %d" % far, "deliver %d 1" % far, "cany 0", "cany 0", "deliver 1 %d" % far, "deliver %d 1" % far]
    # more traffic from far: its commitment_signed update queues behind the blocked one
    for _ in range(rng.range(1, 3)):
        ops.append("send %d 1 %d" % (far, rng.choice([1000000, 2000000])))
        ops += ["deliver %d 1" % far, "deliver %d 1" % far]
        if rng.chance(1, 2):
            ops += ["cany 0", "deliver 1 %d" % far, "deliver 1 %d" % far, "deliver %d 1" % far]
    # near claims p2: B learns the preimage and must persist it on the blocked channel right away
    ops += ["claim %d 0" % near, "deliver %d 1" % near]
    if rng.chance(1, 2):
        ops += ["claim %d 0" % near, "deliver %d 1" % near]
    for _ in range(rng.range(4, 16)):
        r = rng.below(10)
        if r < 5:
            ops.append("dany %d" % rng.below(5))
        elif r < 7:
            ops.append("cany %d" % rng.below(5))
        elif r < 8:
            ops.append("claim %d %d" % (rng.below(3), rng.below(2)))
        elif r < 9:
            ops.append("send %d 1 1000000" % far)
        else:
            ops.append("fwdany %d" % rng.below(3))
    ops.append(rng.choice(["evhold 1 off", "events 1"]))
    for _ in range(rng.range(2, 10)):
        ops.append(rng.choice(["dany %d" % rng.below(5), "cany %d" % rng.below(5), "fwdany 0"]))
    ops.append("settle")
    head = "steady %s imm" % ("relaxed" if relaxed else "strict")
    return head + " ; " + " ; ".join(ops), {"kind": "blocked", "relaxed": relaxed, "deferred": False, "n_ops": len(ops)}


def gen_schedule(rng, kind=None):
    """One schedule line for h_monupd. Returns (line, meta)."""
    if kind is None:
        r = rng.below(100)
        if r < 28:
            return gen_guided(rng)
        if r < 42:
            return gen_blocked(rng)
        if r < 58:
            return gen_openflow(rng)
        if r < 70:
            return gen_shutdown(rng)
        kind = "open" if rng.chance(1, 4) else "steady"
    relaxed = rng.chance(1, 4)
    # TestChainMonitor::update_channel needs the monitor to be registered, which in deferred mode happens only at
    # the first flush: channel opening is explored in immediate mode only
    deferred = rng.chance(1, 5) and kind != "open"
    nn = 2 if kind == "open" else 3
    ops = []
    pairs = [(0, 1), (1, 0)] if nn == 2 else [(0, 1), (1, 0), (1, 2), (2, 1)]
    amts = [1000000, 3000000, 20000000, 250000, 90000000]

    def node():
        return rng.below(nn)

    if kind == "open":
        # persister modes chosen before the channel exists, so that the initial persist can be async
        for n in range(nn):
            if rng.chance(1, 2):
                ops.append("pmode %d async" % n)
        ops.append("open %d %d" % ((0, 1) if rng.chance(1, 2) else (1, 0)))
        for _ in range(4):
            ops.append("dany 0")
        flaky = rng.chance(1, 3)
        for _ in range(rng.range(4, 14)):
            r = rng.below(10)
            if flaky and rng.chance(1, 4):
                ops.append(rng.choice(["disc 0 1", "reconn 0 1", "confirm"]))
            elif r < 5:
                ops.append("dany %d" % rng.below(4))
            elif r < 8:
                ops.append("cany %d" % rng.below(4))
            elif r < 9 and deferred:
                ops.append("flush %d %d" % (node(), rng.below(3)))
            else:
                ops.append("confirm")
        ops.append("confirm")
    length = rng.range(25, 110)
    # activity profile of this schedule
    p_async = rng.choice([2, 4, 8])
    p_complete = rng.choice([4, 10, 18])
    p_disc = rng.choice([0, 1, 3])
    for _ in range(length):
        r = rng.below(100)
        if r < 14:
            a, b = rng.choice([(x, y) for x in range(nn) for y in range(nn) if x != y])
            ops.append("send %d %d %d" % (a, b, rng.choice(amts)))
        elif r < 50:
            if rng.chance(4, 5):
                ops.append("dany %d" % rng.below(6))
            else:
                ops.append("deliver %d %d" % rng.choice(pairs))
        elif r < 58:
            ops.append("fwdany %d" % rng.below(3) if rng.chance(3, 4) else "fwd %d" % node())
        elif r < 65:
            ops.append("claim %d %d" % (node(), rng.below(3)))
        elif r < 67:
            ops.append("fail %d %d" % (node(), rng.below(3)))
        elif r < 69:
            ops.append("fee %d %d" % (node(), rng.choice([40, 250, 400])))
        elif r < 70:
            ops.append("tick %d" % node())
        elif r < 70 + p_disc:
            a, b = rng.choice(pairs)
            ops.append("disc %d %d" % (a, b))
        elif r < 70 + 2 * p_disc + 1:
            a, b = rng.choice(pairs)
            ops.append("reconn %d %d" % (a, b))
        elif r < 75 + p_async:
            n = node()
            if relaxed and rng.chance(1, 2):
                ops.append(rng.choice(["pnext %d %d" % (n, rng.range(1, 3)), "pmode %d sync" % n]))
            else:
                ops.append("pmode %d async" % n)
        elif r < 75 + p_async + p_complete:
            if rng.chance(3, 4):
                ops.append("cany %d" % rng.below(8))
            else:
                ops.append("complete %d %d %d" % (node(), rng.below(2), rng.below(4)))
        elif r < 96:
            if deferred:
                ops.append("flush %d %d" % (node(), rng.below(4)))
            else:
                ops.append("dany %d" % rng.below(6))
        elif r < 97:
            ops.append(rng.choice(["completeall %d" % node(), "evhold %d on" % node(), "evhold %d off" % node(), "events %d" % node()]))
        elif r < 98 and rng.chance(1, 3):
            ops.append("fc %d %d" % (node(), rng.below(2)))
        else:
            ops.append("dany %d" % rng.below(6))
    ops.append("settle")
    head = "%s %s %s" % (kind, "relaxed" if relaxed else "strict", "def" if deferred else "imm")
    return head + " ; " + " ; ".join(ops), {"kind": kind, "relaxed": relaxed, "deferred": deferred, "n_ops": len(ops)}


def split_schedule(line):
    parts = [p.strip() for p in line.split(";")]
    return parts[0], [p for p in parts[1:] if p]


def join_schedule(head, ops):
    return head + " ; " + " ; ".join(ops)


def run_harness(bin_path, lines, tmpdir, tag, jobs=16, timeout=1500):
    """Runs the schedules sharded over `jobs` processes; returns list of traces (same order)."""
    os.makedirs(tmpdir, exist_ok=True)
    jobs = max(1, min(jobs, len(lines)))
    shards = [lines[i::jobs] for i in range(jobs)]
    procs = []
    for i, sh in enumerate(shards):
        inp = os.path.join(tmpdir, "%s_%d.in" % (tag, i))
        outp = os.path.join(tmpdir, "%s_%d.out" % (tag, i))
        with open(inp, "w") as f:
            f.write("\n".join(sh) + "\n")
        if os.path.exists(outp):
            os.remove(outp)
        procs.append((subprocess.Popen(["timeout", str(timeout), bin_path, inp, outp], stdout=subprocess.DEVNULL,
                                       stderr=subprocess.DEVNULL, cwd=tmpdir), outp, len(sh)))
    traces = [None] * len(lines)
    for i, (p, outp, n) in enumerate(procs):
        rc = p.wait()
        got = []
        cur = []
        try:
            with open(outp) as f:
                for l in f:
                    l = l.strip()
                    if not l.startswith("{"):
                        continue
                    try:
                        d = json.loads(l)
                    except ValueError:
                        continue
                    cur.append(d)
                    if d.get("end"):
                        got.append(cur)
                        cur = []
        except FileNotFoundError:
            pass
        for j in range(n):
            if j < len(got):
                traces[i + j * jobs] = got[j]
            else:
                traces[i + j * jobs] = (cur if j == len(got) else []) + [{"end": True, "aborted": True, "harness_rc": rc,
                                                                           "payments": [], "chans": [], "queued": 0}]
    return traces


# --------------------------------------------------------------------------- judges
class ChanState:
    """What the judge knows about (node, channel) from the trace alone."""

    def __init__(self):
        self.baseline = None      # latest update id before the first traced update
        self.handed = []          # ids in the order handed to chain::Watch
        self.kinds = {}           # id -> step kinds
        self.step_of = {}         # id -> trace step
        self.outstanding = set()  # handed (or initial persist) and not yet reported complete
        self.initial_pending = False
        self.H = []               # ids of updates with a holder-commitment step
        self.K = []               # ids with a counterparty-commitment step
        self.S = []
        self.pos = {}             # ("H"|"K", id) -> (id, index in update)
        self.last_cs_release = None   # (step, len(K), reconnect_epoch)
        self.last_raa_release = None
        self.cs_steps = []
        self.raa_steps = []
        self.closed = False
        self.fwd_claim_updates = []   # preimage updates created by a downstream fulfill (forwarded claims)
        self.n_payment_forwarded = 0
        self.htlc = {}            # payment tag -> stage of an inbound HTLC on this channel (see judge b3)
        self.SH = []              # ids of updates with a ShutdownScript step
        self.last_cr_epoch = None


def judge_trace(trace):
    """Returns (violations, stats). violations: list of dicts {judge, step, what}."""
    V = []
    stats = {"updates": 0, "inprogress": 0, "completions": 0, "releases_after_completion": 0, "held_steps": 0,
             "frozen_local_ops": 0, "preimage_while_frozen": 0, "raa_cs_both": 0, "out_of_order_completions": 0,
             "msgs": 0, "deferred_flush": 0, "max_outstanding": 0, "reconnects": 0, "post_close_updates": 0,
             "fwd_dep_checked": 0, "claimed_dep_checked": 0, "funding_dep_checked": 0}
    if not trace or not trace[-1].get("end"):
        return [{"judge": "harness", "step": -1, "what": "no end record"}], stats
    end = trace[-1]
    steps = trace[:-1]
    cs = {}  # (n, chan) -> ChanState
    peer_of = {}
    epoch = {}  # frozenset({a,b}) -> reconnect counter
    pay_claim_updates = {}  # (n, tag) -> [(chan, id)]
    terminal = {}
    claimed_ops = set()
    expected_close = set()
    f1_broken = False
    fc_seen = False
    coop_seen = False
    pre_ready_shutdown = False

    def st(n, chan):
        k = (n, chan)
        if k not in cs:
            cs[k] = ChanState()
        return cs[k]

    def bad(j, step, what, key=None):
        V.append({"judge": j, "step": step, "what": what, "key": key})

    last_view = {}

    def all_done_upto(s, upto):
        return not any(i <= upto for i in s.outstanding) and not (s.initial_pending)

    for rec in steps:
        k = rec["step"]
        op = rec["op"].split()
        if rec.get("panic"):
            # Known finding F2: monitor_updating_restored asserts that monitor_pending_channel_ready can only be set
            # on an inbound or 0-conf channel; a ShutdownScript update in progress on an OUTBOUND channel whose funding
            # then reaches its depth sets it too.
            f2 = "Funding transaction broadcast by the local client before it should have" in rec["panic"] and pre_ready_shutdown
            bad("panic", k, "library panicked: " + rec["panic"][:300],
                key="F2-panic-restored-outbound-channel_ready-pending-after-pre-ready-shutdown" if f2 else None)
        for v in rec["v"]:
            peer_of[(v["n"], v["chan"])] = v["peer"]
            s = st(v["n"], v["chan"])
            if s.baseline is None and not s.handed and v.get("open") and "latest" in v:
                s.baseline = v["latest"]
        if op[0] == "reconn" and rec["applied"]:
            key = frozenset((int(op[1]), int(op[2])))
            epoch[key] = epoch.get(key, 0) + 1
            stats["reconnects"] += 1
        if op[0] == "disc" and rec["applied"]:
            key = frozenset((int(op[1]), int(op[2])))
            epoch[key] = epoch.get(key, 0) + 1
        if op[0] == "fc" and rec["applied"]:
            fc_seen = True
        if op[0] == "close" and rec["applied"]:
            coop_seen = True
            fc_seen = True  # a cooperative close may race with a disconnection and end in errors for that channel
            if any("ShutdownScript" in w[3] and not v.get("ready", True) for w in rec["w"] for v in rec["v"]
                   if v["n"] == w[0] and v["chan"] == w[1]):
                pre_ready_shutdown = True
        for e in rec["errs"]:
            # the library disconnects a peer that owes a response for two timer ticks: an ordinary disconnection
            if "Disconnecting due to timeout awaiting response" in e:
                continue
            # a channel whose peer disconnects before funding completed is dropped by design
            if "peer disconnected prior to the channel being funded" in e:
                fc_seen = True
            # after a deliberate force-close the two sides legitimately exchange errors for that channel
            if fc_seen:
                continue
            # consequence of finding F1: the channel_ready sent early on reestablish is sent AGAIN when the initial
            # persist completes (monitor_pending_channel_ready is still set); if the channel has advanced meanwhile
            # the second one carries a later commitment point and the peer closes the channel
            if "Peer sent a reconnect channel_ready with a different point" in e and any(getattr(x, "f1_epoch", None) is not None for x in cs.values()):
                f1_broken = True
            bad("health", k, e, key="F1-channel_ready-resent-on-reestablish-before-initial-persist" if f1_broken else None)

        # outstanding sets at the START of the step (for the freeze judge)
        start_out = dict(((n, c), set(s.outstanding) | ({-1} if s.initial_pending else set())) for (n, c), s in cs.items())

        # ---- completions reported (they are the op itself, so they precede everything else in the step)
        for (n, chan, i) in rec["c"]:
            s = st(n, chan)
            stats["completions"] += 1
            if s.outstanding and i != min(s.outstanding) and i in s.outstanding:
                stats["out_of_order_completions"] += 1
            s.outstanding.discard(i)
            if s.initial_pending and i == s.baseline:
                s.initial_pending = False

        # ---- watch-level calls (a): gap-free, strictly increasing, no duplicates
        handed_now = {}
        for (n, chan, i, kinds) in rec["w"]:
            s = st(n, chan)
            stats["updates"] += 1
            if s.baseline is None:
                s.baseline = i - 1
            expect = (s.handed[-1] if s.handed else s.baseline) + 1
            if i != expect:
                bad("a", k, "node %d chan %s: update_id %d handed to chain::Watch, expected %d (%s)" % (
                    n, chan, i, expect, "duplicate/decreasing" if i < expect else "gap"))
            s.handed.append(i)
            s.kinds[i] = kinds
            s.step_of[i] = k
            s.outstanding.add(i)
            handed_now.setdefault((n, chan), []).append(i)
            if s.closed:
                stats["post_close_updates"] += 1
            for idx, kd in enumerate(kinds):
                if kd in HOLDER:
                    s.H.append(i)
                    s.pos[("H", i)] = (i, idx)
                elif kd in CPARTY:
                    s.K.append(i)
                    s.pos[("K", i)] = (i, idx)
                elif kd == SECRET:
                    s.S.append(i)
                elif kd == "ChannelForceClosed":
                    s.closed = True
                elif kd == "ShutdownScript":
                    s.SH.append(i)
        # ---- persister-level calls: verdicts; in deferred mode the order must be the watch order
        for (n, chan, i, new, inprog, _seq) in rec["p"]:
            s = st(n, chan)
            if new:
                s.baseline = i
                s.initial_pending = bool(inprog)
                if inprog:
                    stats["inprogress"] += 1
                continue
            if inprog:
                stats["inprogress"] += 1
            else:
                s.outstanding.discard(i)
            last = getattr(s, "last_persisted", s.baseline)
            if last is not None and i != last + 1:
                bad("a", k, "node %d chan %s: persister saw update %d after %d (order not preserved)" % (n, chan, i, last))
            s.last_persisted = i
        if op[0] == "flush" and rec["applied"]:
            stats["deferred_flush"] += 1
        for (n, c), s in cs.items():
            stats["max_outstanding"] = max(stats["max_outstanding"], len(s.outstanding))

        # ---- bookkeeping of forwarded claims and local claims (which preimage updates belong to which payment)
        d = rec.get("d")
        if d and d[2] == "update_fulfill_htlc":
            # node d[1] learned a preimage from downstream: preimage updates it handed now on OTHER channels are
            # upstream claims of a forwarded payment
            for (n, chan), ids in handed_now.items():
                if n == d[1] and chan != d[3]:
                    for i in ids:
                        if PREIMAGE in cs[(n, chan)].kinds[i]:
                            cs[(n, chan)].fwd_claim_updates.append(i)
        if op[0] == "claim" and rec["applied"] and rec.get("pay"):
            claimed_ops.add(rec["pay"])
            for (nn_, chan), ids in handed_now.items():
                for i in ids:
                    if PREIMAGE in cs[(nn_, chan)].kinds[i]:
                        pay_claim_updates.setdefault((nn_, rec["pay"]), []).append((chan, i))
        if op[0] == "fc" and rec["applied"]:
            for (n, chan, i, kinds) in rec["w"]:
                if "ChannelForceClosed" in kinds:
                    expected_close.add(chan)

        # ---- inbound HTLC life cycle for the forward/claimable dependency (b3)
        # stage 0: add received; 1: their commitment_signed covering it persisted as update H;
        # 2: our commitment including it built (update K at/after H); 3: their revoke_and_ack (update S after K) => dep
        if d and d[2] == "update_add_htlc":
            st(d[1], d[3]).htlc[d[5]] = {"stage": 0, "dep": None}
        for (n, chan), ids in handed_now.items():
            s = cs[(n, chan)]
            for i in ids:
                for kd in s.kinds[i]:
                    for tag, h in s.htlc.items():
                        if h["stage"] == 0 and kd in HOLDER:
                            h["stage"] = 1
                        elif h["stage"] == 1 and kd in CPARTY:
                            h["stage"] = 2
                        elif h["stage"] == 2 and kd == SECRET:
                            h["stage"] = 3
                            h["dep"] = i
        # a reconnect drops uncommitted adds (stage 0): the peer re-sends them
        if op[0] in ("disc",) and rec["applied"]:
            a, b = int(op[1]), int(op[2])
            for (n, chan), s in cs.items():
                if n in (a, b) and peer_of.get((n, chan)) in (a, b):
                    for tag in [t for t, h in s.htlc.items() if h["stage"] == 0]:
                        del s.htlc[tag]

        # ---- released messages
        by_nc = {}
        for idx, m in enumerate(rec["m"]):
            frm, to, kind, chan, h = m[0], m[1], m[2], m[3], m[4]
            tag = m[5] if len(m) > 5 else ""
            stats["msgs"] += 1
            by_nc.setdefault((frm, chan), []).append((idx, kind, h, tag))
        for (n, chan), msgs in by_nc.items():
            s = st(n, chan)
            kinds = [x[1] for x in msgs]
            ep = epoch.get(frozenset((n, peer_of.get((n, chan), -1))), 0)
            # (b1) commitment updates depend on the latest counterparty-commitment update and all earlier ones
            if any(x in COMMIT_MSGS for x in kinds):
                if not s.K:
                    bad("b", k, "node %d chan %s released %s but no counterparty-commitment update was ever handed to the watch" % (n, chan, ",".join(kinds)))
                elif not all_done_upto(s, s.K[-1]):
                    bad("b", k, "node %d chan %s released %s while update(s) %s (<= %d, the update persisting that commitment) are still in progress" % (
                        n, chan, ",".join(x for x in kinds if x in COMMIT_MSGS), sorted(i for i in s.outstanding if i <= s.K[-1]), s.K[-1]))
                if "commitment_signed" in kinds:
                    # (d1) released once: a second commitment_signed needs a new commitment or a reconnection
                    cur = (len(s.K), ep)
                    if s.last_cs_release is not None and s.last_cs_release == cur:
                        bad("d", k, "node %d chan %s released commitment_signed twice for the same commitment without reconnecting" % (n, chan))
                    s.last_cs_release = cur
                    s.cs_steps.append(k)
            # (b2) revoke_and_ack depends on the latest holder-commitment update and all earlier ones
            if "revoke_and_ack" in kinds:
                if not s.H:
                    bad("b", k, "node %d chan %s released revoke_and_ack but no holder-commitment update was ever handed to the watch" % (n, chan))
                elif not all_done_upto(s, s.H[-1]):
                    bad("b", k, "node %d chan %s released revoke_and_ack while update(s) %s (<= %d, the update persisting the new holder commitment) are still in progress" % (
                        n, chan, sorted(i for i in s.outstanding if i <= s.H[-1]), s.H[-1]))
                cur = (len(s.H), ep)
                if s.last_raa_release is not None and s.last_raa_release == cur:
                    bad("d", k, "node %d chan %s released revoke_and_ack twice for the same commitment without reconnecting" % (n, chan))
                s.last_raa_release = cur
                s.raa_steps.append(k)
            # (d3) order: the message whose update step was created first goes first
            if "revoke_and_ack" in kinds and "commitment_signed" in kinds and s.H and s.K:
                stats["raa_cs_both"] += 1
                i_raa = kinds.index("revoke_and_ack")
                i_cs = kinds.index("commitment_signed")
                raa_first_expected = s.pos[("H", s.H[-1])] < s.pos[("K", s.K[-1])]
                if (i_raa < i_cs) != raa_first_expected:
                    bad("d", k, "node %d chan %s released %s first, but the update stream created the %s first (holder-commitment step in update %d, counterparty-commitment step in update %d)" % (
                        n, chan, "revoke_and_ack" if i_raa < i_cs else "commitment_signed",
                        "revoke_and_ack" if raa_first_expected else "commitment_signed", s.H[-1], s.K[-1]))
            # (b6) closing_signed lets the peer complete and broadcast a closing transaction paying our shutdown script:
            # it depends on the ShutdownScript update (and all earlier ones). The shutdown message itself deliberately
            # does not (comment in ChannelManager::internal_shutdown).
            if "closing_signed" in kinds and s.SH and not all_done_upto(s, s.SH[-1]):
                bad("b", k, "node %d chan %s released closing_signed while update(s) %s (<= %d, the ShutdownScript update) are still in progress" % (
                    n, chan, sorted(i for i in s.outstanding if i <= s.SH[-1]), s.SH[-1]))
            if "closing_signed" in kinds and s.initial_pending:
                bad("b", k, "node %d chan %s released closing_signed before the initial ChannelMonitor persist completed" % (n, chan))
            # (d1') channel_ready goes out once per connection
            if "channel_ready" in kinds:
                if kinds.count("channel_ready") > 1 or s.last_cr_epoch == ep:
                    # after finding F1 (channel_ready re-sent early on reestablish, monitor_pending_channel_ready still
                    # set) the completion sends it a second time in the same connection
                    bad("d", k, "node %d chan %s released channel_ready twice without reconnecting" % (n, chan),
                        key="F1-channel_ready-resent-on-reestablish-before-initial-persist" if getattr(s, "f1_epoch", None) == ep else None)
                s.last_cr_epoch = ep
            # (b4) channel_ready depends on the initial monitor persist. (funding_signed deliberately does not: the
            # fundee cannot lose money on a funding transaction it has not accepted payment from yet; see the comment
            # in ChannelManager::internal_funding_created. The property text does not list funding_signed either.)
            if "channel_ready" in kinds and s.baseline is not None:
                stats["funding_dep_checked"] += 1
                if s.initial_pending:
                    # Known finding F1: FundedChannel::channel_reestablish re-sends channel_ready without looking at
                    # MONITOR_UPDATE_IN_PROGRESS once the channel is in ChannelState::ChannelReady (our funding locked
                    # and the peer's channel_ready received while the initial persist is still pending).
                    dd = rec.get("d")
                    f1 = bool(dd and dd[2] == "channel_reestablish" and dd[1] == n and last_view.get((n, chan), {}).get("ready")
                              and last_view.get((n, chan), {}).get("mip"))
                    if f1:
                        s.f1_epoch = ep
                    bad("b", k, "node %d chan %s released channel_ready before the initial ChannelMonitor persist completed%s" % (
                        n, chan, " (on channel_reestablish, channel already in ChannelReady state)" if f1 else ""),
                        key="F1-channel_ready-resent-on-reestablish-before-initial-persist" if f1 else None)
            # (b3) a forward depends on the update that made the inbound HTLC irrevocable
            for (_, kind, h, tag) in msgs:
                if kind == "update_add_htlc" and tag:
                    for (n2, c2), s2 in cs.items():
                        if n2 == n and c2 != chan and tag in s2.htlc:
                            hh = s2.htlc[tag]
                            stats["fwd_dep_checked"] += 1
                            if hh["stage"] < 3:
                                bad("b", k, "node %d forwarded payment %s on chan %s before the inbound HTLC on chan %s was irrevocably committed (stage %d)" % (n, tag, chan, c2, hh["stage"]))
                            elif not all_done_upto(s2, hh["dep"]) and s2.step_of.get(hh["dep"]) is not None:
                                # the dependency must have been complete at some point; it cannot become outstanding
                                # again, so being outstanding now means it never completed
                                bad("b", k, "node %d forwarded payment %s on chan %s while inbound chan %s update(s) %s (<= %d) are still in progress" % (
                                    n, tag, chan, c2, sorted(i for i in s2.outstanding if i <= hh["dep"]), hh["dep"]))
            # held?
            if start_out.get((n, chan)) and not s.outstanding:
                stats["releases_after_completion"] += 1

        # (b5) funding broadcast depends on the funder's initial persist
        for (n, kind, _txid) in rec["b"]:
            if kind == "funding":
                stats["funding_dep_checked"] += 1
                for (n2, chan), s in cs.items():
                    if n2 == n and s.initial_pending:
                        bad("b", k, "node %d broadcast the funding transaction before the initial ChannelMonitor persist of chan %s completed" % (n, chan))

        # ---- events
        for (n, name, detail) in rec["e"]:
            if name == "PaymentClaimable":
                for (n2, c2), s2 in cs.items():
                    if n2 == n and detail in s2.htlc:
                        hh = s2.htlc[detail]
                        stats["fwd_dep_checked"] += 1
                        if hh["stage"] < 3:
                            bad("b", k, "node %d: PaymentClaimable %s before the inbound HTLC on chan %s was irrevocably committed" % (n, detail, c2))
                        elif not all_done_upto(s2, hh["dep"]):
                            bad("b", k, "node %d: PaymentClaimable %s while chan %s update(s) <= %d still in progress" % (n, detail, c2, hh["dep"]))
            elif name == "PaymentClaimed":
                stats["claimed_dep_checked"] += 1
                ups = pay_claim_updates.get((n, detail), [])
                if not ups:
                    bad("b", k, "node %d: PaymentClaimed %s but no PaymentPreimage update was handed to the watch for it" % (n, detail))
                for (chan, i) in ups:
                    if not all_done_upto(cs[(n, chan)], i):
                        bad("b", k, "node %d: PaymentClaimed %s while the PaymentPreimage update %d of chan %s (or an earlier one) is still in progress" % (n, detail, i, chan))
            elif name == "PaymentForwarded":
                prev = detail.split(">")[0]
                for chan in prev.split("+"):
                    if (n, chan) in cs:
                        s = cs[(n, chan)]
                        s.n_payment_forwarded += 1
                        done = [i for i in s.fwd_claim_updates if all_done_upto(s, i)]
                        if s.n_payment_forwarded > len(done):
                            bad("b", k, "node %d: PaymentForwarded for upstream chan %s while its PaymentPreimage update(s) %s are not durable yet" % (
                                n, chan, [i for i in s.fwd_claim_updates if i not in done]))
            elif name in ("PaymentSent", "PaymentFailed"):
                terminal.setdefault(detail, []).append(name)

        # ---- (c) frozen while pending: a locally initiated operation changes no commitment, reveals nothing
        if op[0] in LOCAL_OPS and rec["applied"]:
            for (n, chan), out in start_out.items():
                if not out:
                    continue
                stats["frozen_local_ops"] += 1
                for i in handed_now.get((n, chan), []):
                    kinds = cs[(n, chan)].kinds[i]
                    if any(kd not in (PREIMAGE, "ReleasePaymentComplete", "ChannelForceClosed") for kd in kinds):
                        bad("c", k, "node %d chan %s: local operation '%s' produced update %d with steps %s while update(s) %s were outstanding" % (
                            n, chan, rec["op"], i, kinds, sorted(x for x in out if x >= 0) or "initial persist"))
                    else:
                        stats["preimage_while_frozen"] += 1
                for (idx, kind, h, tag) in by_nc.get((n, chan), []):
                    if kind in CHANNEL_MSGS:
                        bad("c", k, "node %d chan %s: local operation '%s' released %s while update(s) %s were outstanding" % (
                            n, chan, rec["op"], kind, sorted(x for x in out if x >= 0) or "initial persist"))
        if any(s.outstanding or s.initial_pending for s in cs.values()):
            stats["held_steps"] += 1

        # ---- (e) the manager's and the ChainMonitor's view agree with what was reported complete
        for v in rec["v"]:
            s = st(v["n"], v["chan"])
            if rec.get("panic"):
                break
            persister_pending = set(v["pp"])
            if set(v["cm"]) != persister_pending:
                bad("e", k, "node %d chan %s: ChainMonitor pending list %s differs from the updates not yet reported complete %s" % (
                    v["n"], v["chan"], v["cm"], sorted(persister_pending)))
            if v.get("open"):
                infl = set(v["inflight"])
                out = set(s.outstanding)
                # The manager forgets in-flight updates only when MonitorEvent::Completed arrives, i.e. when NO update of
                # the channel is pending any more (completions may arrive out of order; a still-pending initial persist
                # counts: after finding F1 a channel can operate while it is in progress).
                if (out - infl) or (infl and not out and not s.initial_pending):
                    bad("e", k, "node %d chan %s: ChannelManager in-flight updates %s but updates handed and not reported complete are %s (MonitorEvent::Completed %s)" % (
                        v["n"], v["chan"], sorted(infl), sorted(out), "emitted early" if out - infl else "missing"))
                if (out or s.initial_pending) and not v["mip"]:
                    bad("c", k, "node %d chan %s: channel is not frozen (MONITOR_UPDATE_IN_PROGRESS clear) although update(s) %s are outstanding" % (
                        v["n"], v["chan"], sorted(out) or "initial persist"))
                if v["latest"] != (s.handed[-1] if s.handed else s.baseline) + len(v["blocked"]) and s.baseline is not None:
                    bad("a", k, "node %d chan %s: latest_monitor_update_id %d but last handed %s and %d blocked" % (
                        v["n"], v["chan"], v["latest"], s.handed[-1] if s.handed else s.baseline, len(v["blocked"])))

        for v in rec["v"]:
            last_view[(v["n"], v["chan"])] = v

    # ---- end of schedule: (d2) everything owed was released, exactly the protocol's messages
    aborted = end.get("aborted")
    if aborted and not any(r.get("panic") for r in steps):
        bad("harness", len(steps), "harness aborted: %s" % (end.get("setup_panic") or end.get("harness_rc")))
    if not aborted and end.get("settled"):
        last_step = steps[-1]["step"] if steps else 0
        for (n, chan), s in cs.items():
            if s.closed or chan in expected_close or any(chan in e for r in steps for e in r["errs"]):
                continue
            closed_by_peer = any(name == "ChannelClosed" and detail.startswith(chan) for r in steps for (_, name, detail) in r["e"])
            if closed_by_peer:
                continue
            if s.SH or (coop_seen and any(m[2] == "shutdown" and m[3] == chan for r in steps for m in r["m"])):
                # a channel in shutdown: still must complete its updates and release what it owes (checked below), but
                # it is allowed to disappear
                pass
            if s.outstanding or s.initial_pending:
                bad("d", last_step, "node %d chan %s: updates %s never completed although the schedule completes everything" % (n, chan, sorted(s.outstanding)))
            for lst, rel, what in ((s.K, s.cs_steps, "commitment_signed"), (s.H, s.raa_steps, "revoke_and_ack")):
                for j, i in enumerate(lst):
                    lo = s.step_of[i]
                    hi = s.step_of[lst[j + 1]] if j + 1 < len(lst) else 10 ** 9
                    if not any(lo <= x <= hi for x in rel):
                        bad("d", last_step, "node %d chan %s: the %s owed for update %d (handed at step %d) was never released" % (n, chan, what, i, lo))
                        break
        for c in end["chans"]:
            if not c["usable"] and not fc_seen and c["chan"] not in expected_close:
                bad("d", last_step, "node %d chan %s is not usable after every update completed, the funding confirmed and all messages were delivered (a held channel_ready was lost?)" % (c["n"], c["chan"]))
        for c in end["chans"]:
            if c["chan"] in expected_close or fc_seen:
                # HTLCs in flight over a force-closed channel are resolved on chain, which no schedule does
                continue
            if c["in"] or c["out"]:
                bad("d", last_step, "node %d chan %s still has %d inbound / %d outbound HTLCs pending after everything completed and was delivered" % (
                    c["n"], c["chan"], c["in"], c["out"]))
        if end.get("queued") and not fc_seen:
            bad("harness", last_step, "messages left undelivered after settle")
        for p in end["payments"]:
            t = terminal.get(p["tag"], [])
            if len(t) == 0 and not fc_seen:
                # (a channel force-closed as a consequence of finding F1 resolves its HTLCs on chain, like a scripted fc)
                bad("d", last_step, "payment %s (%d->%d) reached no terminal event after everything completed" % (p["tag"], p["from"], p["to"]),
                    key="F1-channel_ready-resent-on-reestablish-before-initial-persist" if f1_broken else None)
            if "PaymentSent" in t and p["tag"] not in claimed_ops:
                bad("health", last_step, "payment %s reported sent but never claimed" % p["tag"])
    return V, stats


def summarize_step(rec):
    return {"step": rec["step"], "op": rec["op"], "applied": rec["applied"], "w": rec["w"], "p": [x[:5] for x in rec["p"]],
            "c": rec["c"], "m": [x[:4] for x in rec["m"]], "b": rec["b"], "e": rec["e"], "errs": rec["errs"], "panic": rec.get("panic")}


def shrink(bin_path, line, tmpdir, want_judges, budget_s=60, jobs=16):
    """Delta-debugging on the op list: keeps a violation of one of `want_judges`."""
    head, ops = split_schedule(line)
    t0 = time.time()

    def fails(cand_ops_list):
        lines = [join_schedule(head, o) for o in cand_ops_list]
        trs = run_harness(bin_path, lines, tmpdir, "shrink", jobs=jobs, timeout=120)
        res = []
        for tr in trs:
            v, _ = judge_trace(tr)
            res.append(any(x["judge"] in want_judges for x in v))
        return res

    n = 2
    while len(ops) >= 2 and time.time() - t0 < budget_s:
        chunk = max(1, len(ops) // n)
        cands = []
        for i in range(0, len(ops), chunk):
            cand = ops[:i] + ops[i + chunk:]
            if cand and cand != ops:
                cands.append(cand)
        if not cands:
            break
        res = fails(cands)
        hit = [c for c, r in zip(cands, res) if r]
        if hit:
            ops = min(hit, key=len)
            n = max(n - 1, 2)
        else:
            if chunk == 1:
                break
            n = min(len(ops), n * 2)
    return join_schedule(head, ops)
