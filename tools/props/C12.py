"""C12 — Persisted objects survive serialization unchanged.

Coq: the TLV layer of the persistence macros (same code as the wire TLV layer) — stream round trip for
any schema, the length-prefixed suffix composes with what follows, unknown odd skipped / unknown
even, out-of-order, truncated rejected; every persistence macro invocation in lightning/src has
strictly ascending types (regenerated each run), hence the FRAMING of each round-trips.
Implementation judge (h_persist): real nodes driven through seeded scenarios; after every step every
ChannelMonitor, ChannelMonitorUpdate, NetworkGraph and ChannelManager is written, read back and
compared (library `==` where defined, observable channel/payment state for the manager),
update-then-roundtrip == roundtrip-then-update for monitors, and truncated/corrupted encodings are
read (outcomes reported as observations)."""
import json
import os

from vlib import core
from codec import persist_schemas as ps
from codec.schemas import Refused

BINS = ["h_persist", "h_scorer", "h_lockstep", "h_msgcut", "h_recv"]
LEVEL = "proof"
MANIFEST = {
    "category": "proof",
    "text": "Coq theorems for the persistence TLV layer (stream and length-prefixed suffix round trip for any well-formed schema, unknown odd skipped, unknown even/out-of-order/truncated rejected) instantiated on the TLV numbers/kinds of every persistence macro invocation regenerated from lightning/src each run (framing only: field value codecs are not modelled); whole-object round trips (monitors, monitor updates, network graph, channel manager) are judged on real nodes at every intermediate step of seeded scenarios.",
    "note": "Partial: object-level and behavioural equivalence (lock-step continuation of re-read ChannelManager/ChannelMonitors, ProbabilisticScorer, OutputSweeper) are validated on the implementation, not proved; write/read TLV list pairing of hand-written impls is not checked.",
    "technique": "machine-checked proof in Coq over regenerated schemas + implementation-side round-trip judge on real nodes",
}


def generate(ctx):
    text, meta = ps.generate(core.REPO)
    core.write_if_changed(os.path.join(core.COQ, "Gen", "PersistSchemas.v"), text)
    ctx.gen_meta = meta
    return meta


def run(ctx):
    ok_build, out = ctx.build_harness(BINS)
    if not ok_build:
        ctx.violation("harness does not build against the current tree", {"broken": "harness-build", "log_tail": out[-3000:]}, False)
        ctx.write_evidence(LEVEL)
        return
    ctx.trusted_base += [
        "Coq 8.16.1 kernel + vm_compute (no native_compute)",
        "tools/codec/persist_schemas.py (TLV numbers and kinds of the persistence macro invocations; pairing of hand-written write/read TLV blocks and the name normalisation of the field pins; allowlist tools/codec/persist_pins.json), regenerated every run",
        "Codec/Tlv.v transliteration of _decode_tlv_stream_range!/_encode_tlv!/read_tlv_fields!/write_tlv_fields! (validated against the real decoder under C13)",
        "harness crate /verif/harness (h_persist) and LDK functional_test_utils / test_utils",
    ]
    ctx.assumptions += ["field value codecs of persisted objects are treated as opaque byte strings in the Coq instantiation (framing only)"]
    gen_err = None
    meta = None
    try:
        meta = generate(ctx)
    except Refused as ex:
        gen_err = "persistence schema extraction refused: " + str(ex)
    except Exception as ex:
        gen_err = "persistence schema extraction failed: %r" % (ex,)
    proved = False
    pin_viol = (meta or {}).get("pin_violations") or []
    if pin_viol:
        ctx.log("field pins violated:", json.dumps(pin_viol[:5]))
    if gen_err is None:
        okm, outm = ctx.coq_make(["Codec/Tlv.vo", "Gen/PersistSchemas.vo"])
        if not okm:
            ctx.log(outm[-2000:])
        proved = ctx.prove("C12")
    else:
        ctx.log(gen_err)
        ctx.obligations.append(("persistence-schema-extraction", False, gen_err))
    # ---- implementation judge
    nscen, steps = (4, 12) if ctx.tier == "quick" else (60, 18)
    # one process per scenario: a read of CORRUPTED bytes that aborts the process (unbounded allocation) must
    # not take the valid round trips down with it; such a scenario is re-run without corrupted reads
    recs = []
    aborts = []
    srng = ctx.rng.fork("persist-scenarios")
    for i in range(nscen):
        sseed = srng.below(2 ** 62)
        rc, lines = ctx.run_bin("h_persist", "", args=["1", str(sseed), str(steps)], timeout=900)
        got = [json.loads(l[2:]) for l in lines if l.startswith("R {") and l.rstrip().endswith("}")]
        if rc != 0 and not got:
            why = [l for l in lines if "memory allocation of" in l or "panicked at" in l][:2]
            aborts.append({"scenario_arg_seed": sseed, "rc": rc, "why": why})
            rc, lines = ctx.run_bin("h_persist", "", args=["1", str(sseed), str(steps)], timeout=900, env={"H_PERSIST_NO_CORRUPT": "1"})
            got = [json.loads(l[2:]) for l in lines if l.startswith("R {") and l.rstrip().endswith("}")]
        for g in got:
            g["arg_seed"] = sseed
        recs += got
        if rc != 0 or not got:
            ctx.violation("h_persist crashed on VALID round trips (no corrupted reads involved)", {"broken": "judge:h_persist", "rc": rc, "arg_seed": sseed, "tail": [l for l in lines if "panicked" in l or "memory allocation" in l][-3:], "replay_cmd": "H_PERSIST_NO_CORRUPT=1 %s 1 %d %d" % (ctx.bin_path("h_persist"), sseed, steps)}, True)
            ctx.write_evidence(LEVEL)
            return
    ctx.coverage["observations_corrupted_read_aborts"] = aborts
    # ---- scorer + sweeper (behavioural lock-step with re-read copies) and manager/monitor lock-step
    extra_fails = []
    nsc, nops, nls = (6, 100, 40) if ctx.tier == "quick" else (60, 250, 800)
    nmc, nrecv = (2, 1) if ctx.tier == "quick" else (40, 20)
    jobs = [("h_scorer", [str(nsc), str(ctx.seed), str(nops)], ("scorer", "sweeper"), 2 * nsc),
            ("h_lockstep", [str(nls), str(ctx.seed)], ("lockstep",), nls),
            ("h_msgcut", [str(nmc), str(ctx.seed)], ("msgcut",), nmc)]
    for j in range(nrecv):
        jobs.append(("h_recv", [str(ctx.seed + 7919 * j)], ("recv",), 12))
    for binname, args, kinds, want in jobs:
        rc2, lines2 = ctx.run_bin(binname, "", args=args, timeout=1500)
        got = []
        for l in lines2:
            if l.startswith("R {") and l.rstrip().endswith("}"):
                try:
                    got.append(json.loads(l[2:]))
                except ValueError:
                    pass
        if rc2 != 0 or len(got) != want:
            ctx.violation("%s crashed or produced too few scenario results" % binname, {"broken": "judge:" + binname, "rc": rc2, "n": len(got), "want": want,
                          "tail": [l for l in lines2 if "panicked" in l or "memory allocation" in l][-3:], "replay_cmd": "%s %s" % (ctx.bin_path(binname), " ".join(args))}, True)
            ctx.write_evidence(LEVEL)
            return
        for k in kinds:
            sub = [g for g in got if g.get("kind") == k]
            agg = {}
            for g in sub:
                for kk, vv in g.items():
                    if isinstance(vv, int) and not isinstance(vv, bool) and kk not in ("scenario", "seed"):
                        agg[kk] = agg.get(kk, 0) + vv
            agg["scenarios"] = len(sub)
            prev = ctx.coverage.get("%s_totals" % k)
            if prev:
                for kk, vv in prev.items():
                    agg[kk] = agg.get(kk, 0) + vv
            if k == "msgcut":
                ck = {}
                for g in sub:
                    for kk, vv in (g.get("cut_after_kinds") or {}).items():
                        ck[kk] = ck.get(kk, 0) + vv
                ctx.coverage["msgcut_reload_points_by_last_message"] = ck
            ctx.coverage["%s_totals" % k] = agg
        if binname == "h_lockstep":
            modes = {}
            for g in got:
                d = g.get("desc", "")
                m = d.split("|")[1].split()[0] + " " + d.split("|")[1].split()[1] if "|" in d else "?"
                modes[m] = modes.get(m, 0) + 1
            ctx.coverage["lockstep_cut_situations"] = modes
        for g in got:
            if not g.get("ok"):
                g["bin"] = binname
                g["args"] = args
                extra_fails.append(g)
    fails = [r for r in recs if not r.get("ok")]
    tot = {}
    for r in recs:
        for k in ("steps", "mon", "upd", "upd_commute", "mgr", "graph", "mutated", "mutated_accepted", "corrupt_panics", "corrupt_unstable",
                  "mon_bytes_identical", "mgr_bytes_identical", "graph_bytes_identical"):
            tot[k] = tot.get(k, 0) + int(r.get(k, 0))
    ops = {}
    for r in recs:
        for o in r.get("ops", "").split(","):
            o = o.rstrip("0123456789")
            if o:
                ops[o] = ops.get(o, 0) + 1
    ctx.coverage["scenarios"] = len(recs)
    ctx.coverage["totals"] = tot
    ctx.coverage["op_histogram"] = ops
    ctx.coverage["max_monitor_len"] = max(r.get("max_mon_len", 0) for r in recs)
    ctx.coverage["max_manager_len"] = max(r.get("max_mgr_len", 0) for r in recs)
    ctx.coverage["observations_corrupted_reads"] = [n for r in recs for n in r.get("corrupt_notes", [])][:8]
    ctx.coverage["persistence_schemas"] = (meta or {}).get("n_schemas")
    ctx.coverage["persistence_tlv_entries"] = (meta or {}).get("n_entries")
    ctx.coverage["persist_versions"] = (meta or {}).get("versions")
    ctx.coverage["field_pins"] = {k: (meta or {}).get(k) for k in ("n_pins", "n_pin_name_matches", "n_pin_allowlisted")}
    sc_t, sw_t, ls_t = ctx.coverage.get("scorer_totals", {}), ctx.coverage.get("sweeper_totals", {}), ctx.coverage.get("lockstep_totals", {})
    mc_t, rv_t = ctx.coverage.get("msgcut_totals", {}), ctx.coverage.get("recv_totals", {})
    beh = sc_t.get("roundtrips", 0) + sc_t.get("shadow_checks", 0) + sw_t.get("roundtrips", 0) + sw_t.get("shadow_checks", 0) + ls_t.get("scenarios", 0) + mc_t.get("cuts", 0) + rv_t.get("scenarios", 0)
    ctx.coverage["evaluations"] = tot.get("mon", 0) + tot.get("upd", 0) + tot.get("mgr", 0) + tot.get("graph", 0) + tot.get("mutated", 0) + beh
    ctx.coverage["distinct_nontrivial"] = tot.get("mon", 0) + tot.get("upd", 0) + tot.get("mgr", 0) + tot.get("graph", 0) + sc_t.get("roundtrips", 0) + sw_t.get("roundtrips", 0) + ls_t.get("scenarios", 0) + mc_t.get("cuts", 0) + rv_t.get("scenarios", 0)
    ctx.coverage["rule"] = "one object round trip per (scenario, step, node, object) where the object is a ChannelMonitor / new ChannelMonitorUpdate / ChannelManager / NetworkGraph in the state reached at that step, plus one per scorer op / sweeper block, plus one per lock-step scenario (a whole suffix compared); shadow comparisons and corrupted reads counted separately"
    ctx.samples += [{k: r.get(k) for k in ("seed", "ops", "steps", "mon", "upd", "mgr", "ok")} for r in recs[:3]]
    broken = []
    if gen_err:
        broken.append({"obligation": "persistence schema extraction", "detail": gen_err})
    elif not proved:
        broken.append({"obligation": "Coq proof of Props/C12.v", "detail": getattr(ctx, "proof_failure", {}),
                       "field_pin_violations (TLV type: place written vs variable read into)": pin_viol[:10]})
    replay_cmd = "%s 1 <seed> %d   (with the scenario seed printed in the result line; h_persist <n> <seed> <steps>)" % (ctx.bin_path("h_persist"), steps)
    reported = False
    if extra_fails and not fails:
        groups = {}
        for f in extra_fails:
            why = (f.get("fails") or ["?"])[0]
            k = "persist:" + (f.get("key") or "%s:%s" % (f.get("kind"), why.split(":")[0][:60]))
            groups.setdefault(k, []).append(f)
        for k, fs in list(groups.items())[:6]:
            f = fs[0]
            why = (f.get("fails") or ["?"])[0]
            ctx.violation("C12 fails on the implementation (%s): %s" % (f.get("kind"), why),
                          {"broken": broken or "implementation judge", "failing_input": {"kind": f.get("kind"), "scenario": f.get("scenario"), "reload_point": f.get("reload_point"), "scenario_seed": f.get("seed"), "desc": f.get("desc"), "fails": f.get("fails")},
                           "n_failing_scenarios": len(fs), "more": [(g.get("kind"), (g.get("fails") or ["?"])[0][:300]) for g in fs[1:4]],
                           "replay_cmd": "%s %s   (scenario %s)" % (ctx.bin_path(f["bin"]), " ".join(f["args"]), f.get("scenario"))}, True, key=k)
        reported = bool(ctx.violations)
        if broken and not reported:
            ctx.violation("C12 no longer shown: " + ("schema extraction" if gen_err else "proof") + " broken",
                          {"broken": broken, "search": "only known findings reproduced; no new failing input", "replay_cmd": replay_cmd}, False)
    elif fails:
        f = fails[0]
        ctx.violation("C12 fails on the implementation: " + (f.get("fails") or ["?"])[0],
                      {"broken": broken or "implementation judge", "failing_input": {"arg_seed": f.get("arg_seed"), "steps": steps, "scenario_seed": f.get("seed"), "ops": f.get("ops"), "fails": f.get("fails")},
                       "n_failing_scenarios": len(fails), "replay_cmd": "%s 1 %s %d" % (ctx.bin_path("h_persist"), f.get("arg_seed"), steps)}, True,
                      key="persist:" + (f.get("fails") or ["?"])[0].split("]")[-1].strip()[:60])
    elif broken:
        ctx.violation("C12 no longer shown: " + ("schema extraction" if gen_err else "proof") + " broken",
                      {"broken": broken, "search": "%d scenarios x %d steps of object round trips on real nodes found no failing input" % (nscen, steps), "replay_cmd": replay_cmd}, False)
    ctx.write_evidence(LEVEL)


def replay(ctx, rep):
    ok_build, out = ctx.build_harness(BINS)
    fi = rep.get("failing_input") or {}
    if not ok_build or not fi:
        print(json.dumps(rep, indent=1)[:4000])
        return 1
    rc, lines = ctx.run_bin("h_persist", "", args=["1", str(fi.get("arg_seed", 1)), str(fi.get("steps", 12))], timeout=1500)
    for l in lines:
        if l.startswith("R {"):
            print(l[:1500])
    return 0
