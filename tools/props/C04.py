"""C04 — inbound payments are claimable only if complete and authentic; all-or-nothing.

Coq: Model/InboundSecret.v (+ InboundSecretExec.v: the instance on the Gallina HMAC-SHA256 / ChaCha20 /
SHA-256 / HKDF of coq/Crypto), Model/Inbound.v (receiver state machine), Proofs/C04*.v, Props/C04.v.
Tie A (functional, byte-exact): h_inbound secret — the public create / create_from_hash and the
`_verif_hooks` wrappers of verify / create_for_spontaneous_payment / construct_info_bytes against the
model, on boundary values and mutation streams (each of the 256 secret bits flipped, method bits,
other hash, under-payment, expiry).
Tie B (trace, real ChannelManagers): h_inbound mpp — scripted MPP parts / ticks / blocks / claim /
fail on a 4-node diamond; PaymentClaimable, PaymentClaimed and the per-part update_fulfill /
update_fail of the recipient compared with Model/Inbound.v after every command.
Judge on the implementation: C04's statement evaluated on the recipient's real events/messages."""
import hashlib
import json
import os
import re
import subprocess

from vlib import core
from rs2v import consts_lite

BINS = [b for b in ["h_inbound"] if os.path.exists(os.path.join(core.HARNESS, "src", "bin", b + ".rs"))]
LEVEL = "proof"
MANIFEST = {
    "category": "proof",
    "text": "Coq theorems: bit-packing of the payment-secret info round-trips and errs exactly out of range; verify accepts everything create/create_from_hash produce (abstract MAC/keystream with the laws as visible hypotheses, and the executable HMAC-SHA256/ChaCha20/SHA-256 instance) and accepts only MAC-authenticated, sufficiently paid, unexpired secrets; PaymentClaimable only for complete sets of checked parts; rejected parts are failed back; for every sequence of ticks, blocks below the advertised deadline and further arrivals claim_funds claims exactly the advertised parts and amount; all-or-nothing; a claim never drops parts; a set for which PaymentClaimable was emitted is never failed by the timer, whatever the previous hops skimmed; PaymentClaimed reports exactly the announced amount = the sum received on ALL announced parts, and once an announced part is gone nothing is claimed; a part that is accepted leaves a claim window (fail-back height at least two blocks ahead, the registered min_final_cltv_expiry_delta respected), is not expired by more than the one 7200 s grace period, and a keysend HTLC is only accepted if its preimage hashes to the payment hash. The deciding comparisons (underpaid, already complete, complete on arrival, complete at a tick, claim amount mismatch, expiry too soon, registered final CLTV delta, minimum amount, expired, calculate_absolute_expiry, the height passed at the call site) are regenerated from the Rust source by rs2v on every run and unfolded in the proofs. The models are tied to the code on every run: byte-exact differential execution of create/verify (incl. mutation streams) and op-by-op trace comparison of MPP accumulation / timeout / claim on real ChannelManagers, with parts whose received amount differs from the sender-intended one (skimming LSP-like forwarders, accept_underpaying_htlcs on/off), overshooting sets, per-part expiries, ticks and blocks before and after PaymentClaimable, boundary sweeps at every numeric threshold (expiry, registered final CLTV delta, minimum amount, block-time clock around expiry and expiry + grace) and keysend HTLCs with matching / foreign preimages with and without payment secret.",
    "note": "Proved on hand models; unforgeability is the HMAC assumption (visible hypothesis structure: verify_sound reduces acceptance to a MAC equality); ChannelManager wiring validated by trace correspondence, not proved. The accumulation loops around the regenerated comparisons are tied by textual source anchors only. payment_metadata, keysend without secret, phantom, BOLT12 contexts, trampoline receive, a previous hop lying about its skimmed fee not modelled.",
    "technique": "machine-checked proof in Coq (Z arithmetic for the packing, abstract-primitive section for verify, invariant over all op sequences for the claim window) + differential correspondence",
}
FEATURES = ["std", "_test_utils", "_verif_hooks"]
CONST_ITEMS = [("lightning/src/ln/msgs.rs", "MAX_VALUE_MSAT")]
MAXV = 21_000_000 * 100_000_000 * 1000


def _cleanup_eval(ctx):
    """scratch files of this process' coq_eval calls (their names carry the pid so that two
    concurrent runs of the same check do not overwrite each other's shards)"""
    d = os.path.join(ctx.tmp, "coq")
    tag = "_%d_" % os.getpid()
    try:
        for f in os.listdir(d):
            if tag in f:
                os.remove(os.path.join(d, f))
    except OSError:
        pass


# Statements of the source that the model transliterates by hand and rs2v cannot translate (loops over &mut parts):
# each regex has to match exactly once, otherwise the model is no longer known to follow the code.
SOURCE_ANCHORS = [
    ("lightning/src/ln/channelmanager.rs", r"for htlc in htlcs \{\s*total_intended_recvd_value \+= htlc\.sender_intended_value;\s*htlc\.timer_ticks \+= 1;",
     "check_mpp_timeout sums sender_intended_value of every part"),
    ("lightning/src/ln/channelmanager.rs", r"let mut total_intended_recvd_value = new_htlc\.mpp_part\(\)\.sender_intended_value;\s*for htlc in htlc_set\.iter\(\) \{\s*total_intended_recvd_value \+= htlc\.mpp_part\(\)\.sender_intended_value;",
     "check_incoming_mpp_part sums sender_intended_value of the new and the held parts"),
    ("lightning/src/ln/channelmanager.rs", r"let amount_msat = htlc_set\.iter\(\)\.map\(\|htlc\| htlc\.mpp_part\(\)\.value\)\.sum\(\);\s*htlc_set\s*\.iter_mut\(\)\s*\.for_each\(\|htlc\| htlc\.mpp_part_mut\(\)\.total_value_received = Some\(amount_msat\)\);",
     "on completion every part records the sum of the values received"),
    ("lightning/src/ln/channelmanager.rs", r"expected_amt_msat = htlc\.mpp_part\.total_value_received;\s*claimable_amt_msat \+= htlc\.mpp_part\.value;\s*\}",
     "claim_payment_internal compares the sum of the values with the recorded total"),
    ("lightning/src/ln/channelmanager.rs", r"(?s)if claimable_amt_msat != expected_amt_msat\.unwrap\(\) \{.{0,700}?valid_mpp = false;\s*\}\s*if valid_mpp \{",
     "a mismatch invalidates the claim (every remaining part is failed back)"),
    # what the call sites pass as "now" / how often the grace period enters
    ("lightning/src/ln/channelmanager.rs", r"inbound_payment::verify\(\s*payment_hash,\s*&payment_data,\s*onion_fields\.payment_metadata\.as_mut\(\),\s*self\.highest_seen_timestamp\.load\(Ordering::Acquire\) as u64,\s*&self\.inbound_payment_key,",
     "process_receive_htlcs passes highest_seen_timestamp, unmodified, as the current time of verify"),
    ("lightning/src/ln/channelmanager.rs", r"inbound_payment::create\(\s*&self\.inbound_payment_key,\s*min_value_msat,\s*invoice_expiry_delta_secs,\s*&self\.entropy_source,\s*self\.highest_seen_timestamp\.load\(Ordering::Acquire\) as u64,",
     "create_inbound_payment passes highest_seen_timestamp, unmodified, as the current time of create"),
    ("lightning/src/ln/channelmanager.rs", r"inbound_payment::create_from_hash\(\s*&self\.inbound_payment_key,\s*min_value_msat,\s*payment_hash,\s*invoice_expiry_delta_secs,\s*&self\.entropy_source,\s*self\.highest_seen_timestamp\.load\(Ordering::Acquire\) as u64,",
     "create_inbound_payment_for_hash passes highest_seen_timestamp, unmodified"),
    ("lightning/src/ln/inbound_payment.rs", r"[-+] 7200|7200 [-+]|_(?:add|sub)\(7200\)", "the 7200 s grace enters inbound_payment.rs exactly once (calculate_absolute_expiry)"),
    ("lightning/src/ln/channelmanager.rs", r"[-+] 7200|7200 [-+]|_(?:add|sub)\(7200\)", "channelmanager.rs uses the 7200 s constant exactly once (the no-std clock of remove_stale_payments)"),
    ("lightning/src/ln/inbound_payment.rs", r"calculate_absolute_expiry\(", "calculate_absolute_expiry: its definition and ONE use (twice in the text)", 2),
    # the keysend guard: the preimage check is unconditional
    ("lightning/src/ln/onion_payment.rs", r"let routing = if let Some\(payment_preimage\) = keysend_preimage \{(?:\s*//[^\n]*)*\s*let hashed_preimage = PaymentHash\(Sha256::hash\(&payment_preimage\.0\)\.to_byte_array\(\)\);\s*if hashed_preimage != payment_hash \{\s*return Err",
     "a keysend preimage is checked against the payment hash unconditionally, before anything else is done with the HTLC"),
    ("lightning/src/ln/onion_payment.rs", r"=>\s*\(payment_data, keysend_preimage, custom_tlvs, sender_intended_htlc_amt_msat,\s*cltv_expiry_height, payment_metadata, None, false, keysend_preimage\.is_none\(\), None, None\),",
     "has_recipient_created_payment_secret = keysend_preimage.is_none(): a keysend HTLC's payment secret is not verified"),
]


def generate(ctx):
    from vlib import gen
    text, meta = consts_lite.extract(core.REPO, CONST_ITEMS, FEATURES)
    core.write_if_changed(os.path.join(core.COQ, "Gen", "ConstsC04.v"), text)
    metas, errors = gen.regen(ctx, ["InboundChecks"])
    ctx.gen_meta = list(meta) + [dict(m, module=k) for k, ms in metas.items() for m in ms]
    if errors:
        raise RuntimeError("; ".join("%s: %s" % kv for kv in sorted(errors.items())))
    anchors = []
    for anc in SOURCE_ANCHORS:
        rel, rx, what = anc[0], anc[1], anc[2]
        want = anc[3] if len(anc) > 3 else 1
        src = open(os.path.join(core.REPO, rel)).read()
        n = len(re.findall(rx, src))
        anchors.append({"file": rel, "what": what, "matches": n})
        if n != want:
            raise RuntimeError("source anchor '%s' matches %d times in %s (expected exactly %d): the hand model of the receive path is no longer known to follow the code" % (what, n, rel, want))
    ctx.gen_meta += [{"name": "anchor: " + a["what"], "kind": "source-anchor", "file": a["file"]} for a in anchors]
    return ctx.gen_meta


def const_from_gen(name, default):
    try:
        src = open(os.path.join(core.COQ, "Gen", "Consts.v")).read()
        env = {}
        for m in re.finditer(r"Definition (\w+) : Z := ([^.]+)\.", src):
            env[m.group(1)] = m.group(2)

        def ev(n):
            e = env[n]
            for k in sorted(env, key=len, reverse=True):
                if re.search(r"\b%s\b" % k, e):
                    e = re.sub(r"\b%s\b" % k, "(" + str(ev(k)) + ")", e)
            return eval(e)
        return ev(name)
    except Exception:
        return default


# ===================================================================== part A: payment secrets
def hx(b):
    return b.hex()


def coq_bytes(b):
    return "[" + "; ".join(str(x) for x in b) + "]"


def oz(v):
    return "None" if v is None else "(Some %d)" % v


class SCmd:
    """one command for `h_inbound secret` and the same as a Coq [scmd]"""

    def __init__(self, kind, **kw):
        self.kind = kind
        self.__dict__.update(kw)
        self.tag = kw.get("tag", "")

    def line(self):
        o = lambda v: -1 if v is None else v
        if self.kind == "create":
            return "create %d %d %s %d %d" % (o(self.mv), self.delta, hx(self.rand), self.now, o(self.cltv))
        if self.kind == "fromhash":
            return "fromhash %d %s %d %d %d" % (o(self.mv), hx(self.hash), self.delta, self.now, o(self.cltv))
        if self.kind == "spont":
            return "spont %d %d %d %d" % (o(self.mv), self.delta, self.now, o(self.cltv))
        if self.kind == "info":
            return "info %d %d %d %d %d" % (o(self.mv), self.method, self.delta, self.now, o(self.cltv))
        return "verify %s %s %d %d" % (hx(self.hash), hx(self.secret), self.total, self.now)

    def coq(self):
        if self.kind == "create":
            return "CCreate %s %d %s %d %s" % (oz(self.mv), self.delta, coq_bytes(self.rand), self.now, oz(self.cltv))
        if self.kind == "fromhash":
            return "CFromHash %s %s %d %d %s" % (oz(self.mv), coq_bytes(self.hash), self.delta, self.now, oz(self.cltv))
        if self.kind == "spont":
            return "CSpont %s %d %d %s" % (oz(self.mv), self.delta, self.now, oz(self.cltv))
        if self.kind == "info":
            return "CInfo %s %d %d %d %s" % (oz(self.mv), self.method, self.delta, self.now, oz(self.cltv))
        return "CVerify %s %s %d %d" % (coq_bytes(self.hash), coq_bytes(self.secret), self.total, self.now)


def run_secret(ctx, cmds, key):
    inp = "key %s\n" % hx(key) + "\n".join(c.line() for c in cmds) + "\n"
    rc, lines = ctx.run_bin("h_inbound", inp, args=["secret"])
    lines = [l for l in lines if l != ""]
    if rc != 0 or len(lines) != len(cmds) + 1:
        raise RuntimeError("h_inbound secret: rc=%d, %d lines for %d commands" % (rc, len(lines), len(cmds) + 1))
    return lines[1:]


def norm_model_line(s):
    """model renders the cltv as 8-byte hex (no decimal printer in Gallina): -> decimal like the harness"""
    t = s.split()
    if len(t) == 3 and t[0] == "OK" and (len(t[1]) == 64 or t[1] == "-") and (len(t[2]) == 16 or t[2] == "-"):
        return "OK %s %d" % (t[1], -1 if t[2] == "-" else int(t[2], 16))
    return s


def secret_tier(ctx, model_ok):
    """Returns (disagreements, judge_failures)."""
    rng = ctx.rng.fork("secret")
    thorough = ctx.tier != "quick"
    dis, fails = [], []
    n_eval = 0
    kinds = {}
    keys = [bytes([0x42] * 32)] + [bytes(rng.below(256) for _ in range(32)) for _ in range(2 if thorough else 1)]
    model_jobs = []
    for ki, key in enumerate(keys):
        # ---- round 1: info packing at the boundaries, and the base secrets
        cmds = []
        NOW = [0, 1_700_000_000, 2 ** 32 - 1, 2 ** 48 - 7201, 2 ** 48 - 7200, 2 ** 48 - 7199, 2 ** 63]
        AMTS = [None, 0, 1, 3000, MAXV, MAXV + 1, 2 ** 61 - 1, 2 ** 61, 2 ** 64 - 1]
        for method in range(5):
            for mv in AMTS:
                for cl in (None, 0, 144, 65535):
                    now = rng.choice(NOW)
                    delta = rng.choice([0, 3600, 2 ** 32 - 1])
                    if now + delta + 7200 >= 2 ** 64:
                        continue
                    cmds.append(SCmd("info", mv=mv, method=method, delta=delta, now=now, cltv=cl))
        for now in NOW[:6]:
            for cl in (None, 18):
                cmds.append(SCmd("info", mv=5, method=2 if cl else 0, delta=0, now=now, cltv=cl))
        bases = []
        for (mv, cl, delta, now) in [(None, None, 3600, 1_700_000_000), (3000, None, 7200, 1_700_000_000), (10 ** 9, 144, 60, 1_600_000_000),
                                     (1, 65535, 2 ** 32 - 1, 2 ** 40), (MAXV, None, 0, 0)]:
            rand = bytes(rng.below(256) for _ in range(32))
            cmds.append(SCmd("create", mv=mv, delta=delta, rand=rand, now=now, cltv=cl, tag="base"))
            uh = hashlib.sha256(b"user-hash-%d-%d" % (ki, len(bases))).digest()
            cmds.append(SCmd("fromhash", mv=mv, hash=uh, delta=delta, now=now, cltv=cl, tag="base"))
            # production only creates spontaneous-payment secrets without a custom CLTV delta
            # (offers/flow.rs); with one, verify neither returns nor strips it (see design/C04.md)
            cmds.append(SCmd("spont", mv=mv, delta=delta, now=now, cltv=None, tag="base"))
            bases.append((mv, cl, delta, now, uh))
        res1 = run_secret(ctx, cmds, key)
        model_jobs.append((key, cmds, res1))
        # judge round 1: packing
        for c, r in zip(cmds, res1):
            kinds[c.kind] = kinds.get(c.kind, 0) + 1
            if c.kind == "info":
                amt = c.mv or 0
                expiry = c.now + c.delta + 7200
                must_err = (c.mv is not None and (c.mv > MAXV or c.mv > 2 ** 61 - 1)) or (c.cltv is not None and expiry > 2 ** 48 - 1)
                if must_err != (r == "ERR"):
                    fails.append({"cmd": c.line(), "impl": r, "why": "construct_info_bytes errs exactly outside the ranges"})
                elif r != "ERR":
                    b = bytes.fromhex(r.split()[1])
                    w0, w1 = int.from_bytes(b[:8], "big"), int.from_bytes(b[8:], "big")
                    ok = (w0 >> 61) == c.method and (w0 & (2 ** 61 - 1)) == amt
                    ok = ok and ((w1 >> 48, w1 & (2 ** 48 - 1)) == (c.cltv, expiry) if c.cltv is not None else w1 == expiry)
                    if not ok:
                        fails.append({"cmd": c.line(), "impl": r, "why": "info bytes do not unpack to what was packed"})
        # ---- round 2: verify the base secrets, tampered and untampered
        created = []
        bi = 0
        for c, r in zip(cmds, res1):
            if c.tag == "base":
                if r == "ERR":
                    fails.append({"cmd": c.line(), "impl": r, "why": "creating a payment with in-range parameters failed"})
                    continue
                t = r.split()
                if c.kind == "create":
                    created.append(("ldk", c, bytes.fromhex(t[1]), bytes.fromhex(t[2])))
                elif c.kind == "fromhash":
                    created.append(("user", c, c.hash, bytes.fromhex(t[1])))
                else:
                    created.append(("spont", c, hashlib.sha256(b"any").digest(), bytes.fromhex(t[1])))
        vcmds = []
        for bi, (meth, c, h, s) in enumerate(created):
            mn = c.mv or 0
            expiry = c.now + c.delta + 7200
            for (total, now, exp) in [(mn, expiry, True), (mn + 1, c.now, True), (2 ** 64 - 1, 0, True),
                                      (mn - 1, expiry, False), (mn, expiry + 1, False), (mn, 2 ** 64 - 1, False)]:
                if total < 0:
                    continue
                vcmds.append((SCmd("verify", hash=h, secret=s, total=total, now=now), exp, bi, "boundary"))
            if meth != "spont":
                other = hashlib.sha256(h).digest()
                vcmds.append((SCmd("verify", hash=other, secret=s, total=2 ** 63, now=c.now), False, bi, "other hash"))
            full = thorough or bi in (0, 1, 2, 5)
            bits = range(256) if full else [rng.below(256) for _ in range(24)]
            for bit in bits:
                s2 = bytearray(s)
                s2[bit // 8] ^= 1 << (bit % 8)
                vcmds.append((SCmd("verify", hash=h, secret=bytes(s2), total=2 ** 63, now=c.now), False, bi, "bit %d flipped" % bit))
            for pat in range(1, 8):
                s2 = bytearray(s)
                s2[16] ^= pat << 5
                vcmds.append((SCmd("verify", hash=h, secret=bytes(s2), total=2 ** 63, now=c.now), False, bi, "method bits ^%d" % pat))
            # the secret of another payment with this hash
            o = created[(bi + 3) % len(created)]
            if o[3] != s and meth != "spont":
                vcmds.append((SCmd("verify", hash=h, secret=o[3], total=2 ** 63, now=c.now), False, bi, "secret of another payment"))
        res2 = run_secret(ctx, [v[0] for v in vcmds], key)
        model_jobs.append((key, [v[0] for v in vcmds], res2))
        for (c, exp, bi, what), r in zip(vcmds, res2):
            kinds["verify:" + what.split()[0]] = kinds.get("verify:" + what.split()[0], 0) + 1
            meth, bc, h, s = created[bi]
            if exp and not r.startswith("OK"):
                fails.append({"cmd": c.line(), "impl": r, "why": "verify rejects an authentic, sufficiently paid, unexpired payment (%s)" % what})
            if not exp and r != "ERR":
                fails.append({"cmd": c.line(), "impl": r, "why": "verify accepts a payment it must reject: " + what, "created_by": bc.line()})
            if exp and r.startswith("OK"):
                t = r.split()
                if meth == "ldk":
                    if t[1] == "-" or hashlib.sha256(bytes.fromhex(t[1])).digest() != h:
                        fails.append({"cmd": c.line(), "impl": r, "why": "returned preimage does not hash to the payment hash"})
                elif t[1] != "-":
                    fails.append({"cmd": c.line(), "impl": r, "why": "preimage returned for a user-provided hash"})
                if int(t[2]) != (-1 if bc.cltv is None else bc.cltv):
                    fails.append({"cmd": c.line(), "impl": r, "why": "min_final_cltv_expiry_delta returned differs from the one committed"})
        n_eval += len(cmds) + len(vcmds)
    ctx.coverage["secret_cases"] = n_eval
    ctx.coverage["secret_kind_histogram"] = kinds
    if model_ok:
        exprs, owners = [], []
        for (key, cmds, res) in model_jobs:
            for i in range(0, len(cmds), 25):
                ch = cmds[i:i + 25]
                exprs.append("run_scmds %s [%s]" % (coq_bytes(key), "; ".join(c.coq() for c in ch)))
                owners.append((ch, res[i:i + 25]))
        vals = ctx.coq_eval("corr_secret_%d" % os.getpid(), ["LdkV.Prim.U64", "LdkV.Crypto.Bytes", "LdkV.Model.InboundSecret", "LdkV.Model.InboundSecretExec"],
                            exprs, shards=min(16, len(exprs)), timeout=1500)
        for (ch, res), v in zip(owners, vals):
            ms = [s.replace('""', '"') for s in re.findall(r'"((?:[^"]|"")*)"', v)]
            if len(ms) != len(ch):
                dis.append({"why": "model printed %d results for %d commands" % (len(ms), len(ch))})
                continue
            for c, r, m in zip(ch, res, ms):
                if norm_model_line(m) != r:
                    dis.append({"cmd": c.line(), "impl": r, "model": norm_model_line(m)})
    if n_eval:
        ctx.samples.append({"secret_sample": model_jobs[0][1][-1].line(), "impl": model_jobs[0][2][-1]})
    return dis, fails


# ===================================================================== part B: MPP accumulation / claim on real nodes
MODES = ["claim", "short", "over", "timeout", "failback", "blocks", "badsecret", "undertotal", "late",
         "skim", "skim_ticks", "skim_refused", "overshoot_lose_keep", "overshoot_lose_drop", "overshoot_ticks", "extra_part", "reannounce", "free"]
MPP_TICKS = 3
EDGE_MODES = ["cltv_edge", "mincltv_edge", "amount_edge", "expiry_edge", "keysend", "keysend_mpp", "keysend_vs_invoice"]
MODES = MODES + EDGE_MODES
TAIL = ["tick", "block 12", "tick", "block 6", "block 160", "tick"]


def gen_edge(rng, mode):
    """Boundary sweeps at every numeric acceptance threshold of the final-hop path and the keysend combinations.
    Every probe is a payment of its own part (total = amount): accepted means PaymentClaimable at once; it is
    failed back (fail_htlc_backwards) before the next probe."""
    hfb = const_from_gen("HTLC_FAIL_BACK_BUFFER", 39)
    amt = rng.choice([1_000_000, 3_000_000])
    info = {"total": amt, "min": None, "cltvdelta": None, "mode": mode, "underpay": 0, "target": amt}
    lines = []
    via = lambda: rng.choice([1, 2])

    def shuffled(l):
        l = list(l)
        for i in range(len(l) - 1, 0, -1):
            j = rng.below(i + 1)
            l[i], l[j] = l[j], l[i]
        return l
    if mode == "cltv_edge":
        # expiry around height + HTLC_FAIL_BACK_BUFFER + 1 (an HTLC with final delta d expires at height + 1 + d)
        lines.append("invoice -1 -1 7200")
        for d in shuffled(range(hfb - 2, hfb + 4)):
            if rng.chance(1, 3):
                lines.append("block %d" % rng.choice([1, 2, 7]))
            lines += ["part %d %d %d 0 0 d=%d" % (via(), amt, amt, d), "failback"]
    elif mode == "mincltv_edge":
        # ... and around height + the min_final_cltv_expiry_delta the payment was registered with
        dd = rng.choice([hfb + 3, hfb + 3, 60, 144, 400, 900, hfb - 5])
        info["cltvdelta"] = dd
        lines.append("invoice -1 %d 7200" % dd)
        for d in shuffled(range(dd - 4, dd + 2)):
            if rng.chance(1, 3):
                lines.append("block %d" % rng.choice([1, 3]))
            lines += ["part %d %d %d 0 0 d=%d" % (via(), amt, amt, max(1, d)), "failback"]
    elif mode == "amount_edge":
        mn = rng.choice([1000, 1_000_000, 2_999_999])
        info["min"] = mn
        lines.append("invoice %d -1 7200" % mn)
        for tot in shuffled([mn - 1, mn, mn + 1]):
            lines += ["part %d %d %d %d 0" % (via(), tot, tot, rng.choice([0, 5])), "failback"]
    elif mode == "expiry_edge":
        # the node's clock is the highest block time it has seen; the payment is registered at t0 with
        # invoice_expiry_delta_secs = delta and stays payable until t0 + delta + 7200 (one grace period)
        t0 = rng.choice([0, 10, 5000])
        delta = rng.choice([1, 100, 3600, 86400])
        if t0:
            lines.append("time %d" % t0)
        lines.append("invoice -1 -1 %d" % delta)
        steps = [t0 + delta - 1, t0 + delta, t0 + delta + 1, t0 + delta + 7199, t0 + delta + 7200, t0 + delta + 7201, t0 + delta + 14400, t0 + delta + 14401]
        steps = [x for x in steps if x > t0] if rng.chance(1, 2) else steps[3:]
        for tm in steps:        # (time only moves forward)
            lines += ["time %d" % tm, "part %d %d %d %d 0" % (via(), amt, amt, rng.choice([0, 5])), "failback"]
    elif mode in ("keysend", "keysend_vs_invoice"):
        lines.append("invoice %d -1 7200" % amt)
        kinds = [0, 1, 2] if mode == "keysend_vs_invoice" else [0, 1, 0, 1]
        for kind in shuffled(kinds):
            sflag = rng.choice([0, 1, 2]) if kind != 2 else rng.choice([2, 2, 1, 0])
            tot = amt
            lines.append("keysend %d %d %d %d %d" % (via(), amt, kind, sflag, tot))
            lines.append(rng.choice(["claimks", "claimks", "tick"]))
        if mode == "keysend_vs_invoice":
            # the registered payment itself still works afterwards
            lines += ["part %d %d %d 0 0" % (via(), amt, amt), "claim"]
    elif mode == "keysend_mpp":
        lines.append("invoice %d -1 7200" % amt)
        for _ in range(rng.choice([1, 2])):
            kind = rng.choice([0, 0, 1])
            sflag = rng.choice([1, 1, 2])
            half = amt // 2
            lines.append("keysend 1 %d %d %d %d" % (half, kind, sflag, amt))
            if rng.chance(1, 3):
                lines.append("tick")
            lines.append("keysend 2 %d 3 %d %d" % (amt - half, sflag, amt))
            lines.append(rng.choice(["claimks", "claimks", "tick"]))
    return lines + TAIL, info


def split_parts(rng, total, target, nparts, subset_reaches):
    """sender-intended amounts: every proper prefix stays below `total` (a part arriving at a complete set is
    refused), all of them sum to `target` >= total. subset_reaches: True / False / None - whether the set without
    its FIRST part still reaches `total` (if the numbers allow it)."""
    if nparts == 1:
        return [target]
    if subset_reaches is True and target - total >= 1000:
        first = min(target - total, total // 4) // 1000 * 1000 or 1000
    elif subset_reaches is False:
        first = max(target - total + 1000, total // 3) // 1000 * 1000
    else:
        first = (total // (nparts + 1)) // 1000 * 1000 + rng.choice([0, 1000])
    first = max(1000, min(first, total - 1000))
    amts = [first]
    left_before_last = total - 1000 - first          # what the middle parts may add at most
    for i in range(nparts - 2):
        a = max(1000, min(left_before_last, (total // (nparts + 1)) // 1000 * 1000 + rng.choice([0, 1000, 2000])))
        if left_before_last < 1000:
            break
        amts.append(a)
        left_before_last -= a
    amts.append(target - sum(amts))
    return amts


def gen_script(rng, kind):
    """-> (script lines, info). One payment, hash interned as 1 in the model. Parts differ in the amount the
    sender intended (onion) and the amount received (skimmed / overpaid by the LSP-like forwarder), in their
    expiries, and the sets overshoot the committed total; ticks and blocks before and after PaymentClaimable."""
    if kind in EDGE_MODES or (kind == "random" and rng.chance(1, 4)):
        return gen_edge(rng, kind if kind in EDGE_MODES else rng.choice(EDGE_MODES))
    hfb = const_from_gen("HTLC_FAIL_BACK_BUFFER", 39)
    total = rng.choice([3_000_000, 1_000_000, 5_000_000])
    mn = rng.choice([None, total, total, total // 2])
    cd = rng.choice([None, None, None, 60])
    mode = kind if kind != "random" else rng.choice(MODES + ["free"] * 4)
    underpay = 1 if mode in ("skim", "skim_ticks") else (0 if mode == "skim_refused" else (1 if rng.chance(1, 2) else 0))
    lines = ["invoice %d %d" % (-1 if mn is None else mn, -1 if cd is None else cd)]
    target = total
    if mode in ("overshoot_lose_keep", "overshoot_lose_drop", "overshoot_ticks", "free", "skim", "skim_ticks"):
        target = rng.choice([total, total + 1, total * 3 // 2, 2 * total - 1])
    if mode == "reannounce":
        target = rng.choice([total, total + 1])
    if mode == "overshoot_lose_keep":
        target = rng.choice([total * 3 // 2, 2 * total - 1])
    nparts = 2 if mode == "late" else rng.choice([1, 2, 2, 3, 3, 4])
    if mode in ("overshoot_lose_keep", "overshoot_lose_drop", "reannounce"):
        nparts = rng.choice([2, 3, 3, 4])
    subset = True if mode == "overshoot_lose_keep" else (False if mode in ("overshoot_lose_drop", "late", "reannounce") else rng.choice([True, False, None]))
    amts = split_parts(rng, total, target, nparts, subset)
    if mode == "short":
        amts[-1] = max(1000, amts[-1] - 2000 - (target - total))
    if mode == "over":
        amts[-1] += 5000
    extras = [rng.choice([0, 0, 5, 20, 40]) for _ in amts]
    if mode in ("late", "overshoot_lose_keep", "overshoot_lose_drop", "reannounce"):
        extras = [0] + [rng.choice([20, 30, 40]) for _ in amts[1:]]
    skims = []
    for i, a in enumerate(amts):
        if mode in ("skim", "skim_ticks", "skim_refused"):
            sk = rng.choice([1, 1000, 20000, min(a - 1, 400000)]) if (i == 0 or rng.chance(2, 3)) else rng.choice([None, 0])
        elif mode in ("free", "overshoot_ticks", "overshoot_lose_keep", "overshoot_lose_drop", "reannounce"):
            sk = rng.choice([None, None, 0, -500, 1000, 30000]) if underpay else rng.choice([None, None, 0, -500, None, 1000])
        else:
            sk = None
        skims.append(sk)
    before = lambda: (["tick"] * rng.choice([0, 0, 1, 2]) if mode in ("free", "timeout", "skim_ticks", "overshoot_ticks") else [])
    for i, a in enumerate(amts):
        flipped = 1 if (mode == "badsecret" and i == len(amts) - 1) else 0
        tot = total if not (mode == "undertotal") else (mn or total) - 1000
        lines.append("part %d %d %d %d %d%s" % (rng.choice([1, 2]), a, tot, extras[i], flipped, "" if skims[i] is None else " %d" % skims[i]))
        if i < len(amts) - 1:
            if mode == "timeout" and i == 0:
                lines.append("tick")
            lines += before()
            if rng.chance(1, 6):
                lines.append("block %d" % rng.choice([1, 2, 3]))
    # after the (possible) PaymentClaimable: 0 .. MPP_TIMEOUT_TICKS + 2 ticks, blocks up to a part's own deadline
    nticks = rng.below(MPP_TICKS + 3) if mode not in ("claim", "late", "reannounce") else 0
    if mode in ("skim_ticks", "overshoot_ticks"):
        nticks = MPP_TICKS + rng.below(3)
    lines += ["tick"] * nticks
    if mode == "extra_part":
        lines.append("part %d %d %d %d 0" % (rng.choice([1, 2]), 2000, total, 10))
    if mode == "blocks":
        lines.append("block %d" % rng.choice([10, 25, 29, 30, 31, 32]))
        lines.append("tick")
    if mode in ("late", "overshoot_lose_keep", "overshoot_lose_drop", "reannounce"):
        lines.append("deadline 0 %d %d" % (rng.choice([0, 0, 1]), hfb))        # the first part reaches its own deadline
        lines += ["tick"] * (rng.below(MPP_TICKS + 2) if mode != "reannounce" else rng.below(2))
    elif mode in ("free", "skim", "overshoot_ticks") and rng.chance(1, 2):
        k = rng.below(len(amts))
        lines.append("deadline %d %d %d" % (k, rng.choice([-2, -1, -1, 0, 1]), hfb))
        lines += ["tick"] * rng.below(MPP_TICKS + 2)
    if mode == "reannounce":
        # a further part makes the shrunk set complete again: a second PaymentClaimable, a new amount
        lines.append("part %d %d %d %d 0" % (rng.choice([1, 2]), amts[0] + rng.choice([0, 1000, total]), total, 45))
        lines += ["tick"] * rng.below(2)
    if mode == "failback" or (mode == "free" and rng.chance(1, 8)):
        lines.append("failback")
    elif mode not in ("short", "timeout", "badsecret", "undertotal", "skim_refused") or False:
        # claim_funds is only meaningful after PaymentClaimable; calling it on a set that was never announced is
        # API misuse (see design/C04.md), so the scripts only claim where a PaymentClaimable is expected
        lines.append("claim")
    # ... and run past every claim deadline: by then each part must have been claimed or failed back
    lines += ["tick", "block 12", "tick", "block 6", "block 160", "tick"]
    return lines, {"total": total, "min": mn, "cltvdelta": cd, "mode": mode, "underpay": underpay, "target": target}


def run_mpp(ctx, lines, style, underpay=0):
    p = subprocess.run([ctx.bin_path("h_inbound"), "mpp", str(style), str(underpay)], input="\n".join(lines) + "\n", stdout=subprocess.PIPE,
                       stderr=subprocess.DEVNULL, universal_newlines=True, timeout=600, cwd=ctx.tmp)
    recs = []
    for l in p.stdout.split("\n"):
        if l.startswith('{"c04"'):
            try:
                recs.append(json.loads(l))
            except ValueError:
                pass
    return recs


def pid_of(ch, hid):
    return ch * 1000 + hid


def mpp_model_ops(lines, recs, hfb, underpay=0):
    """Builds the Coq op list from the script and what the harness observed (HTLC ids, amounts received,
    skimmed fees, expiries, heights, payment-hash indices, block times). What `verify` says about a part is NOT
    decided here: the op carries the Coq expression `recv_auth ...` over the regenerated predicates.
    Returns (ops as list of lists per command, start height)."""
    ops = []
    mn, cd = None, None
    t0, delta = 0, 7200
    h = None
    prev_h = recs[0]["height"] if recs else 0
    ks_matches, ks_last = {}, None      # payment-hash index -> does the keysend preimage hash to it
    last_ks_claimable = None
    for line, r in zip(lines, recs):
        t = line.split()
        cur = []
        for c in r["claimable"]:
            if c[4] == 1:
                last_ks_claimable = c[3]
        if t[0] == "invoice":
            mn = None if int(t[1]) < 0 else int(t[1])
            cd = None if int(t[2]) < 0 else int(t[2])
            delta = int(t[3]) if len(t) > 3 else 7200
            t0 = r.get("now", 0)
            h = r["height"]
        elif t[0] == "part":
            amt, tot, flipped = int(t[2]), int(t[3]), t[5] != "0"
            for (ch, hid, a, cltv, sk, hx) in r["adds"]:
                auth = "(recv_auth None (%s && verify_numeric_ok %d %d %d %d %d))" % ("false" if flipped else "true", tot, mn or 0, t0, delta, r.get("now", 0))
                cur.append("Recv %d %d %d %d %d %d {| f_secret := %d; f_total := %d; f_meta := -1; f_even := [] |} 9 %s %s %s %s"
                           % (hx, pid_of(ch, hid), cltv, cltv, a, amt, 8 if flipped else 7, tot, auth,
                              "None" if cd is None else "(Some %d)" % cd, "None" if sk == 0 else "(Some %d)" % sk,
                              "true" if underpay else "false"))
        elif t[0] == "keysend":
            amt, kind, sflag = int(t[2]), int(t[3]), int(t[4])
            tot = int(t[5]) if len(t) > 5 and not t[5].startswith("d=") else amt
            for (ch, hid, a, cltv, sk, hx) in r["adds"]:
                if kind == 3 and ks_last is not None:
                    matches, tag = ks_last
                else:
                    matches, tag = (kind == 0), pid_of(ch, hid)
                ks_last = (matches, tag)
                cur.append("Recv %d %d %d %d %d %d {| f_secret := %d; f_total := %d; f_meta := -1; f_even := [] |} %d (recv_auth (Some %s) false) None %s %s"
                           % (hx, pid_of(ch, hid), cltv, cltv, a, amt, {0: -1, 1: 55, 2: 7}[sflag], tot, 100000 + tag,
                              "true" if matches else "false", "None" if sk == 0 else "(Some %d)" % sk, "true" if underpay else "false"))
        elif t[0] == "tick":
            cur.append("Tick")
        elif t[0] in ("block", "deadline", "time"):
            for hh in range(prev_h + 1, r["height"] + 1):
                cur.append("Block %d" % hh)
        elif t[0] in ("claim", "claimknown", "claimks") and r.get("skipped"):
            pass        # the harness did not call claim_funds: no PaymentClaimable covers the held parts (API misuse)
        elif t[0] == "claim":
            cur.append("Claim 1 false")
        elif t[0] == "claimknown":
            cur.append("Claim 1 true")
        elif t[0] == "claimks":
            if last_ks_claimable is not None:
                cur.append("Claim %d false" % last_ks_claimable)
        elif t[0] == "failback":
            cur.append("FailBack 1")
        ops.append(cur)
        prev_h = r["height"]
    return ops, h


def mpp_judge(lines, recs, info, hfb):
    """C04's statement on the recipient's real events and messages. A part has the amount the sender intended
    (script) and the amount received (update_add_htlc); completeness is a matter of the former, what is announced
    and claimed a matter of the latter."""
    fails = []
    parts = {}        # pid -> dict(amt = received, intended, cltv, good, state)
    ann = None        # the last PaymentClaimable: amount, deadline, parts, intact (no announced part lost since), live
    mn = info["min"]
    underpay = info.get("underpay", 0)
    t0, delta = 0, 7200
    for idx, (line, r) in enumerate(zip(lines, recs)):
        t = line.split()
        if r.get("skipped"):
            t = ["skipped-claim"]
        if t[0] == "invoice":
            t0, delta = r.get("now", 0), (int(t[3]) if len(t) > 3 else 7200)
        # only what concerns the registered payment (hash index 1); keysend payments: edge_judge
        r = dict(r, claimable=[c for c in r["claimable"] if c[3] == 1], claimed=[c for c in r["claimed"] if c[2] == 1])

        def bad(why):
            fails.append({"cmd_index": idx, "cmd": line, "why": why, "observed": r})
        if r.get("panic"):
            bad("a library assertion fired: " + r["panic"][:200])
        if t[0] == "part":
            flipped = t[5] != "0"
            tot = int(t[3])
            intended = int(t[2])
            for (ch, hid, a, cltv, sk, hx) in r["adds"]:
                paid_enough = a >= intended if not underpay else a + sk >= intended
                # the per-part checks as the property states them: authentic, total >= registered minimum, not
                # expired by more than the one grace period, a claim window of >= 2 blocks, the registered final CLTV delta
                in_time = r.get("now", 0) <= t0 + delta + 7200
                window = cltv - hfb >= r["height"] + 2 and (info.get("cltvdelta") is None or cltv >= r["height"] + info["cltvdelta"])
                good = (not flipped) and tot >= (mn or 0) and paid_enough and in_time and window
                parts[pid_of(ch, hid)] = {"amt": a, "intended": intended, "skim": sk, "cltv": cltv, "good": good, "state": "held", "total": tot, "ch": ch}
                if not good and [ch, hid] not in r["fails"]:
                    why = ("its payment secret does not verify" if flipped else
                           "its total %d is below the registered minimum %d" % (tot, mn or 0) if tot < (mn or 0) else
                           "it carries less than the sender intended" if not paid_enough else
                           "the payment expired %d s ago (registered expiry + the 7200 s grace = %d, now %d)" % (r.get("now", 0) - (t0 + delta + 7200), t0 + delta + 7200, r.get("now", 0)) if not in_time else
                           "its expiry %d leaves no claim window at height %d (fail-back height %d; registered final CLTV delta %s)" % (cltv, r["height"], cltv - hfb, info.get("cltvdelta")))
                    bad("a part that must be refused (%s) was not failed back at once" % why)
                if good and [ch, hid] in r["fails"] and info.get("mode", "").endswith("_edge"):
                    bad("a part that passes every per-part check (authentic, total >= minimum, in time, claim window) was failed back")
        failed_now = []
        for (ch, hid) in r["fails"]:
            p = parts.get(pid_of(ch, hid))
            if p:
                if p["state"] == "fulfilled":
                    bad("a part was failed back after the preimage was released on it")
                p["state"] = "failed"
                failed_now.append(pid_of(ch, hid))
        ful = set()
        for (ch, hid) in r["fulfills"]:
            p = parts.get(pid_of(ch, hid))
            if p:
                if p["state"] == "failed":
                    bad("the preimage was released on a part that had been failed back")
                p["state"] = "fulfilled"
                ful.add(pid_of(ch, hid))
        # ---- an announced set that is still whole: only its parts' own deadlines may take parts away
        if ann and ann["intact"] and ann["live"] and t[0] not in ("claim", "claimknown", "failback"):
            lost = [k for k in ann["parts"] if k in failed_now]
            if lost:
                if t[0] == "tick":
                    bad("a timer tick failed back part(s) %s of a payment for which PaymentClaimable had been generated (%d tick(s) after it)"
                        % (lost, sum(1 for l in lines[ann["idx"] + 1:idx + 1] if l == "tick")))
                elif t[0] in ("block", "deadline"):
                    for k in lost:
                        if r["height"] < parts[k]["cltv"] - hfb:
                            bad("part %d of a claimable payment was failed back at height %d, below its own deadline %d" % (k, r["height"], parts[k]["cltv"] - hfb))
                    if r["height"] < ann["deadline"]:
                        bad("a part of a claimable payment was failed back by a block below the advertised deadline")
                else:
                    bad("part(s) %s of a claimable payment were failed back by '%s'" % (lost, t[0]))
                ann["intact"] = False
        held = {k: p for k, p in parts.items() if p["state"] == "held"}
        for (amount, deadline, skimmed, _hx, _kind, pre_ok) in r["claimable"]:
            if pre_ok == 0:
                bad("PaymentClaimable names a preimage that does not hash to the payment hash")
            if any(not p["good"] for p in held.values()):
                bad("PaymentClaimable for a set containing a part that fails the per-part checks")
            if not held:
                bad("PaymentClaimable without any held part")
                continue
            if sum(p["amt"] for p in held.values()) != amount:
                bad("PaymentClaimable amount is not the sum of the amounts received on the held parts")
            if sum(p["skim"] for p in held.values()) != skimmed:
                bad("PaymentClaimable counterparty_skimmed_fee_msat is not the sum of the parts' skimmed fees")
            tot = max(p["total"] for p in held.values())
            if sum(p["intended"] for p in held.values()) < tot:
                bad("PaymentClaimable although the sender-intended amounts of the parts do not reach the committed total")
            if sum(p["amt"] + p["skim"] for p in held.values()) < tot and underpay:
                bad("PaymentClaimable although received + declared skimmed fees stay below the committed total")
            if mn is not None and tot < mn:
                bad("PaymentClaimable for a total below the amount the payment was registered with")
            if deadline != min(p["cltv"] for p in held.values()) - hfb:
                bad("advertised claim_deadline is not (least expiry - HTLC_FAIL_BACK_BUFFER)")
            if deadline <= r["height"] + 1:
                bad("PaymentClaimable without a claim window")
            ann = {"amount": amount, "deadline": deadline, "parts": sorted(held), "idx": idx, "intact": True, "live": True}
        if t[0] == "part" and held and not r["claimable"] and not (ann and ann["live"] and ann["intact"]):
            tot = max(p["total"] for p in held.values())
            if all(p["good"] for p in held.values()) and sum(p["intended"] for p in held.values()) >= tot and len({p["total"] for p in held.values()}) == 1 \
                    and any(k not in (ann["parts"] if ann else []) for k in held):
                bad("the held parts reach the committed total but no PaymentClaimable was generated")
        if t[0] in ("claim", "claimknown"):
            before = {k for k, p in parts.items() if p["state"] == "held"} | ful
            # claim_funds on a set for which no PaymentClaimable was generated is API misuse (design/C04.md): the
            # held parts are forgotten by the library; the scripts avoid it, where it happens anyway (a set that
            # timed out and was started again) only the unconditional rules are applied
            misuse = not (ann and ann["live"] and before <= set(ann["parts"]))
            if misuse:
                for k in before:
                    if parts[k]["state"] == "held":
                        parts[k]["state"] = "forgotten (claim_funds without PaymentClaimable)"
            if ful and r["claimed"] and ful != set(before):
                bad("claim_funds released the preimage on some but not all parts")
            if ful and not r["claimed"]:
                bad("preimage released without PaymentClaimed")
            if r["claimed"] and not ful:
                bad("PaymentClaimed without any preimage released")
            for (camt, chtlcs, _chx) in r["claimed"]:
                if camt != sum(parts[k]["amt"] for k in ful):
                    bad("PaymentClaimed amount %d is not the sum of the amounts of the fulfilled parts (%d)" % (camt, sum(parts[k]["amt"] for k in ful)))
                if ann is None:
                    bad("PaymentClaimed without a preceding PaymentClaimable")
                elif camt != ann["amount"]:
                    bad("PaymentClaimed amount %d differs from the PaymentClaimable amount %d" % (camt, ann["amount"]))
                elif ful != set(ann["parts"]):
                    bad("PaymentClaimed for parts %s, PaymentClaimable had announced %s" % (sorted(ful), ann["parts"]))
            if ann and ann["live"]:
                if ann["intact"]:
                    if r["height"] < ann["deadline"]:
                        if not r["claimed"] or r["claimed"][0][0] != ann["amount"] or ful != set(ann["parts"]):
                            bad("claim_funds below the advertised deadline did not claim exactly the advertised parts / amount")
                else:
                    # "if any part can no longer be claimed, none is"
                    if ful or r["claimed"]:
                        bad("claim_funds after part(s) of the announced set had been failed back still released the preimage on %s (PaymentClaimed %s, announced amount %d)"
                            % (sorted(ful), [c[0] for c in r["claimed"]], ann["amount"]))
                    still = [k for k in ann["parts"] if parts[k]["state"] == "held"]
                    if still:
                        bad("claim_funds dropped a part: neither claimed nor failed back (it stays pending until the upstream peer force-closes)")
            for k in before:
                if parts[k]["state"] == "held" and ann is not None and not misuse:
                    bad("claim_funds dropped a part: neither claimed nor failed back (it stays pending until the upstream peer force-closes)")
                    break
        if t[0] in ("failback", "claim", "claimknown") and ann:
            ann["live"] = False
    # at the end of the script (ticks and blocks past every expiry buffer) nothing may be held
    for k, p in parts.items():
        if p["state"] == "held":
            fails.append({"cmd_index": len(lines) - 1, "cmd": "(end)", "why": "part %d was never claimed nor failed back" % k, "observed": {}})
            break
    return fails


def edge_judge(lines, recs, info, hfb):
    """Rules that hold for every payment hash, keysend payments included: a fulfil names a preimage of the HTLC's
    own payment hash; a keysend HTLC is held only if its preimage hashes to the payment hash; PaymentClaimable names a
    preimage of the payment hash; claiming it fulfils exactly the held parts for the announced amount."""
    fails = []
    ks = {}          # pid -> {"hx", "matches", "state"}
    last_matches = None
    ann = {}         # hx -> (amount, parts)
    last_ks_hx = None
    for idx, (line, r) in enumerate(zip(lines, recs)):
        t = line.split()

        def bad(why):
            fails.append({"cmd_index": idx, "cmd": line, "why": why, "observed": r})
        if r.get("badfulfill"):
            bad("%d update_fulfill_htlc message(s) carry a preimage that does not hash to the HTLC's payment hash" % r["badfulfill"])
        if t[0] == "keysend":
            kind = int(t[3])
            matches = last_matches if (kind == 3 and last_matches is not None) else (kind == 0)
            last_matches = matches
            for (ch, hid, a, cltv, sk, hx) in r["adds"]:
                ks[pid_of(ch, hid)] = {"hx": hx, "matches": matches, "state": "held", "amt": a}
                if not matches and [ch, hid] not in r["fails"]:
                    bad("a keysend HTLC whose preimage does not hash to its payment hash (payment secret %s) was not failed back at once"
                        % {"0": "absent", "1": "present", "2": "present: the registered invoice's"}[t[4]])
        for (ch, hid) in r["fails"]:
            if pid_of(ch, hid) in ks:
                ks[pid_of(ch, hid)]["state"] = "failed"
        ful = set()
        for (ch, hid) in r["fulfills"]:
            if pid_of(ch, hid) in ks:
                if ks[pid_of(ch, hid)]["state"] == "failed":
                    bad("the preimage was released on a keysend part that had been failed back")
                ks[pid_of(ch, hid)]["state"] = "fulfilled"
                ful.add(pid_of(ch, hid))
        for (amount, deadline, skimmed, hx, kind, pre_ok) in r["claimable"]:
            if pre_ok == 0:
                bad("PaymentClaimable names a preimage that does not hash to the payment hash")
            if kind == 1:
                held = {k: p for k, p in ks.items() if p["hx"] == hx and p["state"] == "held"}
                if pre_ok != 1:
                    bad("PaymentClaimable for a keysend payment without a matching preimage")
                if any(not p["matches"] for p in held.values()) or not held:
                    bad("PaymentClaimable for a keysend payment holding a part whose preimage does not hash to the payment hash")
                if sum(p["amt"] for p in held.values()) != amount:
                    bad("keysend PaymentClaimable amount is not the sum of the held parts")
                ann[hx] = (amount, sorted(held))
                last_ks_hx = hx
        if t[0] == "claimks" and not r.get("skipped") and last_ks_hx in ann:
            amount, parts_ = ann.pop(last_ks_hx)
            got = [c for c in r["claimed"] if c[2] == last_ks_hx]
            if not got or got[0][0] != amount or sorted(ful) != parts_:
                bad("claim_funds of a keysend payment did not claim exactly the announced parts / amount")
    for k, p in ks.items():
        if p["state"] == "held" and not p["matches"]:
            fails.append({"cmd_index": len(lines) - 1, "cmd": "(end)", "why": "a keysend part with a wrong preimage is still held", "observed": {}})
            break
    return fails


def mpp_tier(ctx, model_ok):
    rng = ctx.rng.fork("mpp")
    hfb = const_from_gen("HTLC_FAIL_BACK_BUFFER", 39)
    n = 220 if ctx.tier == "quick" else 3000
    from concurrent.futures import ThreadPoolExecutor
    jobs = []
    kinds = MODES * 3
    for i in range(n):
        kind = kinds[i] if i < len(kinds) else "random"
        lines, info = gen_script(rng.fork("s%d" % i), kind)
        jobs.append((lines, info, i))
    with ThreadPoolExecutor(max_workers=core.NPROC) as ex:
        allrecs = list(ex.map(lambda j: run_mpp(ctx, j[0], j[2], j[1]["underpay"]), jobs))
    scen = [(lines, info, recs) for (lines, info, _), recs in zip(jobs, allrecs)]
    dis, fails = [], []
    hist = {}
    nsteps = 0
    exprs = []
    keep = []
    for (lines, info, recs) in scen:
        hist[info["mode"]] = hist.get(info["mode"], 0) + 1
        if len(recs) != len(lines):
            fails.append({"script": lines, "why": "harness produced %d records for %d commands" % (len(recs), len(lines))})
            continue
        nsteps += len(lines)
        jf = mpp_judge(lines, recs, info, hfb) + edge_judge(lines, recs, info, hfb)
        if jf:
            fails.append({"script": lines, "info": info, "failures": jf[:3], "why": jf[0]["why"]})
        ops, h0 = mpp_model_ops(lines, recs, hfb, info.get("underpay", 0))
        flat = [o for cur in ops for o in cur]
        exprs.append("run_show (init %d) [%s]" % (h0, "; ".join(flat)))
        keep.append((lines, info, recs, ops))
    ctx.coverage["mpp_scenarios"] = len(scen)
    ctx.coverage["mpp_commands"] = nsteps
    ctx.coverage["mpp_mode_histogram"] = hist
    if model_ok and exprs:
        vals = ctx.coq_eval("corr_mpp_%d" % os.getpid(), ["LdkV.Prim.U64", "LdkV.Gen.Consts", "LdkV.Gen.InboundChecks", "LdkV.Model.Inbound"], exprs, shards=min(16, len(exprs)), timeout=900)
        for (lines, info, recs, ops), v in zip(keep, vals):
            model = json.loads(v.replace(";", ","))
            mi = 0
            for li, (line, r, cur) in enumerate(zip(lines, recs, ops)):
                outs = []
                for _ in cur:
                    step = model[mi]
                    mi += 1
                    outs += step[:step.index([-3])]
                m_claimable = sorted([o[1], o[2], o[3]] for o in outs if o[0] == 1)
                r = dict(r, claimable=[[c[3], c[0], c[1]] for c in r["claimable"]])
                m_claimed = sorted(o[2] for o in outs if o[0] == 2)
                m_ful = sorted(o[1] for o in outs if o[0] == 3)
                m_fail = sorted(o[1] for o in outs if o[0] == 4)
                i_claimable = sorted(r["claimable"])
                i_claimed = sorted(c[0] for c in r["claimed"])
                i_ful = sorted(pid_of(c, h) for (c, h) in r["fulfills"])
                i_fail = sorted(pid_of(c, h) for (c, h) in r["fails"])
                if (m_claimable, m_claimed, m_ful, m_fail) != (i_claimable, i_claimed, i_ful, i_fail):
                    dis.append({"script": lines[:li + 1], "cmd": line, "model_ops": cur,
                                "model": {"claimable": m_claimable, "claimed": m_claimed, "fulfills": m_ful, "fails": m_fail},
                                "impl": {"claimable": i_claimable, "claimed": i_claimed, "fulfills": i_ful, "fails": i_fail, "height": r["height"]}})
                    break
    if scen:
        ctx.samples.append({"mpp_script": scen[0][0], "recipient_observed": scen[0][2][:4]})
    return dis, fails


def run(ctx):
    ok_build, out = ctx.build_harness(BINS)
    if not ok_build:
        ctx.violation("harness does not build against the current tree", {"broken": "harness-build", "log_tail": out[-3000:]}, False)
        ctx.write_evidence(LEVEL)
        return
    gen_err = None
    try:
        generate(ctx)
    except Exception as ex:
        gen_err = str(ex)
        ctx.obligations.append(("rs2v-generation", False, gen_err))
    okm, proved = False, False
    if gen_err is None:
        okm, outm = ctx.coq_make(["Gen/InboundChecks.vo", "Model/InboundSecretExec.vo", "Model/Inbound.vo"])
        if not okm:
            ctx.log(outm[-2000:])
        proved = ctx.prove("C04")
    ctx.trusted_base += [
        "Coq 8.16.1 kernel + vm_compute (no native_compute)",
        "tools/rs2v/consts_lite (MAX_VALUE_MSAT; HTLC_FAIL_BACK_BUFFER and MPP_TIMEOUT_TICKS come from C08's Gen/Consts.v), regenerated from the source every run",
        "tools/rs2v anchored expressions (Gen/InboundChecks.v: final_hop_underpaid, mpp_already_complete, mpp_complete_on_arrival, mpp_complete_at_tick, claim_amount_mismatch; one rewrite: new_htlc.mpp_part().sender_intended_value -> a parameter) and five textual source anchors for the loops rs2v cannot translate",
        "coq/Crypto (Gallina SHA-256, HMAC, ChaCha20, HKDF): validated against RFC vectors there and byte-for-byte against the Rust create/verify here",
        "Model/InboundSecret.v, Model/Inbound.v: hand transliterations tied by correspondence (h_inbound; hooks ln::inbound_payment::verif_hooks_inbound)",
        "cryptographic assumption: HMAC-SHA256 is unforgeable (verify_sound reduces acceptance to a MAC equality); ChaCha20 as a keystream",
        "harness crate /verif/harness (h_inbound) and LDK functional_test_utils",
    ]
    ctx.assumptions += ["HMAC unforgeability", "monitor updates complete synchronously in the trace tier (pending_claiming_payments window not exercised)",
                        "claim_funds is only called for a set covered by a PaymentClaimable (anything else is API misuse, see design/C04.md); the previous hop declares the fee it skimmed truthfully (forward_intercepted_htlc)"]
    sdis, sfails = secret_tier(ctx, okm)
    mdis, mfails = mpp_tier(ctx, okm)
    ctx.coverage["evaluations"] = ctx.coverage.get("secret_cases", 0) + ctx.coverage.get("mpp_commands", 0)
    ctx.coverage["distinct_nontrivial"] = len(ctx.coverage.get("secret_kind_histogram", {})) + len(ctx.coverage.get("mpp_mode_histogram", {}))
    ctx.coverage["rule"] = ("secret tier: one evaluation = one create/verify/info call executed by the Rust function and by the Gallina model, results compared byte for byte; "
                            "mpp tier: one evaluation = one scripted command on real nodes with the recipient's events and per-part fulfil/fail compared with the model; "
                            "distinct non-trivial = distinct case classes (command kind x tampering class; scenario mode)")
    ctx.coverage["translated_items"] = getattr(ctx, "gen_meta", [])
    # ---- decide
    for f in sfails[:2]:
        ctx.violation("C04 violated by the implementation (payment secrets): " + f["why"],
                      {"broken": "implementation judge (h_inbound secret)", "failing_input": f,
                       "replay_cmd": "printf 'key <hex>\\n%s\\n' | %s secret" % (f.get("cmd", ""), ctx.bin_path("h_inbound"))}, True)
    mfails.sort(key=lambda f: len(f.get("script") or []))
    for f in mfails[:2]:
        ctx.violation("C04 violated by the implementation (receiving MPP): " + f["why"],
                      {"broken": "implementation judge (h_inbound mpp)", "script": f.get("script"), "failure": f,
                       "replay_cmd": "printf '<script lines>' | %s mpp 0" % ctx.bin_path("h_inbound")}, True,
                      key="C04:late-claim-drops-parts" if "dropped a part" in f["why"] or "never claimed nor failed" in f["why"] else None)
    broken = []
    if not proved:
        broken.append({"obligation": "Coq proof of Props/C04.v", "detail": getattr(ctx, "proof_failure", {"where": gen_err})})
    if sdis:
        broken.append({"correspondence": "h_inbound secret vs Model/InboundSecret.v", "first_disagreements": sdis[:3], "n": len(sdis)})
    if mdis:
        broken.append({"correspondence": "h_inbound mpp vs Model/Inbound.v", "first_disagreements": mdis[:3], "n": len(mdis)})
    if broken and not sfails and not mfails:
        ctx.violation("C04 no longer shown: " + ("proof" if not proved else "model/implementation correspondence") + " broken",
                      {"broken": broken, "search": "implementation judges over %d secret cases and %d MPP commands found no failing input"
                       % (ctx.coverage.get("secret_cases", 0), ctx.coverage.get("mpp_commands", 0))}, False)
    _cleanup_eval(ctx)
    ctx.write_evidence(LEVEL)


def replay(ctx, rep):
    print(json.dumps(rep, indent=1)[:8000])
    if rep.get("script"):
        ctx.build_harness(BINS)
        recs = run_mpp(ctx, rep["script"], 0, (rep.get("failure", {}).get("info") or {}).get("underpay", 0))
        for l, r in zip(rep["script"], recs):
            print(l, "->", json.dumps(r))
        return 1
    return 0
