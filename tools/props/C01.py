"""C01 — every commitment conserves the channel's funds and both peers agree on it.

Layers (see design/C01.md):
  1. amount layer: Coq theorems (Props/C01.v) about Model/CommitAmounts.v (hand transliteration of
     SpecTxBuilder::build_commitment_transaction / CommitmentTransaction outputs / build_closing_transaction)
     on top of the rs2v-generated fee, dust and anchor functions (Gen/TxBuilder.v, Gen/ChanUtilsFees.v,
     Gen/Consts.v, regenerated every run); functional correspondence of all of these against the real
     functions through `lightning::sign::tx_builder::verif_hooks_c01` (harness h_commit); BOLT-3 judge
     (independent Python re-statement) on the real outputs.
  2. trace layer: real ChannelManagers driven by seeded schedules (harness h_chan) with the property's
     judges evaluated on every captured commitment.
"""
import json
import os
import re

from vlib import core
from vlib import gen
from props import _c01_trace as T
from props import _c01_gen

BINS = [b for b in ["h_commit", "h_chan"] if os.path.exists(os.path.join(core.HARNESS, "src", "bin", b + ".rs"))]
LEVEL = "proof"
MANIFEST = {
    "category": "proof",
    "text": "Coq theorems for all HTLC lists/feerates/balances/channel types about the commitment amount computation (conservation with an itemised fee, exact dust trim, saturating branch, cooperative close), stated over fee/dust/anchor functions regenerated from the Rust source each run; functional correspondence of the hand-modelled builder against the real functions; seeded interleaving schedules on two real ChannelManagers with conservation / agreement / ledger / exactly-once / exact-limit / coop-close judges on every signed or accepted commitment.",
    "note": "Trusted: Coq kernel, rs2v translation, hooks, harness. Protocol-layer (two-party state machine) is validated on real traces by implementation-side judges; its Coq model is partial (see design/C01.md). Not modelled: splicing, quiescence, async signing, batch commitment_signed, transaction scripts/signatures.",
    "technique": "machine-checked proof in Coq over regenerated code + differential correspondence + trace judges on real nodes",
}

U64 = 2 ** 64
U32 = 2 ** 32
FEERATES = [0, 253, 1000, 2500, 25000, U32 - 1]
CT_NAMES = ["static_remote_key", "anchors_zero_fee_htlc_tx", "zero_fee_commitments"]


# ------------------------------------------------------------------ BOLT-3 reference (the judge)
# Independent re-statement of BOLT 3 "Commitment Transaction" amounts, used ONLY to judge the
# implementation's outputs (never compared with the Coq model).
def ref_weights(ct):
    if ct == 1:
        return {"base": 1124, "success": 706, "timeout": 666}
    return {"base": 724, "success": 703, "timeout": 663}


def ref_htlc_tx_fee(ct, feerate, offered):
    if ct == 1:
        return 0  # zero-fee HTLC transactions
    w = ref_weights(ct)
    return feerate * (w["timeout"] if offered else w["success"]) // 1000


def ref_commit(ct, local, funder_is_holder, value_sat, to_self_msat, feerate, dust, htlcs):
    """htlcs: list of (outbound_from_holder, amount_msat). Returns dict or None when the inputs are
    outside the protocol's domain (a party's balance cannot cover its own HTLCs)."""
    w = ref_weights(ct)
    V = value_sat * 1000
    out_total = sum(a for (o, a) in htlcs if o)
    in_total = sum(a for (o, a) in htlcs if not o)
    if to_self_msat > V or out_total > to_self_msat or in_total > V - to_self_msat:
        return None
    kept, trimmed = [], []
    for i, (o, a) in enumerate(htlcs):
        offered = (o == local)  # offered by the broadcaster
        if a // 1000 < dust + ref_htlc_tx_fee(ct, feerate, offered):
            trimmed.append(i)
        else:
            kept.append(i)
    fee = feerate * (w["base"] + 172 * len(kept)) // 1000
    anchors = 660 if ct == 1 else 0
    holder = to_self_msat - out_total
    cp = V - to_self_msat - in_total
    if funder_is_holder:
        affordable_anchors = holder >= anchors * 1000
        holder_sat = max(0, max(0, holder - anchors * 1000) // 1000 - fee)
        cp_sat = cp // 1000
    else:
        affordable_anchors = cp >= anchors * 1000
        cp_sat = max(0, max(0, cp - anchors * 1000) // 1000 - fee)
        holder_sat = holder // 1000
    tb, tc = (holder_sat, cp_sat) if local else (cp_sat, holder_sat)
    tb = tb if tb >= dust else 0
    tc = tc if tc >= dust else 0
    outs = [htlcs[i][1] // 1000 for i in kept]
    has_htlc = sum(outs) != 0
    if tc > 0:
        outs.append(tc)
    if tb > 0:
        outs.append(tb)
    if ct == 1:
        if tb > 0 or has_htlc:
            outs.append(330)
        if tc > 0 or has_htlc:
            outs.append(330)
    if ct == 2:
        t = value_sat - sum(outs)
        outs.append(min(240, t))
    return {"tb": tb, "tc": tc, "kept": kept, "outs": sorted(outs), "fee": fee,
            "affordable_anchors": affordable_anchors, "holder_msat": holder, "cp_msat": cp}


def judge_bc(case, impl):
    """The property's predicate on the IMPLEMENTATION's output for one build_commitment case.
    Returns None if fine, else a string."""
    (ct, local, funder, v, s, fr, dust, hs) = case
    ref = ref_commit(ct, bool(local), bool(funder), v, s, fr, dust, [(bool(o), a) for (o, a) in hs])
    if ref is None:
        return None  # outside the domain: the Rust panics (checked by the correspondence, not here)
    if impl is None:
        return "implementation panicked on an in-domain input"
    problems = []
    if ref["affordable_anchors"]:
        if sum(impl["outs"]) > v:
            problems.append("outputs %d exceed the channel value %d" % (sum(impl["outs"]), v))
        fee_paid = v - sum(impl["outs"])
        # the funder can afford everything: the fee paid must be at least the BOLT-3 fee
        fb = (ref["holder_msat"] if funder else ref["cp_msat"]) - (660000 if ct == 1 else 0)
        if fb // 1000 >= ref["fee"] and ct != 2 and fee_paid < ref["fee"]:
            problems.append("fee paid %d below the BOLT-3 fee %d" % (fee_paid, ref["fee"]))
    if impl["kept"] != ref["kept"]:
        problems.append("non-dust HTLC set differs from BOLT-3 trimming: impl %s spec %s" % (impl["kept"], ref["kept"]))
    if impl["tb"] != ref["tb"] or impl["tc"] != ref["tc"]:
        problems.append("balance outputs (%d,%d) differ from BOLT-3 (%d,%d)" % (impl["tb"], impl["tc"], ref["tb"], ref["tc"]))
    if impl["outs"] != ref["outs"]:
        problems.append("transaction output values %s differ from BOLT-3 %s" % (impl["outs"], ref["outs"]))
    if impl["idx"] != 1:
        problems.append("a kept HTLC does not point at an output of its value")
    # each pending HTLC exactly once: kept ones as an output, the others nowhere
    hv = sorted(hs[i][1] // 1000 for i in impl["kept"])
    rest = list(impl["outs"])
    for x in hv:
        if x in rest:
            rest.remove(x)
        else:
            problems.append("kept HTLC of %d sat has no output" % x)
            break
    return "; ".join(problems) if problems else None


def ref_ncs(ct, local, funder, v, s, addl, fr, spike, dust, hs):
    """Independent statement of what get_next_commitment_stats promises: Ok(holder, counterparty) iff both
    parties can pay for their HTLCs, the funder for anchors and the fee of the non-dust HTLCs (+addl) at
    the (possibly spiked) feerate, and the commitment keeps at least one output."""
    V = v * 1000
    O = sum(a for (o, a) in hs if o)
    I = sum(a for (o, a) in hs if not o)
    if s > V or O > s or I > V - s:
        return None
    w = ref_weights(ct)
    anchors = 660 if ct == 1 else 0
    holder, cp = s - O, V - s - I
    if (holder if funder else cp) < anchors * 1000:
        return None
    if funder:
        holder -= anchors * 1000
    else:
        cp -= anchors * 1000
    sfr = min(fr * 2, U32 - 1) if (spike and ct != 1) else fr

    def nondust(feerate):
        return sum(1 for (o, a) in hs if not (a // 1000 < dust + (0 if ct in (1, 2) else feerate * (w["timeout"] if o == local else w["success"]) // 1000)))
    snd = nondust(sfr)
    sfee = sfr * (w["base"] + 172 * snd) // 1000
    h2, c2 = (max(0, holder - sfee * 1000), cp) if funder else (holder, max(0, cp - sfee * 1000))
    if h2 < dust * 1000 and c2 < dust * 1000 and snd == 0 and ct != 2:
        return None
    fee = sfr * (w["base"] + 172 * (nondust(fr) + addl)) // 1000
    if (holder if funder else cp) < fee * 1000:
        return None
    return (holder - fee * 1000, cp) if funder else (holder, cp - fee * 1000)


def ref_keeps_output(ct, local, funder, v, s, fr, dust, hs, a):
    """After the holder adds an outbound HTLC of `a` msat: does the commitment of side `local` (broadcaster
    dust limit `dust`) still have an output (BOLT 3 trimming)? None if the balances cannot carry it."""
    V = v * 1000
    hs2 = list(hs) + [(True, a)]
    O = sum(x for (o, x) in hs2 if o)
    I = sum(x for (o, x) in hs2 if not o)
    if s > V or O > s or I > V - s:
        return None
    w = ref_weights(ct)
    nd = sum(1 for (o, x) in hs2 if not (x // 1000 < dust + (0 if ct in (1, 2) else fr * (w["timeout"] if o == local else w["success"]) // 1000)))
    if nd > 0 or ct == 2:
        return True
    anchors = 660000 if ct == 1 else 0
    fee = fr * w["base"] // 1000 * 1000
    holder, cp = s - O, V - s - I
    if funder:
        holder = max(0, max(0, holder - anchors) - fee)
    else:
        cp = max(0, max(0, cp - anchors) - fee)
    return holder >= dust * 1000 or cp >= dust * 1000


def judge_ab(case, line):
    """Contract of the reported send limits on the implementation's answer: every amount in [minimum, limit]
    leaves BOTH commitments with an output (checked at the ends and at the dust thresholds of both sides)."""
    (ct, funder, v, s, fr, lim, maxdust, cc, hs) = case
    if line == "PANIC" or (ct == 2 and fr != 0):
        return None
    r = [int(x) for x in line.split()]
    limit, minimum = r[2], r[3]
    if limit < minimum or limit == 0:
        return None
    hd, cd = cc[0], cc[2]
    hs_ = [(bool(o), a) for (o, a) in hs]
    if ref_ncs(ct, True, bool(funder), v, s, 0, fr, False, hd, hs_) is None or ref_ncs(ct, False, bool(funder), v, s, 0, fr, False, cd, hs_) is None:
        return None
    w = ref_weights(ct)
    tl = (hd + (0 if ct in (1, 2) else fr * w["timeout"] // 1000)) * 1000
    tr = (cd + (0 if ct in (1, 2) else fr * w["success"] // 1000)) * 1000
    cands = sorted(set(a for a in (minimum, limit, tl - 1, tl, tr - 1, tr, (minimum + limit) // 2) if max(1, minimum) <= a <= limit))
    for a in cands:
        for (local, dust) in ((True, hd), (False, cd)):
            k = ref_keeps_output(ct, local, bool(funder), v, s, fr, dust, hs_, a)
            if k is False:
                return "limits [%d, %d] admit an HTLC of %d msat that leaves the %s commitment (dust limit %d) without any output" % (minimum, limit, a, "holder's" if local else "counterparty's", dust)
    return None


# ------------------------------------------------------------------ case generation
def dust_thresholds(ct, fr, dust):
    return sorted(set([dust + ref_htlc_tx_fee(ct, fr, True), dust + ref_htlc_tx_fee(ct, fr, False), dust]))


def gen_htlcs(rng, ct, fr, dusts, maxlen, budget_msat):
    n = rng.choice([0, 0, 1, 1, 2, 3, 5, 8, rng.below(maxlen + 1), rng.below(maxlen + 1), maxlen])
    thr = []
    for d in dusts:
        thr += dust_thresholds(ct, fr, d)
    hs = []
    for _ in range(n):
        t = rng.choice(thr)
        k = rng.below(10)
        if k < 6:
            amt = t * 1000 + rng.choice([-1001, -1000, -999, -1, 0, 1, 999, 1000, 1001])
        elif k < 8:
            amt = rng.choice([0, 1, 999, 1000, 1001, 330000, 354000])
        else:
            amt = rng.below(max(1, min(budget_msat, 50 * t * 1000 + 5000000)))
        amt = max(0, min(amt, U64 - 1))
        hs.append((rng.below(2), amt))
    return hs


def bc_cases(rng, n_cases):
    cases = []
    while len(cases) < n_cases:
        ct = rng.below(3)
        local = rng.below(2)
        funder = rng.below(2)
        fr = rng.choice(FEERATES) if (ct != 2 or rng.chance(1, 5)) else 0
        dust = rng.choice([354, 354, 546, 546, 1000, 10000, 330, 0, 1])
        v = rng.choice([1000, 20000, 100000, 100000, 1000000, 1000000, 16777215, 10 ** 9, 21 * 10 ** 14, rng.range(1000, 10 ** 7)])
        V = v * 1000
        hs = gen_htlcs(rng, ct, fr, [dust], 60, V)
        # fit the HTLCs into the channel
        while sum(a for (_, a) in hs) > V:
            hs.pop()
        L = sum(a for (o, a) in hs if o)
        R = sum(a for (o, a) in hs if not o)
        w = ref_weights(ct)
        nk = len(hs)
        fee_hi = fr * (w["base"] + 172 * nk) // 1000
        fee_lo = fr * w["base"] // 1000
        anch = 660 if ct == 1 else 0
        reserve = max(v // 100, 1000)
        # the funder's post-HTLC balance x (msat) at interesting points
        pts = [0, 1, 999, 1000, dust * 1000 - 1, dust * 1000, dust * 1000 + 1, anch * 1000 - 1, anch * 1000, anch * 1000 + 1,
               (anch + fee_lo) * 1000, (anch + fee_hi) * 1000 - 1, (anch + fee_hi) * 1000, (anch + fee_hi) * 1000 + 1,
               (anch + fee_hi + dust) * 1000 - 1, (anch + fee_hi + dust) * 1000, (anch + fee_hi + dust) * 1000 + 999,
               (anch + fee_lo + dust) * 1000, reserve * 1000 - 1, reserve * 1000, reserve * 1000 + 1,
               (reserve + fee_hi + anch) * 1000, (reserve + fee_hi + anch) * 1000 + 1]
        room = V - L - R
        k = rng.below(10)
        if k < 5:
            x = rng.choice(pts)
        elif k < 7:
            x = room - rng.choice([0, 1, 999, 1000, dust * 1000 - 1, dust * 1000, dust * 1000 + 1, reserve * 1000])
        else:
            x = rng.below(room + 1)
        x = max(0, min(room, x))
        s = L + x if funder else V - R - x
        if rng.chance(1, 100):  # outside the domain: a checked_sub().unwrap() must panic
            s = rng.choice([max(0, L - 1), V - R + 1, V + 1])
        cases.append((ct, local, funder, v, s, fr, dust, tuple(hs)))
    return cases


def fee_cases(rng, n):
    cases = []
    for ct in range(3):
        for fr in FEERATES + [1, 999, 1001, 2 ** 31]:
            for nh in [0, 1, 2, 59, 60, 483, 966, 10 ** 6]:
                cases.append((ct, fr, nh, nh // 2, nh - nh // 2))
    for _ in range(n):
        cases.append((rng.below(3), rng.choice([rng.below(U32), rng.below(30000)]), rng.below(1000), rng.below(500), rng.below(500)))
    return sorted(set(cases))


def dust_cases(rng, n):
    cases = []
    for ct in range(3):
        for fr in FEERATES:
            for dust in [354, 546, 10000]:
                for outbound in (0, 1):
                    for local in (0, 1):
                        t = dust + ref_htlc_tx_fee(ct, fr if ct != 2 else 0, outbound == local)
                        for e in (-1001, -1000, -1, 0, 1, 999, 1000):
                            a = t * 1000 + e
                            if 0 <= a < U64:
                                cases.append((ct, outbound, a, local, fr if ct != 2 else 0, dust))
    for _ in range(n):
        ct = rng.below(3)
        cases.append((ct, rng.below(2), rng.below(10 ** 8), rng.below(2), 0 if ct == 2 else rng.choice(FEERATES), rng.choice([354, 546, 1000])))
    return sorted(set(cases))


def chan_like(rng):
    """A realistic channel snapshot for the statistics / limits functions."""
    ct = rng.below(3)
    fr = 0 if ct == 2 else rng.choice([253, 253, 1000, 2500, 25000, rng.range(253, 60000)])
    funder = rng.below(2)
    v = rng.choice([100000, 100000, 1000000, 16777215, rng.range(20000, 10 ** 7)])
    V = v * 1000
    hd = rng.choice([354, 546, 1000, 5000])
    cd = rng.choice([354, 546, 1000, 5000])
    zero_res = rng.chance(1, 6)
    res_h = 0 if (zero_res and ct != 0) else max(v // 100, 1000)  # holder-selected (for the counterparty)
    res_c = 0 if (zero_res and rng.chance(1, 2)) else max(v // 100, 1000)  # counterparty-selected (for the holder)
    hs = gen_htlcs(rng, ct, fr, [hd, cd], 30, V // 4)
    while sum(a for (_, a) in hs) > V // 2:
        hs.pop()
    L = sum(a for (o, a) in hs if o)
    R = sum(a for (o, a) in hs if not o)
    w = ref_weights(ct)
    fee = fr * (w["base"] + 172 * (len(hs) + 1)) // 1000
    anch = 660 if ct == 1 else 0
    room = V - L - R
    pts = [res_c * 1000, res_c * 1000 + 1, (res_c + fee + anch) * 1000, (res_c + 2 * fee + anch) * 1000 + 1, (res_c + fee + anch + hd) * 1000,
           (anch + fee) * 1000, hd * 1000, (hd + fee + anch) * 1000 + 1, room // 2, room - res_h * 1000, room - (res_h + fee + anch) * 1000,
           room - (res_h + fee + anch) * 1000 - 1, room - hd * 1000, room]
    x = rng.choice(pts) if rng.chance(2, 3) else rng.below(room + 1)
    x = max(0, min(room, x))
    s = L + x
    return ct, fr, funder, v, s, hd, cd, res_h, res_c, hs


def ncs_cases(rng, n):
    cases = []
    for _ in range(n):
        ct, fr, funder, v, s, hd, cd, res_h, res_c, hs = chan_like(rng)
        local = rng.below(2)
        lim = rng.choice([-1, -1, 253, 1000, fr])
        cases.append((ct, local, funder, v, s, rng.choice([0, 1, 2]), fr, rng.below(2) if ct != 2 else rng.below(2), lim, hd if local else cd, tuple(hs)))
    return cases


def tiny_like(rng):
    """Tiny zero-reserve channels with different dust limits: where the 'at least one output' guards bite."""
    ct = rng.choice([1, 1, 0, 2])
    fr = 0 if ct == 2 else rng.choice([253, 253, 500, 1000])
    funder = rng.below(2)
    hd = rng.choice([354, 546, 1000, 2000])
    cd = rng.choice([354, 546, 1000, 2000])
    anch = 660 if ct == 1 else 0
    w = ref_weights(ct)
    fee = fr * w["base"] // 1000
    v = anch + fee + rng.choice([hd, cd, hd + cd, max(hd, cd) + rng.below(900), 2 * max(hd, cd) + rng.below(500), rng.range(400, 5000)])
    V = v * 1000
    own = rng.choice([V, V, V - rng.below(min(V, 600000) + 1), V // 2, rng.below(V + 1)])
    s = own if funder else V - own
    s = max(0, min(V, s))
    hs = []
    if rng.chance(1, 4):
        a = rng.choice([1000, 100000, 353000, 545000])
        if a <= s:
            hs.append((1, a))
    return ct, fr, funder, v, s, hd, cd, 0, 0, hs


def ab_cases(rng, n):
    cases = []
    for i in range(n):
        ct, fr, funder, v, s, hd, cd, res_h, res_c, hs = tiny_like(rng) if i % 3 == 0 else chan_like(rng)
        lim = rng.choice([-1, -1, 253, 1000, fr])
        maxdust = rng.choice([5000000, 50000000, 5000 * 1000 * 1000, 0, 1000000])
        htlc_min = rng.choice([1, 1, 1000, 0, 354000])
        in_flight = rng.choice([v * 1000, v * 100, v * 1000 // 2, 10 ** 6])
        max_acc = rng.choice([483, 50, 30, 1, len([1 for (o, _) in hs if o]), len([1 for (o, _) in hs if o]) + 1])
        cases.append((ct, funder, v, s, fr, lim, maxdust, (hd, res_c, cd, res_h, htlc_min, in_flight, max_acc), tuple(hs)))
    return cases


# ------------------------------------------------------------------ model side (Coq)
COQ_IMPORTS = ["LdkV.Prim.U64", "LdkV.Prim.Rs2vLib", "LdkV.Gen.Consts", "LdkV.Gen.ChanUtilsFees", "LdkV.Gen.TxBuilder", "LdkV.Model.CommitAmounts"]
PRELUDE = """
Open Scope Z_scope.
Fixpoint ins (x : Z) (l : list Z) : list Z :=
  match l with [] => [x] | y :: t => if x <=? y then x :: l else y :: ins x t end.
Definition sortz (l : list Z) : list Z := fold_right ins [] l.
(* an HTLC is encoded as 2*amount_msat + (1 if outbound from the holder) *)
Fixpoint mk_htlcs (local : bool) (i : Z) (l : list Z) : list htlc_out :=
  match l with [] => [] | x :: t => mkHtlcOut (Bool.eqb (Z.odd x) local) (x / 2) i :: mk_htlcs local (i + 1) t end.
Definition mk_dirs (l : list Z) : list HTLCAmountDirection := map (fun x => mkHTLCAmountDirection (Z.odd x) (x / 2)) l.
Definition zb (x : Z) : bool := negb (x =? 0).
Definition show_bc (c : Z * Z * Z * Z * Z * Z * Z * list Z) : list Z :=
  let '(cti, local, funder, v, s, fr, dust, hs) := c in
  let ct := ct_of_Z cti in
  let htlcs := mk_htlcs (zb local) 0 hs in
  match build_commitment ct (zb local) (zb funder) v s htlcs fr dust with
  | None => [-1]
  | Some ca =>
    match commit_tx_outputs ct v (ca_to_broadcaster_sat ca) (ca_to_countersignatory_sat ca) (ca_nondust ca) with
    | None => [-2]
    | Some outs =>
      [Z.b2z (build_commitment_safe ct (zb local) v htlcs fr dust); ca_to_broadcaster_sat ca; ca_to_countersignatory_sat ca;
       ca_commit_tx_fee_sat ca; ca_local_balance_before_fee_msat ca; ca_remote_balance_before_fee_msat ca;
       Z.of_nat (List.length (ca_nondust ca))] ++ map ho_tag (ca_nondust ca) ++ sortz outs
    end
  end.
Definition show_fee (c : Z * Z * Z * Z * Z) : list Z :=
  let '(cti, fr, n, na, no) := c in
  let ct := ct_of_Z cti in
  let '(s, t) := second_stage_tx_fees_sat ct fr in
  [commit_tx_fee_sat fr n ct; s; t; htlc_tx_fees_sat fr na no ct; total_anchors_sat ct; get_dust_buffer_feerate fr].
Definition show_dust (c : Z * Z * Z * Z * Z * Z) : Z :=
  let '(cti, outbound, amt, local, fr, dust) := c in
  Z.b2z (is_dust (mkHTLCAmountDirection (zb outbound) amt) (zb local) fr dust (ct_of_Z cti)).
Definition optz (x : Z) : option Z := if x <? 0 then None else Some x.
Definition show_ncs (c : Z * Z * Z * Z * Z * Z * Z * Z * Z * Z * list Z) : list Z :=
  let '(cti, local, funder, v, s, addl, fr, spike, lim, dust, hs) := c in
  let ct := ct_of_Z cti in
  if get_next_commitment_stats_safe (zb local) (zb funder) v s (mk_dirs hs) addl fr (zb spike) (optz lim) dust ct then
    match get_next_commitment_stats (zb local) (zb funder) v s (mk_dirs hs) addl fr (zb spike) (optz lim) dust ct with
    | ROk st => [1; ncs_holder_balance_msat st; ncs_counterparty_balance_msat st; ncs_dust_exposure_msat st]
    | RErr _ => [0]
    end
  else [-1].
Definition show_ab (c : Z * Z * Z * Z * Z * Z * Z * (Z * Z * Z * Z * Z * Z * Z) * list Z) : list Z :=
  let '(cti, funder, v, s, fr, lim, maxdust, cc, hs) := c in
  let '(c0, c1, c2, c3, c4, c5, c6) := cc in
  let ct := ct_of_Z cti in
  let k := mkChannelConstraints c0 c1 c2 c3 c4 c5 c6 in
  if get_available_balances_safe (zb funder) v s (mk_dirs hs) fr (optz lim) maxdust k ct then
    let b := get_available_balances (zb funder) v s (mk_dirs hs) fr (optz lim) maxdust k ct in
    [ab_inbound_capacity_msat b; ab_outbound_capacity_msat b; ab_next_outbound_htlc_limit_msat b;
     ab_next_outbound_htlc_minimum_msat b; ab_dust_exposure_msat b; ab_next_splice_out_maximum_sat b]
  else [-1].
"""


def enc_hs(hs):
    return "[" + ";".join(str(2 * a + (1 if o else 0)) for (o, a) in hs) + "]"


def zs(v):
    return [int(x) for x in re.findall(r"-?\d+", v)]


def split_lists(v):
    """'[[1; 2]; [3]]' -> [[1,2],[3]]"""
    return [zs(m) for m in re.findall(r"\[([^\[\]]*)\]", v)]


def chunks(xs, n):
    return [xs[i:i + n] for i in range(0, len(xs), n)]


def parse_bc_line(l):
    if l == "PANIC":
        return None
    d = dict(kv.split("=", 1) for kv in l.split())
    out = {k: int(d[k]) for k in ("tb", "tc", "fee", "lb", "rb", "fr", "idx")}
    out["kept"] = [int(x) for x in d["kept"].split(",") if x != ""]
    out["outs"] = [int(x) for x in d["outs"].split(",") if x != ""]
    return out


def bc_line(c):
    (ct, local, funder, v, s, fr, dust, hs) = c
    return "bc %d %d %d %d %d %d %d %d %s" % (ct, local, funder, v, s, fr, dust, len(hs), " ".join("%d %d" % (o, a) for (o, a) in hs))


def functional(ctx, model_ok):
    """Amount layer: real functions (h_commit) vs. model, plus the BOLT-3 judge on the real outputs.
    Returns (disagreements, judge_failures)."""
    rng = ctx.rng.fork("functional")
    quick = ctx.tier == "quick"
    bcs = bc_cases(rng.fork("bc"), 10000 if quick else 60000)
    fees = fee_cases(rng.fork("fee"), 300 if quick else 5000)
    dusts = dust_cases(rng.fork("dust"), 300 if quick else 5000)
    ncss = ncs_cases(rng.fork("ncs"), 1200 if quick else 10000)
    abs_ = ab_cases(rng.fork("ab"), 1200 if quick else 10000)
    inp = [bc_line(c) for c in bcs]
    inp += ["fee %d %d %d %d %d" % c for c in fees]
    inp += ["dust %d %d %d %d %d %d" % c for c in dusts]
    for (ct, local, funder, v, s, addl, fr, spike, lim, dust, hs) in ncss:
        inp.append("ncs %d %d %d %d %d %d %d %d %d %d %d %s" % (ct, local, funder, v, s, addl, fr, spike, lim, dust, len(hs), " ".join("%d %d" % h for h in hs)))
    for (ct, funder, v, s, fr, lim, maxdust, cc, hs) in abs_:
        inp.append("ab %d %d %d %d %d %d %d %s %d %s" % (ct, funder, v, s, fr, lim, maxdust, " ".join(str(x) for x in cc), len(hs), " ".join("%d %d" % h for h in hs)))
    rc, lines = ctx.run_bin("h_commit", "\n".join(inp) + "\n", timeout=1500)
    lines = [l for l in lines if l != ""]
    if rc != 0 or len(lines) != len(inp):
        ctx.violation("harness h_commit did not produce one result per case", {"broken": "correspondence:h_commit", "rc": rc, "n_out": len(lines), "n_in": len(inp)}, False)
        return None, None
    o = 0
    impl_bc = [parse_bc_line(l) for l in lines[o:o + len(bcs)]]
    o += len(bcs)
    impl_fee = [zs(l) for l in lines[o:o + len(fees)]]
    o += len(fees)
    impl_dust = [None if l == "PANIC" else int(l) for l in lines[o:o + len(dusts)]]
    o += len(dusts)
    impl_ncs = lines[o:o + len(ncss)]
    o += len(ncss)
    impl_ab = lines[o:o + len(abs_)]
    # ---- the judge on the implementation
    fails = []
    nontrivial = set()
    hist = {"panic_expected": 0, "saturating_fee": 0, "unaffordable_anchors": 0, "with_dust": 0, "balance_zeroed": 0, "htlc_len": {}}
    for c, r in zip(bcs, impl_bc):
        why = judge_bc(c, r)
        if why:
            fails.append({"kind": "build_commitment_transaction violates BOLT-3 conservation/trimming", "why": why, "case_line": bc_line(c), "impl": r})
        ref = ref_commit(c[0], bool(c[1]), bool(c[2]), c[3], c[4], c[5], c[6], [(bool(x), a) for (x, a) in c[7]])
        b = str(min(60, len(c[7]) // 10 * 10))
        hist["htlc_len"][b] = hist["htlc_len"].get(b, 0) + 1
        if ref is None:
            hist["panic_expected"] += 1
            continue
        if not ref["affordable_anchors"]:
            hist["unaffordable_anchors"] += 1
        fb = (ref["holder_msat"] if c[2] else ref["cp_msat"]) - (660000 if c[0] == 1 else 0)
        if fb // 1000 < ref["fee"]:
            hist["saturating_fee"] += 1
        if len(ref["kept"]) < len(c[7]):
            hist["with_dust"] += 1
        if ref["tb"] == 0 or ref["tc"] == 0:
            hist["balance_zeroed"] += 1
        if len(c[7]) > 0:
            nontrivial.add(c)
    ctx.coverage["bc_histogram"] = hist
    # the acceptance check's contract, on the implementation's own answers
    nok = 0
    for c, l in zip(ncss, impl_ncs):
        (ct, local, funder, v, s_, addl, fr, spike, lim, dust, hs) = c
        if l == "PANIC" or (ct == 2 and fr != 0):
            continue
        want = ref_ncs(ct, bool(local), bool(funder), v, s_, addl, fr, bool(spike), dust, [(bool(o), a) for (o, a) in hs])
        got = None if l == "Err" else tuple(int(x) for x in l.split()[1:3])
        nok += got is not None
        if want != got:
            fails.append({"kind": "get_next_commitment_stats breaks its contract (Ok iff the funder can pay anchors + fee; balances = what is left)",
                          "why": "implementation %s, contract %s" % (got, want),
                          "case_line": "ncs %d %d %d %d %d %d %d %d %d %d %d %s" % (ct, local, funder, v, s_, addl, fr, spike, lim, dust, len(hs), " ".join("%d %d" % h for h in hs)),
                          "impl": l})
    ctx.coverage["ncs_ok_cases"] = nok
    nab = 0
    for c, l in zip(abs_, impl_ab):
        why = judge_ab(c, l)
        nab += 1
        if why:
            (ct, funder, v, s_, fr, lim, maxdust, cc, hs) = c
            fails.append({"kind": "get_available_balances breaks the 'commitment keeps an output' contract", "why": why,
                          "case_line": "ab %d %d %d %d %d %d %d %s %d %s" % (ct, funder, v, s_, fr, lim, maxdust, " ".join(str(x) for x in cc), len(hs), " ".join("%d %d" % h for h in hs)),
                          "impl": l})
    # ---- model vs implementation
    dis = []
    if model_ok:
        exprs = []
        B = 250
        bch = chunks(bcs, B)
        for ch in bch:
            exprs.append("map show_bc [" + "; ".join("(%d,%d,%d,%d,%d,%d,%d,%s)" % (c[0], c[1], c[2], c[3], c[4], c[5], c[6], enc_hs(c[7])) for c in ch) + "]")
        fch = chunks(fees, 400)
        for ch in fch:
            exprs.append("map show_fee [" + "; ".join("(%d,%d,%d,%d,%d)" % c for c in ch) + "]")
        dch = chunks(dusts, 400)
        for ch in dch:
            exprs.append("map show_dust [" + "; ".join("(%d,%d,%d,%d,%d,%d)" % c for c in ch) + "]")
        nch = chunks(ncss, 250)
        for ch in nch:
            exprs.append("map show_ncs [" + "; ".join("(%d,%d,%d,%d,%d,%d,%d,%d,%d,%d,%s)" % (c[0], c[1], c[2], c[3], c[4], c[5], c[6], c[7], c[8], c[9], enc_hs(c[10])) for c in ch) + "]")
        ach = chunks(abs_, 250)
        for ch in ach:
            exprs.append("map show_ab [" + "; ".join("(%d,%d,%d,%d,%d,%d,%d,(%s),%s)" % (c[0], c[1], c[2], c[3], c[4], c[5], c[6], ",".join(str(x) for x in c[7]), enc_hs(c[8])) for c in ch) + "]")
        vals = ctx.coq_eval("corr_commit", COQ_IMPORTS, exprs, prelude=PRELUDE, shards=min(16, len(exprs)), timeout=1500)
        o = 0
        m_bc = [x for v in vals[o:o + len(bch)] for x in split_lists(v)]
        o += len(bch)
        m_fee = [x for v in vals[o:o + len(fch)] for x in split_lists(v)]
        o += len(fch)
        m_dust = [x for v in vals[o:o + len(dch)] for x in zs(v)]
        o += len(dch)
        m_ncs = [x for v in vals[o:o + len(nch)] for x in split_lists(v)]
        o += len(nch)
        m_ab = [x for v in vals[o:o + len(ach)] for x in split_lists(v)]
        if not (len(m_bc) == len(bcs) and len(m_fee) == len(fees) and len(m_dust) == len(dusts) and len(m_ncs) == len(ncss) and len(m_ab) == len(abs_)):
            ctx.violation("model evaluation returned a wrong number of results", {"broken": "correspondence:coq_eval", "n": [len(m_bc), len(m_fee), len(m_dust), len(m_ncs), len(m_ab)]}, False)
            return None, fails
        for c, m, r in zip(bcs, m_bc, impl_bc):
            if m == [-1] or m == [-2]:
                if r is not None:
                    dis.append({"topic": "build_commitment_transaction", "case_line": bc_line(c), "model": "PANIC(%d)" % m[0], "impl": r})
                continue
            if m[0] != 1:
                continue  # model says a debug build may overflow: not compared
            nk = m[6]
            mm = {"tb": m[1], "tc": m[2], "fee": m[3], "lb": m[4], "rb": m[5], "kept": m[7:7 + nk], "outs": m[7 + nk:]}
            if r is None or any(mm[k] != r[k] for k in mm):
                dis.append({"topic": "build_commitment_transaction", "case_line": bc_line(c), "model": mm, "impl": r})
        for c, m, r in zip(fees, m_fee, impl_fee):
            if m != r:
                dis.append({"topic": "fee functions", "case_line": "fee %d %d %d %d %d" % c, "model": m, "impl": r})
        for c, m, r in zip(dusts, m_dust, impl_dust):
            if m != r:
                dis.append({"topic": "is_dust", "case_line": "dust %d %d %d %d %d %d" % c, "model": m, "impl": r})
        npanic = 0
        for c, m, l in zip(ncss, m_ncs, impl_ncs):
            want = "PANIC" if m == [-1] else ("Err" if m == [0] else "Ok %d %d %d" % tuple(m[1:]))
            npanic += want == "PANIC"
            if want != l:
                dis.append({"topic": "get_next_commitment_stats", "case": list(c[:10]) + [list(c[10])], "model": want, "impl": l})
        for c, m, l in zip(abs_, m_ab, impl_ab):
            want = "PANIC" if m == [-1] else " ".join(str(x) for x in m)
            npanic += want == "PANIC"
            if want != l:
                dis.append({"topic": "get_available_balances", "case": list(c[:7]) + [list(c[7]), list(c[8])], "model": want, "impl": l})
        ctx.coverage["stats_cases_predicted_panic"] = npanic
    ctx.coverage["functional_cases"] = {"build_commitment_transaction": len(bcs), "fee": len(fees), "is_dust": len(dusts),
                                        "get_next_commitment_stats": len(ncss), "get_available_balances": len(abs_)}
    ctx.coverage["bc_distinct_nontrivial"] = len(nontrivial)
    k = len(bcs) // 2
    ctx.samples.append({"case_line": bc_line(bcs[k])[:300], "impl": impl_bc[k]})
    ctx.samples.append({"ncs_case": list(ncss[0][:10]), "impl": impl_ncs[0]})
    ctx.samples.append({"ab_case": list(abs_[0][:8]), "impl": impl_ab[0]})
    return dis, fails


def broken_placeholder(proved, dis, mdis=None):
    b = []
    if mdis:
        b.append("trace correspondence Model/ChanSys.v (%d disagreements)" % len(mdis))
    if not proved:
        b.append("Coq proof of Props/C01.v")
    if dis:
        b.append("correspondence h_commit (%d disagreements)" % len(dis))
    return b


KEY_HCORDER = "C01:holding-cell-add-before-fulfill-reserve-close"
KEY_DBGOVERDRAWN = "C01:debug-assert-overdrawn-on-concurrent-adds"
KEY_CLOSEDUST = "C01:coop-close-asymmetric-dust-signature-mismatch"
KEY_CLOSEMIN = "C01:coop-close-fundee-min-exceeds-funder-balance"
KEY_COOP = "C01:coop-close-fee-exceeds-funder-balance"
KEY_LIMIT = "C01:limit-not-accepted-by-funder-peer"


def funder_can_pay(ct, d, local, addl, feerate):
    """Balance clause of get_next_commitment_stats at a node whose HTLCs are all committed: can the funder
    pay anchors + commit_tx_fee(feerate, non-dust + addl) on the local / remote commitment?"""
    w = ref_weights(ct)
    dust = d["hd"] if local else d["cd"]
    htlcs = [(False, h[1]) for h in d["in"]] + [(True, h[1]) for h in d["out"]]
    nd = 0
    for (outbound, amt) in htlcs:
        offered = (outbound == local)
        if amt // 1000 >= dust + ref_htlc_tx_fee(ct, feerate, offered):
            nd += 1
    fee = feerate * (w["base"] + 172 * (nd + addl)) // 1000
    anch = 660 if ct == 1 else 0
    holder = d["self"] - sum(a for (o, a) in htlcs if o)
    cp = d["v"] * 1000 - d["self"] - sum(a for (o, a) in htlcs if not o)
    bal = holder if d["fund"] else cp
    return bal - anch * 1000 - fee * 1000 >= 0


def next_remote_view(d, fulfilled_out_ids):
    """(value_to_self_msat, HTLCs) of the peer's NEXT commitment as the node with dump `d` predicts it when it
    validates an incoming update_add_htlc (get_next_commitment_htlcs / get_next_commitment_value_to_self_msat with
    local = false, counterparty-unknown HTLCs excluded), optionally with some of its committed outbound HTLCs
    already fulfilled by the peer."""
    to_self = d["self"]
    hs = []
    for (hid, amt, cltv, h, st) in d["in"]:
        if st in (0, 1, 2, 3):
            hs.append((False, amt))
        elif st == 5:                      # LocalRemoved(Fulfill): gone from the peer's commitment, ours
            to_self += amt
    for (hid, amt, cltv, h, st) in d["out"]:
        if hid in fulfilled_out_ids and st == 1:
            to_self -= amt
        elif st in (1, 2, 3):              # Committed, RemoteRemoved (not yet acknowledged by us)
            hs.append((True, amt))
        elif st in (5, 7):                 # removal (success) already revoked-in: the peer's
            to_self -= amt
    return to_self, hs


def classify_known(rec, f):
    """Maps a trace-judge failure to the key of a known class of findings (or None). The class
    predicates are re-checked on the trace itself so that only that exact class is ever excused; any
    other failed cooperative close / refused in-limit HTLC stays an unlisted violation."""
    steps = rec.get("steps", [])
    ct = rec.get("cfg", {}).get("ct", 0)
    coop_panic = f["judge"] == "no-panic" and "value_to_holder >= 0" in f["why"]
    coop_err = f["judge"] == "b:no-error" and "Value to holder below 0" in f["why"]
    if (coop_panic or coop_err) and steps:
        # (1) the funder's whole-satoshi balance is strictly below its OWN minimum closing fee
        # (ChannelCloseMinimum estimate x closing weight, recomputed from the scripted estimator and the
        # observed shutdown scripts); nothing else pending
        k = len(steps) - 1 if coop_panic else max(0, f["step"] - 1)
        rg = T.closing_ranges(rec, steps, k)
        last = steps[k]
        d = [x for x in last["d"] if x is not None and x["fund"] == 1]
        if rg is not None and d and not d[0]["in"] and not d[0]["out"] and rg["bal_F"] < rg["F_min"]:
            return KEY_COOP
    if f["judge"] in ("b:no-error", "b:no-force-close") and ("Remote HTLC add would put them under remote reserve value" in f["why"]
                                                                or "Remote HTLC add would overdraw remaining funds" in f["why"]):
        # (3) a holding-cell batch [update_add.., update_fulfill.., commitment_signed] whose add is only payable
        # with the funds of a fulfill of the SAME batch: the peer validates the add before it sees the fulfill
        i = f["step"]
        s = steps[i]
        if s["l"].startswith("deliver") and s.get("msg") and s["msg"][0] == "add":
            x = int(s["l"].split()[1])
            y = 1 - x
            add_amt = s["msg"][2]
            batch = None
            for j in range(i - 1, -1, -1):
                if any(m[0] == "add" and m[1] == s["msg"][1] for m in steps[j]["em"][x]):
                    batch = steps[j]["em"][x]
                    break
            d = steps[i - 1]["d"][y]
            if batch and d is not None:
                kinds = [m[0] for m in batch]
                fulfilled = [m[1] for m in batch if m[0] == "fulfill"]
                if fulfilled and "add" in kinds and kinds.index("fulfill") > kinds.index("add"):
                    # the receiver's view of the sender's next commitment, as validate_update_add_htlc takes it
                    # (BOLT-2 inclusion by HTLC state: removals already irrevocable on that commitment are
                    # out and credited), without / with the fulfills of the same batch applied
                    fr = max(d["fr"], d["pfee"][0] if d["pfee"] else 0)
                    s1, hs = next_remote_view(d, ())
                    before = ref_ncs(ct, False, bool(d["fund"]), d["v"], s1, 0, fr, False, d["cd"], hs + [(False, add_amt)])
                    s2, hs2 = next_remote_view(d, fulfilled)
                    after = ref_ncs(ct, False, bool(d["fund"]), d["v"], s2, 0, fr, False, d["cd"], hs2 + [(False, add_amt)])
                    res = d["hres"] * 1000
                    if (before is None or before[1] < res) and after is not None and after[1] >= res:
                        return KEY_HCORDER
    if f["judge"] in ("b:no-error", "b:no-force-close") and "Invalid closing tx signature from peer" in f["why"]:
        # (5) cooperative close between peers with DIFFERENT dust limits, where one closing output lies
        # between the two limits: the node with the higher limit drops it (BOLT 3: "remove any output below
        # its own dust_limit_satoshis"), the other keeps it, the signatures never match
        i = f["step"]
        rg = T.closing_ranges(rec, steps, i - 1)
        fees = [m[1] for s in steps[:i + 1] for m in s["em"][0] + s["em"][1] if m[0] == "closing_signed"]
        if rg is not None and rg["dust"][0] != rg["dust"][1] and fees:
            lo, hi = min(rg["dust"]), max(rg["dust"])
            for fee in fees:
                for v_ in (rg["bal_F"] - fee, rg["bal_N"]):
                    if lo < v_ <= hi:
                        return KEY_CLOSEDUST
    if f["judge"] in ("b:no-error", "b:no-force-close") and "Peer sent a bogus closing_signed" in f["why"] and "was not in their desired range" in f["why"]:
        # (6) the NON-funder's minimum closing fee exceeds the funder's balance (while the funder's maximum does
        # not rule it out): the non-funder counter-proposes the funder's whole balance together with the inverted
        # range [its minimum, funder balance], which the funder rejects as bogus and force-closes
        rg = T.closing_ranges(rec, steps, f["step"] - 1)
        if rg is not None and rg["F_min"] <= rg["bal_F"] < rg["N_min"] <= rg["F_max"]:
            return KEY_CLOSEMIN
    if f["judge"] == "no-panic" and "some channel balance has been overdrawn" in f["why"] and "channel_state.rs" in f["why"] and steps:
        # (4) ChannelDetails::from_channel's debug_assert while BOTH sides have HTLC adds the other has not
        # yet acknowledged (concurrent adds whose total fee the funder cannot pay)
        d = steps[-1]["d"]
        if d[0] is not None and d[1] is not None:
            def unacked(dd):
                return any(h[4] == 0 for h in dd["out"]) or any(u[0] == 0 for u in dd["hc"])
            if unacked(d[0]) and unacked(d[1]):
                return KEY_DBGOVERDRAWN
    if f["judge"] == "e:limits-sound" and "in-sync peer" in f["why"] and ("ChannelBalanceOverdrawn" in f["why"] or "FeeSpikeBuffer" in f["why"]):
        # (2) sender is the non-funder, amount within [min, limit], peer in sync, graceful fail-back whose
        # only cause is the funder-receiver's extra fee-spike-buffer HTLC
        i = f["step"]
        s = steps[i]
        x = int(s["l"].split()[1])
        amt = int(s["l"].split()[2])
        d = s["d"][x]
        if d is None or d["fund"] != 0 or ct == 2 or s.get("sync") != 1 or not (s["min"] <= amt <= s["lim"]):
            return None
        j = i + 1
        unharmed = True
        recv_dump = None
        while j < len(steps) and (steps[j].get("probe") or "").endswith("-follow"):
            if steps[j]["errs"] or any(e[1] == "closed" for e in steps[j]["ev"]):
                unharmed = False
            if any(e[1] == "htlc_handling_failed" for e in steps[j]["ev"]) and recv_dump is None:
                recv_dump = steps[j - 1]["d"][1 - x]
            j += 1
        if not unharmed or recv_dump is None:
            return None
        fr = max(recv_dump["fr"], recv_dump["pfee"][0] if recv_dump["pfee"] else 0)
        without = funder_can_pay(ct, recv_dump, True, 0, fr) and funder_can_pay(ct, recv_dump, False, 0, fr)
        with_buf = funder_can_pay(ct, recv_dump, True, 1, fr) and funder_can_pay(ct, recv_dump, False, 1, fr)
        if without and not with_buf:
            return KEY_LIMIT
    return None


def trace_layer(ctx):
    """Real nodes under seeded schedules; the property's judges on every captured commitment."""
    if "h_chan" not in BINS:
        return []
    quick = ctx.tier == "quick"
    n, nl = (640, 60) if quick else (3200, 150)
    keep = 32 if quick else 200
    lines = T.gen_schedules(ctx.rng.fork("trace"), n, nl)
    tot = {}
    fails = []
    nontrivial = 0
    fam = {}
    nsteps = 0
    kept = {}
    sample = None
    for i, r in T.iter_harness(ctx, lines, "trace", timeout=1700):
        line = lines[i]
        fs, st = T.judge_trace(ref_commit, r)
        nsteps += len(r.get("steps", []))
        for k, v in st.items():
            if isinstance(v, dict):
                for kk, vv in v.items():
                    tot[k + ":" + kk] = tot.get(k + ":" + kk, 0) + vv
            else:
                tot[k] = tot.get(k, 0) + v
        if st.get("with_htlc", 0) > 0:
            nontrivial += 1
        f_ = line.split()[1].split("-")[0]
        fam[f_] = fam.get(f_, 0) + 1
        for f in fs[:1]:
            if len(fails) < 200:
                # keep only what classification / reporting needs
                fails.append((line, r, f))
        if i < keep:
            kept[i] = r
        if i == 0 and len(r.get("steps", [])) > 3:
            s3 = r["steps"][3]
            sample = {"trace_schedule": line[:200], "step3": {"label": s3["l"], "commits": s3["commits"][:1], "det": s3["det"]}}
    recs = [kept[i] for i in sorted(kept)]
    ctx.coverage["trace"] = {"schedules": len(lines), "max_labels": nl, "families": fam, "steps": nsteps, "judged": tot}
    ctx.coverage["trace_distinct_nontrivial"] = nontrivial
    ctx.trace_recs = recs
    if sample:
        ctx.samples.append(sample)
    return fails


def generate(ctx):
    metas, errors = gen.regen(ctx, ["TxBuilder", "ChanUtilsFees", "Consts"])
    meta2, err2 = _c01_gen.generate(ctx)
    if err2:
        errors = dict(errors)
        errors["C01Closing"] = err2
    else:
        ctx.gen_meta = list(getattr(ctx, "gen_meta", [])) + [dict(m, module="C01Closing") for m in meta2]
    return metas, errors


def _private_tmp(ctx):
    """Scratch files of a run against another tree (VERIF_REPO) must not collide with a concurrent run against
    /repo: ctx.tmp is keyed by the property only."""
    tag = getattr(core, "_REPO_TAG", "")
    if tag and not ctx.tmp.endswith(tag):
        ctx.tmp = ctx.tmp + tag
        os.makedirs(ctx.tmp, exist_ok=True)


def run(ctx):
    _private_tmp(ctx)
    ok_build, out = ctx.build_harness(BINS)
    if not ok_build:
        ctx.violation("harness does not build against the current tree", {"broken": "harness-build", "log_tail": out[-3000:]}, False)
        ctx.write_evidence(LEVEL)
        return
    gen_err = None
    try:
        metas, errors = generate(ctx)
        if errors:
            gen_err = "; ".join("%s: %s" % kv for kv in sorted(errors.items()))
    except Exception as ex:
        gen_err = "rs2v failed: %r" % (ex,)
    proved = False
    okm = False
    if gen_err is None:
        okm, outm = ctx.coq_make(["Model/CommitAmounts.vo", "Model/CoopClose.vo"])
        if not okm:
            ctx.log("model build failed:", outm[-1500:])
        proved = ctx.prove("C01")
    else:
        ctx.log("generation refused:", gen_err)
        ctx.obligations.append(("rs2v-generation", False, gen_err))
    ctx.trusted_base += [
        "Coq 8.16.1 kernel + vm_compute (no native_compute)",
        "tools/rs2v translation of lightning/src/sign/tx_builder.rs and the fee functions of ln/chan_utils.rs (regenerated every run; validated each run by functional correspondence)",
        "Model/CommitAmounts.v: hand transliteration of SpecTxBuilder::build_commitment_transaction (amounts), CommitmentTransaction output values and build_closing_transaction arithmetic, tied by functional correspondence through lightning feature _verif_hooks (sign::tx_builder::verif_hooks_c01)",
        "harness crate /verif/harness (h_commit, h_chan), LDK functional_test_utils and test signer",
        "tools/props/C01.py: BOLT-3 reference used as judge of the implementation's commitment outputs",
    ]
    ctx.assumptions += ["hooks call the same private functions the library calls (thin by-value wrappers)",
                        "zero-fee-commitment channels run at feerate 0 (debug_assert in the library)"]
    dis, fails = functional(ctx, okm)
    n_func = sum(ctx.coverage.get("functional_cases", {}).values())
    tfails = trace_layer(ctx)
    # protocol-layer model (Model/ChanSys.v) must reproduce the real traces step by step
    mdis = []
    if gen_err is None and getattr(ctx, "trace_recs", None):
        okc, outc = ctx.coq_make(["Model/ChanSys.vo"])
        if okc:
            try:
                nr, ns, mdis = T.model_correspondence(ctx, ctx.trace_recs, 32 if ctx.tier == "quick" else 200)
                ctx.coverage["model_replay"] = {"scenarios": nr, "steps": ns, "disagreements": len(mdis)}
            except Exception as ex:
                mdis = [{"scenario": "?", "step": -1, "what": "model replay failed: %r" % (ex,)}]
        else:
            mdis = [{"scenario": "?", "step": -1, "what": "Model/ChanSys.v does not build: " + outc[-800:]}]
    ctx.coverage["evaluations"] = n_func + ctx.coverage.get("trace", {}).get("steps", 0)
    ctx.coverage["distinct_nontrivial"] = ctx.coverage.get("bc_distinct_nontrivial", 0) + ctx.coverage.get("trace_distinct_nontrivial", 0)
    ctx.coverage["rule"] = "amount layer: distinct build_commitment_transaction inputs with at least one HTLC (set of full input tuples); trace layer: distinct (schedule, config) pairs that reach at least one signed commitment with an HTLC"
    ctx.coverage["translated_items"] = getattr(ctx, "gen_meta", [])
    # ---- decide (DESIGN.md §9)
    broken = []
    if not proved:
        broken.append({"obligation": "Coq proof of Props/C01.v", "detail": getattr(ctx, "proof_failure", {"where": gen_err})})
    if dis:
        broken.append({"correspondence": "h_commit vs Model/CommitAmounts.v + Gen/TxBuilder.v", "first_disagreements": dis[:5], "n": len(dis)})
    if mdis:
        broken.append({"correspondence": "h_chan real traces vs Model/ChanSys.v (per-step states and commitments)", "first_disagreements": mdis[:3], "n": len(mdis)})
    reported = set()
    found_any = False
    for (line, rec, f) in tfails:
        key = classify_known(rec, f)
        tag = key or f["judge"]
        if tag in reported:
            continue
        reported.add(tag)
        small = line
        if key is None:
            try:
                small = T.shrink(ctx, ref_commit, line, f["judge"], same_class=lambda r_, f_: classify_known(r_, f_) is None)
            except Exception as ex:  # shrinking is best effort
                ctx.log("shrink failed:", repr(ex))
        if key is None:
            found_any = True
        ctx.violation("C01 fails on real nodes (%s): %s" % (f["judge"], f["why"][:500]),
                      {"broken": broken_placeholder(proved, dis, mdis), "broken_detail": broken, "failing_input": {"schedule": small, "original_schedule": line, "step": f["step"], "judge": f["judge"], "why": f["why"]},
                       "replay_kind": "h_chan", "replay_cmd": "%s <file with the schedule line> <out>" % ctx.bin_path("h_chan")}, True, key=key)
    if fails:
        fails.sort(key=lambda x: len(x["case_line"]))
        f = fails[0]
        ctx.violation("C01 fails on the implementation: " + f["kind"] + ": " + f["why"],
                      {"broken": broken, "failing_input": f, "n_failing": len(fails), "replay_kind": "h_commit",
                       "replay_cmd": "printf '%s\\n' | %s" % (f["case_line"], ctx.bin_path("h_commit"))}, True)
    elif broken and not found_any:
        ctx.violation("C01 no longer shown: " + ("proof" if not proved else "correspondence") + " broken",
                      {"broken": broken, "search": "BOLT-3 judge on %d implementation outputs found no failing input" % n_func}, False)
    ctx.write_evidence(LEVEL)


def replay(ctx, rep):
    _private_tmp(ctx)
    f = rep.get("failing_input")
    if f and "schedule" in f:
        ok_build, out = ctx.build_harness(BINS)
        rec = T.run_harness(ctx, [f["schedule"]], "replay", shards=1)[0]
        fs, st = T.judge_trace(ref_commit, rec)
        print("schedule:", f["schedule"])
        for x in fs[:5]:
            print("judge  :", x["judge"], "step", x["step"], x["why"][:600])
        if not fs:
            print("judge  : ok")
        return 1 if fs else 0
    if not f or "case_line" not in f:
        print(json.dumps(rep, indent=1)[:4000])
        return 0
    ok_build, out = ctx.build_harness(BINS)
    rc, lines = ctx.run_bin("h_commit", f["case_line"] + "\n")
    lines = [l for l in lines if l != ""]
    print("input :", f["case_line"])
    print("output:", lines[:1])
    a = f["case_line"].split()
    nums = [int(x) for x in a[1:]]
    if a[0] == "ab":
        cc = tuple(nums[7:14])
        hs = tuple((nums[15 + 2 * i], nums[16 + 2 * i]) for i in range(nums[14]))
        why = judge_ab((nums[0], nums[1], nums[2], nums[3], nums[4], nums[5], nums[6], cc, hs), lines[0] if lines else "PANIC")
        print("judge :", why or "ok")
        return 1 if why else 0
    if a[0] == "ncs":
        hs = [(bool(nums[11 + 2 * i]), nums[12 + 2 * i]) for i in range(nums[10])]
        want = ref_ncs(nums[0], bool(nums[1]), bool(nums[2]), nums[3], nums[4], nums[5], nums[6], bool(nums[7]), nums[9], hs)
        got = None if (not lines or lines[0] in ("Err", "PANIC")) else tuple(int(x) for x in lines[0].split()[1:3])
        print("judge :", "ok" if want == got else "implementation %s, contract %s" % (got, want))
        return 0 if want == got else 1
    hs = tuple((nums[8 + 2 * i], nums[9 + 2 * i]) for i in range(nums[7]))
    why = judge_bc((nums[0], nums[1], nums[2], nums[3], nums[4], nums[5], nums[6], hs), parse_bc_line(lines[0]) if lines else None)
    print("judge :", why or "ok")
    return 1 if why else 0
