"""C10 helpers: scenario + crash-point enumeration, harness runner, and the judges that evaluate the
property text on what the real nodes did after each restart (harness/src/bin/h_restart.rs)."""
import json
import os
import subprocess

PERSISTENT_EVENTS = ("PaymentSent", "PaymentFailed", "PaymentPathSuccessful", "PaymentPathFailed", "PaymentClaimed",
                     "PaymentForwarded", "ChannelClosed", "PaymentClaimable", "HTLCHandlingFailed")


FAMILIES = ("collide", "claimed", "blocked", "random")


def gen_scenario(rng, crash, family=None):
    """A short payment scenario (send / forward over 4 nodes / receive / claim / fail, sync and async
    persistence, disconnections) in which node `crash` will be restarted. Returns (mode, ops).
    family: one of FAMILIES (the caller stratifies so that a small run still has every family) or None = draw."""
    relaxed = rng.chance(1, 4)
    if family is None:
        f = rng.below(10)
        family = "collide" if f < 3 else "claimed" if f < 5 else "blocked" if f < 7 else "random"
    if family == "collide":
        return ("relaxed" if relaxed else "strict"), gen_collide(rng, crash)
    if family == "claimed":
        return ("relaxed" if relaxed else "strict"), gen_closed_claim(rng, crash)
    if family == "blocked":
        return ("relaxed" if relaxed else "strict"), gen_blocked_snapshot(rng, crash)
    ops = []
    flavour = rng.below(4)
    npay = rng.range(1, 3)
    # amounts stay above the dust limit: a dust HTLC on a channel that has to be closed is burnt to fees whatever the
    # restart does (the recipient may hold the preimage while the sender sees the HTLC fail) — not C10's subject
    routes = [(0, 2), (2, 0), (0, 1), (1, 2), (2, 1), (1, 0), (0, 3), (3, 2), (1, 3), (3, 1), (2, 3)]
    for _ in range(npay):
        a, b = rng.choice(routes)
        ops.append("send %d %d %d" % (a, b, rng.choice([1000000, 3000000, 20000000])))
    if flavour >= 1:
        # asynchronous persistence at the node that will crash (so that writes are in flight at crash points)
        if flavour == 1:
            for _ in range(rng.range(2, 8)):
                ops.append("dany %d" % rng.below(4))
        ops.append("pmode %d async" % crash)
        for n in range(4):
            if n != crash and rng.chance(1, 4):
                ops.append("pmode %d async" % n)
    p_complete = rng.choice([4, 8, 14])
    length = rng.range(18, 40)
    for _ in range(length):
        r = rng.below(100)
        if 68 <= r < 80 and r >= 68 + p_complete:
            r = rng.below(45)
        if r < 45:
            ops.append("dany %d" % rng.below(6))
        elif r < 55:
            ops.append("fwdany %d" % rng.below(3))
        elif r < 65:
            ops.append("claim %d %d" % (rng.below(4), rng.below(2)))
        elif r < 68:
            ops.append(rng.choice(["fail %d %d" % (rng.below(4), rng.below(2)), "evhold %d on" % rng.below(4), "evhold %d off" % rng.below(4), "decode %d" % rng.below(4), "decode 1",
                                   "fc %d %d" % (rng.below(4), rng.below(3))]))
        elif r < 80:
            ops.append("cany %d" % rng.below(8))
        elif r < 84:
            ops.append("pmode %d async" % rng.below(4))
        elif r < 90:
            a, b = rng.choice(routes)
            ops.append("send %d %d %d" % (a, b, rng.choice([1000000, 3000000, 2000000])))
        elif r < 93:
            a, b = rng.choice([(0, 1), (1, 2), (1, 3)])
            ops.append("disc %d %d" % (a, b))
        elif r < 97:
            a, b = rng.choice([(0, 1), (1, 2), (1, 3)])
            ops.append("reconn %d %d" % (a, b))
        elif relaxed:
            ops.append("pnext %d %d" % (rng.below(4), rng.range(1, 2)))
        else:
            ops.append("completeall %d" % rng.below(4))
    return ("relaxed" if relaxed else "strict"), ops


def _run_to_claimable(ops, n=26):
    for i in range(n):
        ops.append("dany 0")
        if i % 3 == 2:
            ops.append("fwdany 0")
    ops += ["fwdany 0", "dany 0", "dany 0", "dany 0", "dany 0", "fwdany 0"]


def gen_collide(rng, crash):
    """Two inbound channels into the hub whose HTLC ids collide (ids start at 0 on every channel), one HTLC already
    forwarded over a channel that is force-closed before the restart, the other still queued in the manager
    (pending forward / pending receive, forwards not processed yet) when the snapshot is taken."""
    leaves = [0, 2, 3]
    for i in range(2, 0, -1):
        j = rng.below(i + 1)
        leaves[i], leaves[j] = leaves[j], leaves[i]
    src1, dst1, src2 = leaves  # HTLC1: src1 -> hub -> dst1 (forwarded, then hub<->dst1 closed); HTLC2: src2 -> hub -> ...
    ops = ["send %d %d %d" % (src1, dst1, rng.choice([1000000, 3000000]))]
    # add + commitment dance on the inbound channel, forward, dance on the outbound channel (HTLC1 committed at dst1)
    for i in range(rng.range(12, 20)):
        ops.append("dany 0")
        if i in (5, 6, 9):
            ops.append("fwd 1")
    # HTLC2 reaches the hub but is NOT forwarded yet (no fwd): same htlc id 0 on a different inbound channel
    dst2 = rng.choice([src1, 1, dst1])
    ops.append("send %d %d %d" % (src2, dst2, rng.choice([1000000, 2000000])))
    ops += ["dany 0"] * rng.range(4, 7)
    ops.append("decode 1")
    if rng.chance(1, 2):
        ops.append("send %d %d %d" % (src1, rng.choice([src2, 1]), 2000000))
        ops += ["dany 0"] * rng.range(3, 6)
        ops.append("decode 1")
    # the channel HTLC1 went out over is closed before the restart
    closer = rng.choice([1, dst1])
    ops.append("fc %d %d" % (closer, {0: 0, 2: 1, 3: 2}[dst1] if closer == 1 else 0))
    ops += ["dany 0"] * rng.range(0, 3)
    for _ in range(rng.range(0, 6)):
        ops.append(rng.choice(["dany 0", "fwdany 0", "claim %d 0" % dst1, "dany 1", "cany 0"]))
    return ops


def gen_closed_claim(rng, crash):
    """A payment sent (or forwarded) by the restarting node is claimed by the recipient while the channel it went over
    is (or gets) closed: PaymentSent / PaymentForwarded are regenerated from the closed channel's monitor after the
    restart; used with failing event handlers and a second crash before the manager is rewritten."""
    peer = rng.choice([0, 2, 3] if crash == 1 else [1])
    dst = peer if crash == 1 else rng.choice([x for x in (0, 2, 3) if x != crash] + [1])
    src = crash
    if crash == 1 and rng.chance(1, 2):
        # the restarting hub forwards instead of sending: PaymentForwarded is the regenerated event
        src = rng.choice([x for x in (0, 2, 3) if x != peer])
    ops = ["send %d %d %d" % (src, dst, rng.choice([1000000, 3000000]))]
    if rng.chance(1, 2):
        other = rng.choice([x for x in (0, 2, 3) if x != crash])
        ops.append("send %d %d %d" % (other, crash if rng.chance(1, 2) else rng.choice([y for y in (0, 1, 2, 3) if y != other]), 2000000))
    _run_to_claimable(ops, rng.range(14, 24))
    if rng.chance(3, 4):
        # the application is busy: the events raised by the claim are still unhandled at the crash
        ops.append("evhold %d on" % crash)
    ops.append("claim %d 0" % dst)
    ops += ["dany 0"] * rng.range(2, 6)
    first = peer if crash == 1 else 1
    idx = {0: 0, 2: 1, 3: 2}[first] if crash == 1 else 0
    ops.append("fc %d %d" % (crash, idx) if rng.chance(1, 2) else "dany 0")
    for _ in range(rng.range(2, 10)):
        ops.append(rng.choice(["dany 0", "dany 1", "fwdany 0", "cany 0", "claim %d 0" % dst]))
    return ops


def gen_blocked_snapshot(rng, crash):
    """Manager snapshots taken while monitor updates are HELD BACK in a channel (blocked_monitor_updates non-empty: the
    restarting node has not handled its PaymentSent / PaymentForwarded yet), with more traffic queueing behind the held
    update in both directions; then the application handles its events, the held updates are released and land in the
    monitor (synchronously, or asynchronously with the completion still outstanding), a little more happens. Together
    with the manager lags of the enumeration this gives every admissible lead of the monitor over such a snapshot: none
    of the held updates, some, exactly all of them, or more."""
    peer = rng.choice([0, 2, 3]) if crash == 1 else 1
    ops = []
    # the payment whose claim makes the blocker: sent by the restarting node, or forwarded by it (hub only)
    if crash == 1 and rng.chance(1, 2):
        src = rng.choice([y for y in (0, 2, 3) if y != peer])
        ops.append("send %d %d %d" % (src, peer, rng.choice([1000000, 3000000])))
    else:
        ops.append("send %d %d %d" % (crash, peer, rng.choice([1000000, 3000000])))
    _run_to_claimable(ops, rng.range(8, 14))
    ops.append("evhold %d on" % crash)
    ops.append("claim %d 0" % peer)
    ops += ["dany 0"] * rng.range(5, 8)
    # traffic behind the held update
    for _ in range(rng.range(0, 2)):
        a, b = (peer, crash) if rng.chance(2, 3) else (crash, peer)
        ops.append("send %d %d %d" % (a, b, rng.choice([1000000, 2000000])))
        ops += [rng.choice(["deliver %d %d" % (a, b), "dany 0"]) for _ in range(rng.range(1, 4))]
    if rng.chance(1, 3):
        ops.append("pmode %d async" % crash)
    ops.append(rng.choice(["evhold %d off" % crash, "events %d" % crash]))
    for _ in range(rng.range(1, 6)):
        ops.append(rng.choice(["dany 0", "dany 0", "cany 0", "dany 1", "fwdany 0"]))
    return ops


def probe_line(mode, ops, crash):
    return "%s crash=%d k=%d lag=0 mon=max pre=0 recrash=0 probe=1 ; %s" % (mode, crash, len(ops), " ; ".join(ops))


def enumerate_trials(rng, mode, ops, per_point, crash, event_steps=()):
    """All crash points of the scenario; per point a set of (lag, monitor choice, pre, recrash).
    event_steps: steps at which the crash node had user events pending (from a probe run): there the
    pre-drain snapshot is always included."""
    trials = []
    L = len(ops)
    for k in range(0, L + 1):
        lags = sorted(set(x for x in (0, 1, 2, 3, 5, 8, 13, k) if x <= k))
        combos = []
        for lag in lags:
            for mon in ("max", "min"):
                combos.append((lag, mon, 0, 0))
        combos.append((0, "max", 1, 0))
        combos.append((0, "min", 1, 0))
        combos.append((0, "mix%d" % rng.below(1000), 0, 1))
        combos.append((min(k, 2), "mix%d" % rng.below(1000), 0, 1))
        combos.append((min(k, rng.range(0, 6)), "mix%d" % rng.below(1000), 0, 0))
        # second crash BEFORE the manager is rewritten (the same stale bytes again), with and without lag
        combos.append((0, "max", 0, 2))
        combos.append((min(k, rng.range(1, 8)), "max", 0, 2))
        combos.append((min(k, rng.range(4, 16)), rng.choice(["max", "min"]), 0, 2))
        combos = sorted(set(combos))
        if per_point and len(combos) > per_point:
            # always keep the two extremes (and the pending-events snapshot where there are events), sample the rest
            keep = [c for c in combos if (c[0] in (0, k) and c[1] in ("max", "min") and c[2] == 0 and c[3] == 0) or c[3] == 2]
            if k in event_steps:
                keep += [c for c in combos if c[2] == 1]
            rest = [c for c in combos if c not in keep]
            while len(keep) < per_point and rest:
                keep.append(rest.pop(rng.below(len(rest))))
            combos = keep
        for (lag, mon, pre, rec) in combos:
            path = "legacy" if rng.chance(1, 2) else "recon"
            # the application's event handler fails (Err(ReplayEvent)) for one persistent event kind during the
            # first recovery: always together with a second crash on the stale manager, sometimes otherwise
            evfail = ""
            if rec == 2:
                evfail = "PaymentSent,PaymentFailed,PaymentForwarded,PaymentClaimed,PaymentPathSuccessful,PaymentPathFailed"
            elif rng.chance(1, 5):
                evfail = rng.choice(["PaymentSent", "PaymentFailed", "PaymentForwarded", "PaymentClaimed", "PaymentPathSuccessful",
                                     "PaymentSent,PaymentPathSuccessful", "ChannelClosed", "PaymentClaimable"])
            trials.append("%s crash=%d k=%d lag=%d mon=%s pre=%d recrash=%d path=%s evfail=%s ; %s" % (
                mode, crash, k, lag, mon, pre, rec, path, evfail, " ; ".join(ops)))
    return trials


def run_harness(bin_path, lines, tmpdir, tag, jobs=16, timeout=1700):
    os.makedirs(tmpdir, exist_ok=True)
    jobs = max(1, min(jobs, len(lines)))
    shards = [lines[i::jobs] for i in range(jobs)]
    procs = []
    for i, sh in enumerate(shards):
        inp = os.path.join(tmpdir, "%s_%d.in" % (tag, i))
        outp = os.path.join(tmpdir, "%s_%d.out" % (tag, i))
        with open(inp, "w") as f:
            f.write("\n".join(sh) + "\n")
        if os.path.exists(outp):
            os.remove(outp)
        procs.append((subprocess.Popen(["timeout", str(timeout), bin_path, inp, outp], stdout=subprocess.DEVNULL,
                                       stderr=subprocess.DEVNULL, cwd=tmpdir), outp, len(sh)))
    res = [None] * len(lines)
    for i, (p, outp, n) in enumerate(procs):
        rc = p.wait()
        got = []
        try:
            with open(outp) as f:
                for l in f:
                    l = l.strip()
                    if l.startswith("{"):
                        try:
                            got.append(json.loads(l))
                        except ValueError:
                            got.append({"panic": "unparsable result line", "phase": "harness"})
        except FileNotFoundError:
            pass
        for j in range(n):
            res[i + j * jobs] = got[j] if j < len(got) else {"panic": "harness died (rc=%s)" % rc, "phase": "harness"}
    return res


def judge(r):
    """Returns (violations, stats) for one trial result."""
    V = []
    st = {"handler_failures": 0, "recrash_stale_manager": 0, "scripted_fc": 0, "path_legacy": 0, "path_recon": 0, "path_default": 0,
          "stale_channels": 0, "resumed_channels": 0, "replayed_updates": 0, "closed_onchain": 0, "payments": 0,
          "payments_terminal": 0, "exempt_payments": 0, "redelivery_checked": 0, "recrash": 0, "lagged": 0, "inflight_at_crash": 0, "refused_checked": 0, "progress_probes": 0, "blocked_at_snapshot": 0, "blocked_landed": 0}

    def bad(j, what, key=None):
        V.append({"judge": j, "what": what, "key": key})

    # Known finding F6 (only on the not-yet-enabled load path that rebuilds the manager's HTLC maps from the
    # channels): a committed inbound HTLC whose failure (or claim) already sits in the channel's holding cell is
    # decoded and forwarded AGAIN after the reload, because inbound_htlcs_pending_decode() lacks the
    # "resolution pending in the holding cell" filter that inbound_forwarded_htlcs() has.
    f6 = r.get("path") == "recon" and any(s.get("mgr_holding_cell", 0) > 0 and s["mgr_latest"] >= s["mon"] for s in r.get("snap", []))
    f6key = "F6-recon-path-reforwards-htlc-with-resolution-in-holding-cell" if f6 else None
    # Known finding F7: the manager was written while monitor updates were held back in a channel
    # (blocked_monitor_updates non-empty, MONITOR_UPDATE_IN_PROGRESS set, nothing in flight); the held updates were then
    # released and ALL reached the monitor, nothing newer did; the node stopped before the next manager write. On reload
    # on_startup_drop_completed_blocked_mon_updates_through drops them, nothing is in flight, so no MonitorUpdatesComplete
    # is generated and nothing ever calls monitor_updating_restored: the channel stays frozen.
    f7_chans = set(s["chan"] for s in r.get("snap", []) if s.get("mgr_blocked") and s["mgr_latest"] >= s["mon"] >= max(s["mgr_blocked"])
                   and not any(i > s["mon"] for i in s["mgr_inflight"]))
    f7key = "F7-channel-stays-frozen-after-held-updates-landed-behind-the-managers-back" if f7_chans else None
    if r.get("panic"):
        bad("panic" if r.get("phase") not in ("reload", "recrash") else "read",
            "phase %s: %s" % (r.get("phase"), r["panic"][:400]),
            key=f6key if ("If we go to prune an inbound HTLC it should be present" in r["panic"]
                          or "We shouldn't claim duplicatively from a payment" in r["panic"]) else None)
        return V, st
    if not r.get("read_ok"):
        bad("read", "ChannelManager read did not succeed")
        return V, st
    if r.get("evfail"):
        st["handler_failures"] = len(r.get("handler_refused", []))
    st["path_" + r.get("path", "default")] = 1
    if r.get("recrash_mode") == 2:
        st["recrash_stale_manager"] = 1
    if r.get("recrash"):
        st["recrash"] = 1
        if not r.get("reread_ok"):
            bad("read", "ChannelManager read after the second crash did not succeed")
    if r.get("lag", 0) > 0:
        st["lagged"] = 1
    x = r["crash"]
    after = dict((a["chan"], a) for a in r["after_first"])
    outdated = set(c for (n, c, why) in r["closed"] if n == x and why == "OutdatedChannelManager")
    # ---- staleness decision and in-flight replay
    for s in r["snap"]:
        chan = s["chan"]
        if s["mgr_latest"] < 0:
            continue
        a = after.get(chan)
        disk = [d for d in r["disk"] if d["chan"] == chan][0]
        if disk["handed"] > disk["completed"]:
            st["inflight_at_crash"] += 1
        if s["mgr_blocked"]:
            # manager written while updates were held back in the channel; "landed" = the monitor already has some of them
            st["blocked_at_snapshot"] += 1
            if s["mon"] >= min(s["mgr_blocked"]):
                st["blocked_landed"] += 1
        stale = s["mgr_latest"] < s["mon"]
        if stale:
            st["stale_channels"] += 1
            if chan not in outdated:
                bad("stale", "chan %s: manager at update %d is older than its monitor at %d but the channel was not closed as OutdatedChannelManager" % (chan, s["mgr_latest"], s["mon"]))
            if a and a["open"]:
                bad("stale", "chan %s: stale channel (manager %d < monitor %d) was resumed" % (chan, s["mgr_latest"], s["mon"]))
            ups = a.get("updates", []) if a else []
            if not ups or ups[0][0] != s["mon"] + 1 or ups[0][1] != ["ChannelForceClosed"]:
                bad("stale", "chan %s: first update after reload is %s, expected ChannelForceClosed with the monitor's id + 1 = %d" % (chan, ups[:1], s["mon"] + 1))
            for j in range(1, len(ups)):
                if ups[j][0] != ups[j - 1][0] + 1:
                    bad("stale", "chan %s: post-close update ids not consecutive: %s" % (chan, [u[0] for u in ups]))
        else:
            st["resumed_channels"] += 1
            # (a second crash on the same manager bytes may find the channel stale by then: the monitors moved on)
            # and a channel the live node had force-closed between the snapshot and the crash is compared by commitment
            # numbers too (the close renumbers the dropped blocked updates): closing it again is harmless
            if chan in outdated and not (r.get("recrash_mode") == 2 and a and a["open"]) and disk.get("open_at_crash", True):
                bad("stale", "chan %s: manager at update %d is not older than its monitor at %d but the channel was closed as OutdatedChannelManager" % (chan, s["mgr_latest"], s["mon"]))
            want = max([s["mon"]] + [i for i in s["mgr_inflight"]])
            st["replayed_updates"] += len([i for i in s["mgr_inflight"] if i > s["mon"]])
            if a and a["open"] and a["mon_id"] < want:
                bad("replay", "chan %s: in-flight updates %s not replayed: monitor at %d after the first recovery step, expected >= %d" % (chan, s["mgr_inflight"], a["mon_id"], want))
            if a and a["open"]:
                ups = [u[0] for u in a.get("updates", [])]
                expect = [i for i in s["mgr_inflight"] if i > s["mon"]]
                if ups[:len(expect)] != expect:
                    bad("replay", "chan %s: updates handed to the watch after reload %s, expected the replay of %s first (monitor at %d)" % (chan, ups, expect, s["mon"]))
                for j in range(len(ups)):
                    if ups[j] != s["mon"] + 1 + j:
                        bad("replay", "chan %s: update ids after reload not consecutive from the monitor's id %d: %s" % (chan, s["mon"], ups))
                        break
    evs = r.get("all_events", [])
    # Known finding F4: before the crash the node force-closed a channel (its own decision or the peer's error) while
    # monitor updates of that channel were still in flight; applying ChannelForceClosed broadcasts the LATEST holder
    # commitment from the in-memory monitor at once. If the in-flight writes never land, the monitor read back after the
    # crash does not know the commitment transaction that is on chain and cannot resolve its HTLCs.
    n_after0 = len(r.get("events_after", []))
    before0 = evs[:len(evs) - n_after0] if n_after0 <= len(evs) else []
    f4_chans = set()
    for d in r["disk"]:
        if d["chosen"] < d["handed"] and (not d.get("open_at_crash", True) or any(e[0] == x and e[1] == "ChannelClosed" and e[2].startswith(d["chan"]) for e in before0)):
            f4_chans.add(d["chan"])
    f4key = "F4-holder-commitment-broadcast-from-unpersisted-monitor-state" if f4_chans else None
    # ---- no collateral damage: a channel may close only because its manager state was stale, because the scenario
    # force-closed it, or as the peer's reaction to either
    stale_chans = set(s["chan"] for s in r["snap"] if 0 <= s["mgr_latest"] < s["mon"])
    allowed = stale_chans | set(r.get("scripted_fc", []))
    if r.get("scripted_fc"):
        st["scripted_fc"] = 1
    # a second crash on the same stale manager may find further channels stale: the monitors moved on meanwhile
    if r.get("recrash_mode") == 2:
        allowed |= outdated
    for (n, c, why) in r["closed"]:
        if c not in allowed:
            bad("collateral", "node %d closed chan %s (%s) although it was neither stale nor closed by the scenario: an HTLC was lost or left unresolved" % (n, c, why[:90]),
                key=f4key)
    # ---- payments
    evs = r.get("all_events", [])
    closed_any = bool(r["closed"])
    if closed_any:
        st["closed_onchain"] = 1
    for p in r["payments"]:
        st["payments"] += 1
        tag = p["tag"]
        sent = [e for e in evs if e[0] == p["from"] and e[1] == "PaymentSent" and e[2] == tag]
        failed = [e for e in evs if e[0] == p["from"] and e[1] == "PaymentFailed" and e[2] == tag]
        claimed_ev = [e for e in evs if e[0] == p["to"] and e[1] == "PaymentClaimed" and e[2] == tag]
        # Known finding F3: the payment was fulfilled and PaymentSent handled BEFORE the crash; the restored manager
        # snapshot predates the fulfil, the monitor has already forgotten the resolved HTLC, the stale channel is closed
        # and the "HTLC missing in the ChannelMonitor" path fails the payment a second time.
        n_after = len(r.get("events_after", []))
        before = evs[:len(evs) - n_after] if n_after <= len(evs) else []
        sent_before = [e for e in before if e[0] == p["from"] and e[1] == "PaymentSent" and e[2] == tag]
        failed_after = [e for e in r.get("events_after", []) if e[0] == p["from"] and e[1] == "PaymentFailed" and e[2] == tag]
        f3 = bool(p["from"] == x and sent_before and failed_after and p["first_chan"] in stale_chans and p["sent_step"] <= r["k"] - r["lag"])
        f3key = "F3-payment-failed-after-sent-when-stale-manager-predates-fulfil" if f3 else None
        # Known finding F5: the stale manager snapshot still had HTLCs in the holding cell of a channel that is now
        # closed as OutdatedChannelManager. force_shutdown() returns them as dropped_outbound_htlcs and the read path
        # fails them backwards without asking the (newer) ChannelMonitor, which knows that they were committed to the
        # counterparty afterwards: the counterparty can still claim them.
        through_x = p["from"] == x or (x == 1 and p["to"] != 1)
        f5 = through_x and any(s.get("mgr_holding_cell", 0) > 0 and 0 <= s["mgr_latest"] < s["mon"] for s in r["snap"])
        if f3key is None and f5:
            f3key = "F5-stale-manager-fails-holding-cell-htlc-the-monitor-knows-as-committed"
        if f3key is None and f6 and (x == 1 and p["from"] != 1 and p["to"] != 1):
            f3key = f6key
        f7pay = f7key if (f7key and (p["from"] == x or p["to"] == x or x == 1)) else None
        if sent and failed:
            bad("payment", "payment %s got both PaymentSent and PaymentFailed%s" % (tag, " (PaymentSent before the crash, PaymentFailed after restarting from a manager snapshot older than the fulfil)" if f3 else ""), key=f3key)
        if sent and tag not in r["claim_ops"]:
            bad("payment", "payment %s reported sent although the recipient never claimed it" % tag)
        if failed and claimed_ev:
            bad("payment", "payment %s failed at the sender although the recipient was told PaymentClaimed" % tag, key=f3key)
        if sent or failed:
            st["payments_terminal"] += 1
            continue
        # no terminal event: allowed only when the sender is the crashed node and nothing durable knew the payment
        if p["from"] == x:
            j = r["k"] - r["lag"]
            in_snapshot = p["sent_step"] <= j and not (r["pre"] and False)
            if not in_snapshot:
                st["exempt_payments"] += 1
                continue
        bad("payment", "payment %s (%d->%d, sent at step %d) reached no terminal event after the restart (crash node %d, k=%d lag=%d)%s" % (
            tag, p["from"], p["to"], p["sent_step"], x, r["k"], r["lag"],
            " [channel(s) %s were force-closed before the crash from a monitor state that never became durable]" % sorted(f4_chans) if f4_chans else ""),
            key=f4key or f7pay)
    # ---- events pending in the snapshot are delivered again
    if r.get("expect_events"):
        got = [(e[1], e[2]) for e in r["events_after"] if e[0] == x]
        # handling an event that carries a completion action (PaymentSent, PaymentForwarded, PaymentClaimed) can raise
        # further events within the same get_and_clear_pending_events call (the released monitor update completes and
        # e.g. PaymentPathSuccessful is queued): only the events up to and including the first such event are known to
        # have been in the serialized manager
        expect = []
        for (name, detail) in r["expect_events"]:
            expect.append((name, detail))
            if name in ("PaymentSent", "PaymentForwarded", "PaymentClaimed"):
                break
        for (name, detail) in expect:
            if name not in PERSISTENT_EVENTS:
                continue
            st["redelivery_checked"] += 1
            if (name, detail) in got:
                got.remove((name, detail))
            else:
                bad("events", "event %s %s was pending in the serialized ChannelManager but was not delivered again after the restart" % (name, detail))
    # ---- an event the application's handler refused (Err(ReplayEvent)) is not lost: it is handed to the handler
    # again, also when the node crashes once more before the manager is rewritten
    after_x = [(e[1], e[2]) for e in r.get("events_after", []) if e[0] == x]
    for ref in r.get("handler_refused", []):
        if len(ref) < 3 or ref[1] not in ("PaymentSent", "PaymentFailed", "PaymentClaimed", "PaymentForwarded"):
            continue
        st["refused_checked"] += 1
        if (ref[1], ref[2]) not in after_x:
            bad("events", "event %s %s was refused by the event handler (Err(ReplayEvent)) during recovery and never delivered again" % (ref[1], ref[2]))
    # ---- progress: after recovery every channel of the restarted node that is still usable carries a fresh payment in
    # each direction (a channel left frozen for ever would keep them in its holding cell)
    for pr in r.get("probes", []):
        st["progress_probes"] += 1
        if pr["completed_by"] != "alone":
            fv = [v for v in r.get("final_view", []) if v["chan"] == pr["chan"]]
            how = {"never": "never completed, not even after timer ticks, a reconnection and a payment from the peer",
                   "tick": "completed only after timer ticks", "reconnect": "completed only after a disconnection and reconnection",
                   "peer_traffic": "stayed in the holding cell through timer ticks and a reconnection and moved only when the PEER sent an HTLC of its own"}[pr["completed_by"]]
            bad("progress", "after the recovery a fresh payment %d->%d over the usable chan %s %s (restarted node %d; MONITOR_UPDATE_IN_PROGRESS after the attempt: %s; view at the end: %s)" % (
                pr["from"], pr["to"], pr["chan"], how, x, pr.get("mip_after_alone"), fv),
                key=f4key or (f7key if pr["chan"] in f7_chans else None))
    # ---- after everything: nothing stuck when no channel had to go on chain
    for c in r["final_chans"]:
        if c["in"] or c["out"]:
            bad("stuck", "node %d chan %s still has %d/%d HTLCs pending after recovery (and on-chain resolution of closed channels)" % (c["n"], c["chan"], c["in"], c["out"]),
                key=f4key or (f7key if (c["chan"] in f7_chans or x == 1) else None))
    if not closed_any:
        # errors sent before the crash belong to the scenario (a scripted force-close whose own close did not survive)
        new_errs = r["errs"][len(r.get("prefix_errs", [])):]
        if new_errs:
            bad("errors", "protocol errors although no channel was stale: " + "; ".join(new_errs[:2])[:300], key=f4key)
    return V, st


def summarize(r):
    keep = ("crash", "k", "lag", "mon", "pre", "recrash", "recrash_mode", "path", "evfail", "handler_refused", "scripted_fc", "disk", "snap", "read_ok", "after_first", "closed", "phase", "panic")
    return dict((k, r.get(k)) for k in keep if k in r)
