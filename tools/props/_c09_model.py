"""C09 trace correspondence: map every real trace of h_monupd to labels of coq/Model/MonUpd.v (one
model instance per (node, channel)), let the model replay them (coq/Model/MonUpdTrace.v `check`) and
compare after every real step: latest_monitor_update_id, the MONITOR_UPDATE_IN_PROGRESS /
AWAITING_REMOTE_REVOKE / PEER_DISCONNECTED flags, monitor_pending_{raa,cs,channel_ready}, resend order,
holding-cell size, pending forwards/actions, blocked ids, the manager's in-flight ids, the ChainMonitor's
pending ids, the updates handed to the watch (ids AND step kinds) and the released
revoke_and_ack / commitment_signed / channel_ready sequence and funding broadcasts.

Label parameters that depend on HTLC-level state the model does not have (does a commitment_signed
require one of ours, did the holding cell produce anything, was an RAA's update held by a blocker, what
did the peer's channel_reestablish ask for) are read off the implementation's behaviour in that step;
everything else (ids, renumbering, flags, queues, what is released when, in which order) is predicted
by the model."""
import re

from props import _c09_trace as T

KCODE = {"LatestHolderCommitmentTXInfo": 1, "LatestHolderCommitment": 1, "LatestCounterpartyCommitmentTXInfo": 2,
         "LatestCounterpartyCommitment": 2, "CommitmentSecret": 3, "PaymentPreimage": 4, "ShutdownScript": 5}
FIELD = {1: "latest_monitor_update_id", 2: "MONITOR_UPDATE_IN_PROGRESS", 3: "AWAITING_REMOTE_REVOKE", 4: "PEER_DISCONNECTED",
         5: "monitor_pending_revoke_and_ack", 6: "monitor_pending_commitment_signed", 7: "monitor_pending_channel_ready",
         8: "resend_order", 9: "holding cell size", 10: "monitor_pending forwards/failures/finalized/update_adds", 11: "monitor_update_blocked_actions",
         12: "ChannelReady state", 20: "blocked_monitor_updates ids", 21: "in_flight_monitor_updates", 22: "ChainMonitor pending_monitor_updates",
         30: "updates handed to chain::Watch (ids, step kinds)", 31: "released revoke_and_ack/commitment_signed/channel_ready sequence",
         32: "funding broadcast", 33: "model rejected a label the implementation accepted"}
COQ_IMPORTS = ["LdkV.Prim.U64", "LdkV.Model.MonUpd", "LdkV.Model.MonUpdTrace"]


def b(x):
    return "true" if x else "false"


def zl(xs):
    return "[" + "; ".join(str(int(x)) for x in xs) + "]"


def vd(inprog):
    return "VInProgress" if inprog else "VCompleted"


def hold_of(v):
    return v["hc"] + (1 if v["hcfee"] else 0)


def npend(v):
    return v["pfwd"] + v["pfail"] + v["pfin"] + v["padds"]


class Inst:
    def __init__(self, n, chan, peer, init_expr, start_step):
        self.n, self.chan, self.peer = n, chan, peer
        self.init = init_expr
        self.start = start_step
        self.steps = []      # (labels, expected...) as Coq text
        self.real_steps = []  # trace step numbers
        self.dead = False
        self.prev = None


def build_instances(trace, meta):
    """Returns list of Inst with their rstep lists. None if the trace is not usable (aborted)."""
    steps = trace[:-1]
    insts = {}
    deferred = meta["deferred"]
    for rec in steps:
        k = rec["step"]
        op = rec["op"].split()
        applied = rec["applied"]
        views = dict(((v["n"], v["chan"]), v) for v in rec["v"])
        # new instances
        for (n, chan), v in views.items():
            if (n, chan) in insts:
                continue
            if not v.get("open"):
                continue
            if k == 0:
                inst = Inst(n, chan, v["peer"], "init_open %d %s" % (v["latest"], b(deferred)), k)
                inst.prev = v
                insts[(n, chan)] = inst
                continue
            # channel created during the trace: starts at its watch_channel call
            newp = [p for p in rec["p"] if p[0] == n and p[1] == chan and p[3]]
            if not newp:
                continue
            d = rec.get("d")
            funder = bool(d and d[2] == "funding_signed")
            inst = Inst(n, chan, v["peer"], "init_new %d %s %s" % (newp[0][2], b(newp[0][4]), b(funder)), k)
            inst.prev = None
            insts[(n, chan)] = inst
        for (n, chan), inst in insts.items():
            if inst.dead:
                continue
            v = views.get((n, chan))
            if v is None or not v.get("open") or rec.get("panic"):
                inst.dead = True
                continue
            if inst.prev is None:
                # the creation step itself: only the state is compared
                labels = []
                inst.prev = dict(v, hc=0)
                P = inst.prev
                exp_w, exp_rel, exp_bc = None, None, None
            else:
                P = inst.prev
            N = v
            ws = [w for w in rec["w"] if w[0] == n and w[1] == chan]
            verdict = {}
            for p in rec["p"]:
                if p[0] == n and p[1] == chan and not p[3]:
                    verdict[p[2]] = p[4]
            if any(kd not in KCODE for w in ws for kd in w[3]):
                inst.dead = True  # closing / splice steps: outside the model
                continue

            def v_of(i):
                # deferred mode: the verdict is given at flush time
                return vd(verdict.get(i, True))

            labels = []
            used = 0  # updates consumed by the main labels
            d = rec.get("d")
            main = None
            if k == inst.start and inst.init.startswith("init_new"):
                # a 0-conf channel is "locked" the moment it is funded
                labels = ["LFundingLocked false"] if meta.get("zeroconf") else []
            elif op[0] == "send" and applied:
                route_first = first_hop(op, n, inst)
                if route_first and (ws or hold_of(N) > hold_of(P)):
                    labels.append("LSend %s" % v_of(ws[0][2] if ws else -1))
                    used = 1 if ws else 0
                    main = "send"
            elif op[0] == "close" and applied and len(op) > 2 and int(op[1]) % NN(views) == n and N["latest"] != P["latest"] or (
                    op[0] == "close" and applied and int(op[1]) % NN(views) == n and any(m[0] == n and m[3] == chan and m[2] == "shutdown" for m in rec["m"])):
                script = bool(ws) or N["latest"] != P["latest"]
                labels.append("LShutdown true %s %s" % (b(script), v_of(ws[0][2] if ws else -1)))
                used = 1 if ws else 0
                main = "shutdown"
            elif op[0] == "claim" and applied and ws and "PaymentPreimage" in ws[0][3]:
                labels.append("LClaim %s" % v_of(ws[0][2]))
                used = 1
                main = "claim"
            elif op[0] in ("deliver", "dany", "deliverall") and d and d[1] == n:
                kind = d[2]
                if d[3] == chan:
                    if kind == "commitment_signed":
                        if N["latest"] != P["latest"] or ws:
                            need = N["arr"] and not P["arr"]
                            labels.append("LRecvCS %s %s" % (b(need), v_of(ws[0][2] if ws else -1)))
                            used = 1 if ws else 0
                            main = "cs"
                    elif kind == "revoke_and_ack":
                        if N["latest"] != P["latest"] or ws:
                            held = (not P["blocked"]) and bool(N["blocked"]) and not ws
                            can = (not P["mip"]) and (not P["pd"])
                            if N["arr"]:
                                drop_all, req = (False, True)
                            else:
                                drop_all, req = (True, False)
                            restored_now = not N["mip"]
                            nf = 0 if restored_now else max(0, npend(N) - npend(P))
                            labels.append("LRecvRAA %s %s %s %d %s" % (b(held), b(drop_all), b(req), nf, v_of(ws[0][2] if ws else -1)))
                            used = 1 if ws else 0
                            main = "raa"
                    elif kind == "channel_reestablish":
                        rel = rel_of(rec, n, chan)
                        need_raa = (1 in rel) or (P["mip"] and N["praa"])
                        # a commitment_signed that belongs to a holding-cell update completed in this very step is not a
                        # retransmission
                        fresh_cs = len([w for w in ws if any(KCODE[x] == 2 for x in w[3]) and not verdict.get(w[2], True)])
                        need_cs = (rel.count(2) - fresh_cs > 0) or (P["mip"] and N["pcs"] and not P["pcs"])
                        both = 3 in rel
                        if P["pd"]:
                            labels.append("LReestablish %s %s %s" % (b(need_raa), b(need_cs), b(both)))
                            main = "reest"
                    elif kind == "channel_ready":
                        labels.append("LRecvChannelReady")
                    elif kind == "shutdown" and not rec["errs"]:
                        script = (bool(ws) and "ShutdownScript" in ws[0][3]) or (N["latest"] != P["latest"] and not ws)
                        labels.append("LShutdown false %s %s" % (b(script), v_of(ws[0][2] if ws else -1)))
                        used = 1 if (ws and "ShutdownScript" in ws[0][3]) else 0
                        main = "shutdown"
                elif kind == "update_fulfill_htlc" and ws and "PaymentPreimage" in ws[0][3]:
                    labels.append("LClaim %s" % v_of(ws[0][2]))
                    used = 1
                    main = "claim"
            elif op[0] == "disc" and applied and n in (int(op[1]), int(op[2])) and inst.peer in (int(op[1]), int(op[2])):
                labels.append("LDisconnect")
            elif op[0] in ("complete", "cany", "completeall") and applied:
                for c in rec["c"]:
                    if c[0] == n and c[1] == chan:
                        labels.append("LComplete %d" % c[2])
                labels.append("LEvents")
            elif op[0] == "flush" and applied:
                for p in rec["p"]:
                    if p[0] == n and p[1] == chan and not p[3]:
                        labels.append("LFlush %s" % vd(p[4]))
                labels.append("LEvents")
            elif op[0] == "confirm" and applied:
                # the funding reached the required depth on every node (the label is a no-op when the channel
                # already recorded OUR_CHANNEL_READY); with the peer disconnected nothing is sent and nothing is
                # flagged, only the state bit changes
                labels.append("LFundingLocked true")
            self_disc = N["pd"] and not P["pd"] and "LDisconnect" not in labels
            # blocked updates released by a completion on another channel
            if main is None and len(N["blocked"]) < len(P["blocked"]):
                for j in range(len(P["blocked"]) - len(N["blocked"])):
                    if used < len(ws):
                        labels.append("LUnblock %s" % v_of(ws[used][2]))
                        used += 1
            # holding cell reconciliation
            if main != "raa":
                h_mid = hold_of(P)
                if main == "send" and not ws:
                    h_mid += 1
                if main == "shutdown":
                    # get_shutdown / shutdown drop the queued adds and the queued fee update; which entries those are
                    # is the model's knowledge (it tracks the item kinds), the size is compared afterwards
                    h_mid = min(h_mid, hold_of(N))
                if main == "claim" and ws and "LatestCounterpartyCommitmentTXInfo" not in ws[0][3] and "LatestCounterpartyCommitment" not in ws[0][3]:
                    h_mid += 1
                for w in ws[used:]:
                    if h_mid == 0:
                        labels.append("LQueue HAdd")
                    labels.append("LFreeHold false %s" % v_of(w[2]))
                    h_mid = 0
                    used += 1
                hn = hold_of(N)
                if hn > h_mid:
                    # kinds of the newly queued entries: the fee update, then as many adds as the AddHTLC count grew by
                    # (a send queued above is already counted), the rest are fails
                    fee_new = N["hcfee"] and not P["hcfee"]
                    adds = (hn - h_mid) if N.get("hca") is None or P.get("hca") is None else max(
                        0, N["hca"] - P["hca"] - (1 if (main == "send" and not ws) else 0))
                    for j in range(hn - h_mid):
                        if fee_new and j == 0:
                            labels.append("LQueue HFee")
                        elif adds > 0:
                            labels.append("LQueue HAdd")
                            adds -= 1
                        else:
                            labels.append("LQueue HFail")
                elif hn < h_mid:
                    labels.append("LFreeHold true VInProgress")
            # closing_signed leaving: the model must agree that the negotiation may proceed
            if 5 in rel_of(rec, n, chan):
                labels.append("LClosing true")
            # a duplicate claim only queues (or runs) its completion action
            if N["acts"] > P["acts"] and main != "claim":
                for j in range(N["acts"] - P["acts"]):
                    labels.append("LDupClaim")
            # a disconnection the library decided on its own (timer ticks), after everything else in the tick
            if self_disc:
                labels.append("LDisconnect")
            # expected observations
            sc = [N["latest"], int(N["mip"]), int(N["arr"]), int(N["pd"]), int(N["praa"]), int(N["pcs"]), int(N["pcr"]),
                  int(N["raa_first"]), hold_of(N), npend(N), N["acts"], int(N["ready"])]
            wl = "[" + "; ".join("(%d, %s)" % (w[2], zl(KCODE[x] for x in w[3])) for w in ws) + "]"
            rel = rel_of(rec, n, chan)
            bc = len([x for x in rec["b"] if x[0] == n and x[1] == "funding"])
            if k == inst.start and inst.init.startswith("init_new"):
                # outputs of the creation step belong to init_new_outs
                if not meta.get("zeroconf"):
                    rel = []
                bc = 0
                wl = "[]"
            inst.steps.append("([%s], %s, %s, %s, %s, %s, %s, %d)" % ("; ".join(labels), zl(sc), zl(N["blocked"]), zl(N["inflight"]),
                                                                       zl(N["cm"]), wl, zl(rel), bc))
            inst.real_steps.append(k)
            inst.prev = N
    return list(insts.values())


def NN(views):
    return 1 + max(k[0] for k in views)


def first_hop(op, n, inst):
    a, bb = int(op[1]), int(op[2])
    if a != n:
        return False
    hop = 1 if (a, bb) in ((0, 2), (2, 0)) else bb
    return inst.peer == hop


def rel_of(rec, n, chan):
    out = []
    for m in rec["m"]:
        if m[0] == n and m[3] == chan:
            if m[2] == "revoke_and_ack":
                out.append(1)
            elif m[2] == "commitment_signed":
                out.append(2)
            elif m[2] == "channel_ready":
                out.append(3)
            elif m[2] == "closing_signed":
                out.append(5)
    return out


def correspondence(ctx, lines, traces, limit=None):
    """Returns list of disagreements (dicts). Records coverage in ctx."""
    from vlib import core
    exprs = []
    index = []
    nsteps = 0
    for ti, (line, tr) in enumerate(zip(lines, traces)):
        if not tr or tr[-1].get("aborted") or any(r.get("panic") for r in tr[:-1]):
            continue
        head = T.split_schedule(line)[0].split()
        meta = {"deferred": len(head) > 2 and head[2] == "def", "zeroconf": "zeroconf" in head}
        for inst in build_instances(tr, meta):
            if not inst.steps:
                continue
            exprs.append("check 0 (%s) [%s]" % (inst.init, "; ".join(inst.steps)))
            index.append((ti, inst))
            nsteps += len(inst.steps)
        if limit and len(exprs) >= limit:
            break
    if not exprs:
        return []
    vals = ctx.coq_eval("corr_monupd", COQ_IMPORTS, exprs, shards=core.NPROC, timeout=1500)
    dis = []
    for (ti, inst), v in zip(index, vals):
        m = re.match(r"\(\s*(-?\d+)\s*,\s*(-?\d+)\s*\)", v)
        if not m:
            dis.append({"trace": ti, "node": inst.n, "chan": inst.chan, "error": "unparsable model answer " + v[:100]})
            continue
        i, f = int(m.group(1)), int(m.group(2))
        if i >= 0:
            rs = inst.real_steps[i]
            dis.append({"trace": ti, "schedule": lines[ti], "node": inst.n, "chan": inst.chan, "real_step": rs, "field": FIELD.get(f, f),
                        "labels": inst.steps[i].split("],")[0][2:], "impl": [T.summarize_step(r) for r in traces[ti][:-1] if r["step"] == rs],
                        "inst_index": i, "init": inst.init})
    ctx.coverage["model_instances_replayed"] = len(exprs)
    ctx.coverage["model_steps_compared"] = nsteps
    ctx.coverage["model_disagreements"] = len(dis)
    return dis
