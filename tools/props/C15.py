"""C15 — the encrypted transport delivers the exact message sequence or disconnects.

Coq: handshake agreement, lock-step delivery for every message list and every fragmentation,
rotation, tamper => disconnect, Init first / no panic for arbitrary bytes, writer FIFO under any
back-pressure pattern (Props/C15.v), over abstract primitives; constants regenerated from the source.
Tie: (1) cipher level, the real PeerChannelEncryptor vs. the model instantiated with Gallina
ChaCha20-Poly1305 / HKDF / SHA-256, byte for byte, state compared after every operation;
(2) PeerManager level, two real PeerManagers over scripted sockets (fragmentation, short writes,
pauses) judged on the implementation, and a harness-played peer against one real PeerManager whose
per-read_event observations the Coq reader model must predict (honest and corrupted streams)."""
import json
import os
import re
import time

from vlib import core

BINS = ["h_noise", "h_peer", "h_peer_tokio"]
LEVEL = "proof"
MANIFEST = {
    "category": "proof",
    "text": "Coq theorems (unbounded in message count, sizes within the wire limit, every fragmentation, every socket back-pressure pattern, arbitrary input bytes) about a model of PeerChannelEncryptor and of PeerManager's read/write paths; the model is tied to the code every run by byte-for-byte functional correspondence against the real encryptor (Gallina ChaCha20-Poly1305/HKDF/SHA-256) and by predicting the real PeerManager's per-read observations on honest and corrupted streams; rotation thresholds and length limits are regenerated from the source.",
    "note": "Assumed: ECDH symmetry and key-encoding laws (handshake theorem); per-stream INT-CTXT premise of the tamper theorem (a chunk differing from the honest ciphertext does not authenticate). AEAD correctness is proved for the executable instance. PeerManager beyond the reader/writer/gate fragments (timers, gossip back-pressure, multi-peer broadcast) and lightning-net-tokio are validated or out of scope.",
    "technique": "machine-checked proof in Coq (induction over message lists and fragments, invariants) + differential correspondence with the implementation",
}

ENC = "lightning/src/ln/peer_channel_encryptor.rs"
PH = "lightning/src/ln/peer_handler.rs"
NT = "lightning-net-tokio/src/lib.rs"


# ----------------------------------------------------------------- generation
def _one(pattern, text, what, flags=re.S):
    ms = list(re.finditer(pattern, text, flags))
    if len(ms) != 1:
        raise ValueError("C15 generate: expected exactly one match for %s, found %d" % (what, len(ms)))
    return ms[0]


def _braces(src, start):
    i = src.index("{", start)
    depth = 0
    for j in range(i, len(src)):
        if src[j] == "{":
            depth += 1
        elif src[j] == "}":
            depth -= 1
            if depth == 0:
                return src[i:j + 1], src[:i].count("\n") + 1
    raise ValueError("C15 generate: unbalanced braces")


def _fn_body(src, name, containing=None):
    """body and first line of `fn name`; if several functions have that name, the one whose body
    mentions `containing`"""
    cands = [_braces(src, m.end()) for m in re.finditer(r"\bfn\s+" + name + r"\b", src)]
    if containing is not None:
        cands = [c for c in cands if containing in c[0]]
    if len(cands) != 1:
        raise ValueError("C15 generate: expected exactly one fn %s%s, found %d" % (name, " containing `%s`" % containing if containing else "", len(cands)))
    return cands[0]


def _arr32(src, name):
    m = _one(r"const\s+" + name + r"\s*:\s*\[u8;\s*32\]\s*=\s*\[(.*?)\];", src, "const " + name)
    vals = [int(x, 16) for x in re.findall(r"0x([0-9a-fA-F]{2})", m.group(1))]
    if len(vals) != 32:
        raise ValueError("C15 generate: %s has %d bytes" % (name, len(vals)))
    return vals, src[:m.start()].count("\n") + 1


def generate(ctx):
    enc = open(os.path.join(core.REPO, ENC)).read()
    ph = open(os.path.join(core.REPO, PH)).read()
    meta = []
    body, line = _fn_body(enc, "encrypt_message_with_header_0s")
    m = _one(r"if\s+\*sn\s*>=\s*(\d+)\s*\{", body, "`if *sn >= N {` in encrypt_message_with_header_0s")
    rot_send = int(m.group(1))
    meta.append({"name": "ROT_SEND", "file": ENC, "line_start": line + body[:m.start()].count("\n"), "value": rot_send})
    body, line = _fn_body(enc, "decrypt_length_header")
    m = _one(r"if\s+\*rn\s*>=\s*(\d+)\s*\{", body, "`if *rn >= N {` in decrypt_length_header")
    rot_recv = int(m.group(1))
    meta.append({"name": "ROT_RECV", "file": ENC, "line_start": line + body[:m.start()].count("\n"), "value": rot_recv})
    body, line = _fn_body(enc, "decrypt_message")
    if re.search(r"\*rn\s*>=|hkdf_extract_expand_twice", body):
        raise ValueError("C15 generate: decrypt_message now contains a rotation; the model has none there")
    m = _one(r"pub\s+const\s+LN_MAX_MSG_LEN\s*:\s*usize\s*=\s*([^;]+);", enc, "LN_MAX_MSG_LEN")
    e = m.group(1).strip()
    if e == "u16::MAX as usize":
        maxlen = 65535
    elif re.match(r"^\d+$", e):
        maxlen = int(e)
    else:
        raise ValueError("C15 generate: unsupported LN_MAX_MSG_LEN expression: " + e)
    meta.append({"name": "LN_MAX_MSG_LEN", "file": ENC, "line_start": enc[:m.start()].count("\n") + 1, "value": maxlen})
    body, line = _fn_body(ph, "do_read_event")
    m = _one(r"if\s+msg_len\s*<\s*(\d+)\s*\{", body, "`if msg_len < N {` in do_read_event")
    minlen = int(m.group(1))
    meta.append({"name": "MIN_MSG_LEN", "file": PH, "line_start": line + body[:m.start()].count("\n"), "value": minlen})
    # position of the Init-first gate: in do_handle_message_holding_peer_lock the
    # `their_features.is_none()` refusal must come right after the Init branch and before anything
    # that can reach a handler or the batch state (the model's gate_msg has exactly this order)
    hbody, hline = _fn_body(ph, "do_handle_message_holding_peer_lock")
    gates = [m.start() for m in re.finditer(r"their_features\s*\.\s*is_none\(\)", hbody)]
    if len(gates) != 1:
        raise ValueError("C15 generate: expected exactly one `their_features.is_none()` test in do_handle_message_holding_peer_lock, found %d" % len(gates))
    gate = gates[0]
    if "return Err(PeerHandleError" not in hbody[gate:gate + 300]:
        raise ValueError("C15 generate: the `their_features.is_none()` test no longer returns Err(PeerHandleError) immediately")
    m_init = re.search(r"if\s+let\s+Message::Init\(", hbody)
    if not m_init or m_init.start() > gate:
        raise ValueError("C15 generate: the Init branch no longer precedes the `their_features.is_none()` gate")
    later = {}
    for name, pat in (("message_batch", r"message_batch"), ("Message::StartBatch", r"Message::StartBatch"), ("Message::CommitmentSigned", r"Message::CommitmentSigned"),
                      ("Message::GossipTimestampFilter", r"Message::GossipTimestampFilter"), ("LogicalMessage::", r"LogicalMessage::"),
                      ("a handler call .handle_*(", r"\.handle_[a-z_0-9]+\(")):
        mm = re.search(pat, hbody)
        if mm:
            later[name] = mm.start()
    early = sorted((o, n) for n, o in later.items() if o < gate)
    if early:
        raise ValueError("C15 generate: in do_handle_message_holding_peer_lock `%s` now occurs before the `their_features.is_none()` gate (line %d): "
                         "a message can reach it before the peer's Init" % (early[0][1], hline + hbody[:early[0][0]].count("\n")))
    for need in ("message_batch", "LogicalMessage::"):
        if need not in later:
            raise ValueError("C15 generate: anchor `%s` not found in do_handle_message_holding_peer_lock (the function was restructured)" % need)
    mbody, mline = _fn_body(ph, "handle_message", containing="do_handle_message_holding_peer_lock(")
    lock_call = mbody.find("do_handle_message_holding_peer_lock(")
    others = [mbody.find(x) for x in ("handle_commitment_signed_batch(", "do_handle_message_without_peer_lock(")]
    if lock_call < 0 or any(o < 0 or o < lock_call for o in others):
        raise ValueError("C15 generate: handle_message no longer runs do_handle_message_holding_peer_lock before dispatching to handlers")
    meta.append({"name": "init-gate position (ordered anchors)", "file": PH, "line_start": hline + hbody[:gate].count("\n")})
    # the pong rule: `if msg.ponglen < N {` in the Ping arm (a `<=` is read as `< N + 1`, so that
    # the frame-fit theorem is re-checked against what the code does rather than refused)
    wbody, wline = _fn_body(ph, "do_handle_message_without_peer_lock")
    m = _one(r"Message::Ping\(msg\)\s*=>\s*\{\s*if\s+msg\.ponglen\s*(<=?)\s*(\d+)\s*\{", wbody, "`if msg.ponglen < N {` in the Ping arm")
    ping_limit = int(m.group(2)) + (1 if m.group(1) == "<=" else 0)
    meta.append({"name": "PING_PONGLEN_LIMIT", "file": PH, "line_start": wline + wbody[:m.start()].count("\n"), "value": ping_limit})
    m = _one(r"const\s+OUTBOUND_BUFFER_LIMIT_READ_PAUSE\s*:\s*usize\s*=\s*(\d+)\s*;", ph, "OUTBOUND_BUFFER_LIMIT_READ_PAUSE")
    read_pause_limit = int(m.group(1))
    meta.append({"name": "OUTBOUND_BUFFER_LIMIT_READ_PAUSE", "file": PH, "line_start": ph[:m.start()].count("\n") + 1, "value": read_pause_limit})
    # the socket driver's half of the send_data(data, continue_read) contract (model: drv_send_data):
    # the read-pause flag is assigned, and a paused reader woken, BEFORE any return on empty data
    nt = open(os.path.join(core.REPO, NT)).read()
    sbody, sline = _fn_body(nt, "send_data")
    i_flag = sbody.find("us.read_paused = !continue_read")
    i_wake = sbody.find("read_waker.try_send")
    i_empty = sbody.find("data.is_empty()")
    if i_flag < 0 or i_wake < 0 or i_empty < 0:
        raise ValueError("C15 generate: lightning-net-tokio send_data: anchors `us.read_paused = !continue_read` / `read_waker.try_send` / `data.is_empty()` not all found")
    if not (i_flag < i_wake < i_empty):
        raise ValueError("C15 generate: lightning-net-tokio send_data (line %d): the early return on empty data now precedes the update of the read-pause flag / the reader wake-up: "
                         "an empty write (how PeerManager resumes reading when nothing is queued) no longer resumes reads" % (sline + sbody[:i_empty].count("\n")))
    pre = re.sub(r"//[^\n]*", "", sbody[:i_flag])
    early_returns = [mm.start() for mm in re.finditer(r"\breturn\b", pre)]
    if len(early_returns) > 1 or (early_returns and "writer.is_none()" not in pre[:early_returns[0]]):
        raise ValueError("C15 generate: lightning-net-tokio send_data: a new early return precedes the read-pause flag update")
    meta.append({"name": "net-tokio send_data: flag update and wake-up before the empty-data return", "file": NT, "line_start": sline + sbody[:i_flag].count("\n")})
    ck, l1 = _arr32(enc, "NOISE_CK")
    h, l2 = _arr32(enc, "NOISE_H")
    meta.append({"name": "NOISE_CK", "file": ENC, "line_start": l1})
    meta.append({"name": "NOISE_H", "file": ENC, "line_start": l2})
    text = "(* GENERATED by tools/props/C15.py (generate) from /repo on every run. Do not edit. *)\n"
    text += "Require Import LdkV.Prim.U64.\nOpen Scope Z_scope.\n\n"
    text += "(* %s: `if *sn >= %d {` in encrypt_message_with_header_0s *)\nDefinition ROT_SEND : Z := %d.\n" % (ENC, rot_send, rot_send)
    text += "(* %s: `if *rn >= %d {` in decrypt_length_header *)\nDefinition ROT_RECV : Z := %d.\n" % (ENC, rot_recv, rot_recv)
    text += "(* %s: LN_MAX_MSG_LEN = %s *)\nDefinition LN_MAX_MSG_LEN : Z := %d.\n" % (ENC, e, maxlen)
    text += "(* %s: `if msg_len < %d {` in do_read_event *)\nDefinition MIN_MSG_LEN : Z := %d.\n" % (PH, minlen, minlen)
    text += "(* %s: `if msg.ponglen < N {` in the Ping arm (exclusive bound) *)\nDefinition PING_PONGLEN_LIMIT : Z := %d.\n" % (PH, ping_limit)
    text += "(* %s: OUTBOUND_BUFFER_LIMIT_READ_PAUSE *)\nDefinition OUTBOUND_BUFFER_LIMIT_READ_PAUSE : Z := %d.\n" % (PH, read_pause_limit)
    text += "Definition NOISE_CK : list Z := [%s].\n" % "; ".join(str(x) for x in ck)
    text += "Definition NOISE_H : list Z := [%s].\n" % "; ".join(str(x) for x in h)
    core.write_if_changed(os.path.join(core.COQ, "Gen", "NoiseConsts.v"), text)
    ctx.gen_meta = meta
    ctx.consts = {"ROT_SEND": rot_send, "ROT_RECV": rot_recv, "LN_MAX_MSG_LEN": maxlen, "MIN_MSG_LEN": minlen}
    return meta


# ----------------------------------------------------------------- helpers
IMPORTS = ["LdkV.Prim.U64", "LdkV.Crypto.Bytes", "LdkV.Model.Noise", "LdkV.Model.Framing", "LdkV.Model.PeerGate",
           "LdkV.Model.PeerRead", "LdkV.Model.NoiseInst"]
PRELUDE = """
From Coq Require Import List String.
Import ListNotations.
Open Scope string_scope.
Open Scope list_scope.
Open Scope Z_scope.
Definition B (s : string) : Noise.bytes := bytes_of_hex s.
Definition flat (l : list (list string * list Z)) : list string * list Z :=
  (List.concat (map fst l), List.concat (map snd l)).
Definition hs_conv (cv : curve) (ls_i ie ls_r re : Noise.bytes) (msgs : list (bool * Noise.bytes)) :=
  match run_handshake cv ls_i ie ls_r re with
  | Some (s, n, ti, tr) => (s, n, flat (run_conv ti tr msgs))
  | None => (["HANDSHAKE-FAILED"], [], ([], []))
  end.
Definition hs_conv_gen (cv : curve) (ls_i ie ls_r re : Noise.bytes) (msgs : list (bool * (Z * Z))) :=
  match run_handshake cv ls_i ie ls_r re with
  | Some (s, n, ti, tr) => (s, n, flat (run_conv_gen ti tr msgs))
  | None => (["HANDSHAKE-FAILED"], [], ([], []))
  end.
Definition st_conv (sk : Noise.bytes) (sn : Z) (sck rk : Noise.bytes) (rn : Z) (rck : Noise.bytes) (msgs : list (bool * Noise.bytes)) :=
  flat (run_conv (mk_tr sk sn sck rk rn rck) (mk_tr rk rn rck sk sn sck) msgs).
Definition show_opt_act (r : option (option (Noise.bytes * enc_state))) : string :=
  match r with Some (Some (a, _)) => ("OK " ++ hx a)%string | Some None => "ERR" | None => "PANIC" end.
Definition m_act1 (cv : curve) (ls re act : Noise.bytes) : string :=
  show_opt_act (process_act_one_with_keys (i_dh cv) (i_pub cv) (i_pk_valid cv) i_hkdf2 i_H i_seal i_open
                  (new_inbound (i_pub cv) i_H ls) act ls re).
Definition m_act2 (cv : curve) (ls ie rs_pub act : Noise.bytes) : string :=
  match get_act_one (i_dh cv) (i_pub cv) i_hkdf2 i_H i_seal (new_outbound i_H rs_pub ie) with
  | Some (a1, e) =>
    match process_act_two (i_dh cv) (i_pub cv) (i_pk_valid cv) i_hkdf2 i_H i_seal i_open e act ls with
    | Some (Some (a3, id, _)) => ("OK " ++ hx a3 ++ " " ++ hx id)%string
    | Some None => "ERR"
    | None => "PANIC"
    end
  | None => "PANIC"
  end.
Definition m_act3 (cv : curve) (ls_i ie ls_r re act : Noise.bytes) : string :=
  match get_act_one (i_dh cv) (i_pub cv) i_hkdf2 i_H i_seal (new_outbound i_H (i_pub cv ls_r) ie) with
  | Some (a1, _) =>
    match process_act_one_with_keys (i_dh cv) (i_pub cv) (i_pk_valid cv) i_hkdf2 i_H i_seal i_open
            (new_inbound (i_pub cv) i_H ls_r) a1 ls_r re with
    | Some (Some (_, e)) =>
      match process_act_three (i_dh cv) (i_pk_valid cv) i_hkdf2 i_H i_open e act with
      | Some (Some (id, _)) => ("OK " ++ hx id)%string
      | Some None => "ERR"
      | None => "PANIC"
      end
    | _ => "PANIC"
    end
  | None => "PANIC"
  end.
Definition rd_in (cv : curve) (ls re : Noise.bytes) (dtbl : list (Noise.bytes * dres)) (ib hb : list Noise.bytes) (fr : list Noise.bytes) :=
  run_reader cv ls re dtbl ib hb (inbound0 cv ls) fr.
Definition rd_in_multi (cv : curve) (ls re : Noise.bytes) (dtbl : list (Noise.bytes * dres)) (ib hb : list Noise.bytes)
    (hs : Noise.bytes) (tails : list (list Noise.bytes)) :=
  let h := peer_handle (i_dh cv) (i_pub cv) (i_pk_valid cv) i_hkdf2 i_H i_seal i_open (lookup_dres dtbl)
             (fun m => negb (existsb (bytes_eqb m) ib)) (fun m => negb (existsb (bytes_eqb m) hb)) ls re in
  let '(c1, e1) := feed pstate event h (inbound0 cv ls) hs in
  let shw := fun x : list event * status => (map show_event (fst x), show_status (snd x)) in
  map (fun fr => shw (e1, c_status c1) :: map shw (feed_each pstate event h c1 fr)) tails.
Definition rd_out (cv : curve) (ls ie their : Noise.bytes) (dtbl : list (Noise.bytes * dres)) (ib hb : list Noise.bytes) (fr : list Noise.bytes) :=
  match outbound_conn (i_dh cv) (i_pub cv) i_hkdf2 i_H i_seal their ie with
  | Some (a1, c0) => (hx a1, run_reader cv ls ie dtbl ib hb c0 fr)
  | None => ("PANIC", [])
  end.
"""


def B(h):
    return 'B "%s"' % h


def strs(v):
    return re.findall(r'"([^"]*)"', v)


def ints(v):
    return [int(x) for x in re.findall(r"-?\d+", re.sub(r'"[^"]*"', "", v))]


def curve_expr(pubs, dh, valid):
    p = "; ".join("(%s, %s)" % (B(a), B(b)) for a, b in (x.split(":") for x in pubs.split(";") if x))
    d = "; ".join("(%s, %s, %s)" % (B(a), B(b), B(c)) for a, b, c in (x.split(":") for x in dh.split(";") if x))
    v = "; ".join(B(x) for x in sorted(set(valid.split(";"))) if x)
    return "(mk_curve [%s] [%s] [%s])" % (p, v, d)


def fields(line):
    out = {}
    for tok in line.split():
        if "=" in tok:
            k, v = tok.split("=", 1)
            out[k] = v
    return out


def rand_hex(rng, n):
    return "".join("%02x" % rng.below(256) for _ in range(n))


def rand_secret(rng):
    return "%02x" % (1 + rng.below(200)) + rand_hex(rng, 31)


def payload(n, seed):
    """same generator as h_noise::payload (splitmix64 little-endian words)"""
    r = core.Rng(seed)
    out = bytearray()
    while len(out) < n:
        out += r.next().to_bytes(8, "little")
    return bytes(out[:n]).hex()


def msgs_expr(ms):
    return "[" + "; ".join("(%s, %s)" % ("true" if d == 0 else "false", B(m)) for d, m in ms) + "]"


def st_tuple(s):
    """'sk,sn,sck,rk,rn,rck' -> (hex list [sk, sck, rk, rck], [sn, rn])"""
    p = s.split(",")
    return [p[0], p[2], p[3], p[5]], [int(p[1]), int(p[4])]


# ----------------------------------------------------------------- cipher level
def cipher_level(ctx, model_ok):
    rng = ctx.rng.fork("cipher")
    quick = ctx.tier == "quick"
    dis, fails = [], []
    cov = {}
    lines = []      # harness input
    plan = []       # (kind, data) per harness line
    BOLT8 = ("11" * 32, "12" * 32, "21" * 32, "22" * 32)
    sizes = [0, 1, 2, 3, 17, 1000]
    n_hs = 4 if quick else 24
    convs = []
    for i in range(n_hs):
        keys = BOLT8 if i == 0 else tuple(rand_secret(rng) for _ in range(4))
        lines.append("hs %s %s %s %s" % keys)
        plan.append(("hs", keys))
        ms = []
        szs = list(sizes) if i % 2 == 0 else [rng.choice([0, 1, 2, 3, 5, 17, 31, 32, 33, 63, 64, 65, 255, 1000]) for _ in range(6)]
        gen = (not quick) and i == 1
        if gen:
            szs = [65535, 65534, 2, 30000]
        if quick and i == 1:
            szs = szs[:4] + [4097]
        for s in szs:
            d = rng.below(2)
            if gen:
                # maximal sizes: generated payload on both sides, digests compared (a 130 kB literal
                # overflows coqc's stack)
                sd = rng.below(2 ** 32)
                ms.append((d, (s, sd)))
                lines.append("msgn %d %d %d 0" % (d, s, sd))
                plan.append(("msg", (d, "gen")))
            else:
                m = rand_hex(rng, s)
                ms.append((d, m))
                lines.append("msg %d %s" % (d, m))
                plan.append(("msg", (d, m)))
        convs.append((keys, ms, gen))
    # rotation windows from synthetic transport states
    rot = ctx.consts["ROT_SEND"] if hasattr(ctx, "consts") else 1000
    wins = []
    starts = [(rot - 6, 0), (rot - 2, rot - 4), (rot, rot), (rot - 1, rot + 1), (rot + 1, rot - 3), (0, rot - 2)]
    if not quick:
        starts += [(rot - 8 + k, rot - 10 + 2 * k) for k in range(6)]
    for (sn, rn) in starts:
        ks = [rand_hex(rng, 32) for _ in range(4)]
        lines.append("st %s %d %s %s %d %s" % (ks[0], sn, ks[1], ks[2], rn, ks[3]))
        plan.append(("st", (ks, sn, rn)))
        ms = []
        for _ in range(8 if quick else 14):
            d = rng.below(2)
            m = rand_hex(rng, rng.choice([2, 3, 9, 40]))
            ms.append((d, m))
            lines.append("msg %d %s" % (d, m))
            plan.append(("msg", (d, m)))
        wins.append((ks, sn, rn, ms))
    # volume on the implementation alone (judge), crossing >= 2 rotations
    nvol = 2300 if quick else 8000
    lines.append("hs %s %s %s %s" % BOLT8)
    plan.append(("hs0", None))
    lines.append("volume %d %d %d" % (nvol, rng.below(2 ** 32), 0))
    plan.append(("volume", nvol))
    rc, out = ctx.run_bin("h_noise", "\n".join(lines) + "\n", timeout=900)
    out = [l for l in out if l != ""]
    if rc != 0 or len(out) != len(lines):
        ctx.violation("harness h_noise did not produce one result per case", {"broken": "correspondence:h_noise", "rc": rc, "n_out": len(out), "n_in": len(lines)}, False)
        return None, None
    impl = list(zip(plan, lines, out))
    # ---- implementation-side judge
    seq = []    # the session so far: from the last hs/st line on (a failing message needs it to replay)
    for (kind, data), line, o in impl:
        if kind in ("hs", "hs0", "st"):
            seq = []
        seq.append(line)
        if o == "PANIC":
            fails.append({"kind": "panic in PeerChannelEncryptor", "input": "\n".join(seq)})
        elif kind == "msg":
            f = fields(o)
            if f.get("ok") != "true" or "a" not in f or "b" not in f:
                if not any(x["kind"].startswith("message not delivered") for x in fails):
                    fails.append({"kind": "message not delivered intact by the real encryptor pair", "input": "\n".join(seq), "impl": o[-120:]})
            else:
                (ka, na), (kb, nb) = st_tuple(f["a"]), st_tuple(f["b"])
                if not (ka[0] == kb[2] and ka[1] == kb[3] and ka[2] == kb[0] and ka[3] == kb[1] and na[0] == nb[1] and na[1] == nb[0]):
                    fails.append({"kind": "the two ends left lock-step", "input": "\n".join(seq), "a": f["a"], "b": f["b"]})
        elif kind == "volume":
            f = fields(o)
            if f.get("bad") != "-":
                fails.append({"kind": "volume run: " + f.get("bad", "?").replace("_", " "), "input": "\n".join(seq)})
            cov["volume"] = {k: f.get(k) for k in ("n", "sent", "rot", "max_sn")}
            r0 = sum(int(x) for x in f.get("rot", "0,0").split(","))
            if r0 < 2:
                ctx.log("note: volume run crossed only %d rotations" % r0)
    # ---- model side
    if model_ok:
        exprs, keys_of = [], []
        idx = 0
        for (keys, ms, gen) in convs:
            # curve facts come from the implementation's own output
            while impl[idx][0][0] != "hs":
                idx += 1
            f = fields(impl[idx][2])
            idx += 1
            cv = curve_expr(f["pubs"], f["dh"], f["valid"])
            if gen:
                me = "[" + "; ".join("(%s, (%d, %d))" % ("true" if d == 0 else "false", ln, sd) for d, (ln, sd) in ms) + "]"
                exprs.append("hs_conv_gen %s (%s) (%s) (%s) (%s) %s" % (cv, B(keys[0]), B(keys[1]), B(keys[2]), B(keys[3]), me))
            else:
                exprs.append("hs_conv %s (%s) (%s) (%s) (%s) %s" % (cv, B(keys[0]), B(keys[1]), B(keys[2]), B(keys[3]), msgs_expr(ms)))
        for (ks, sn, rn, ms) in wins:
            exprs.append("st_conv (%s) %d (%s) (%s) %d (%s) %s" % (B(ks[0]), sn, B(ks[1]), B(ks[2]), rn, B(ks[3]), msgs_expr(ms)))
        t0 = time.time()
        vals = ctx.coq_eval("c15_cipher", IMPORTS, exprs, prelude=PRELUDE, shards=min(16, len(exprs)), timeout=1500)
        ctx.log("cipher-level model evaluation: %d expressions in %.0fs" % (len(exprs), time.time() - t0))
        # compare
        pos = 0
        n_ops = 0
        for ci, (keys, ms, gen) in enumerate(convs):
            while impl[pos][0][0] != "hs":
                pos += 1
            f = fields(impl[pos][2])
            pos += 1
            ss, zz = strs(vals[ci]), ints(vals[ci])
            a_k, a_n = st_tuple(f["a"])
            b_k, b_n = st_tuple(f["b"])
            want = f["acts"].split(",") + f["ids"].split(",") + a_k + b_k
            n_ops += 1
            if ss[:13] != want or zz[:4] != a_n + b_n:
                dis.append({"topic": "handshake", "keys": keys, "impl": want, "model": ss[:13], "impl_nonces": a_n + b_n, "model_nonces": zz[:4]})
                continue
            ss, zz = ss[13:], zz[4:]
            for j, (d, m) in enumerate(ms):
                f = fields(impl[pos][2])
                pos += 1
                n_ops += 1
                if gen and "ch" in f:
                    f["c"], f["m"] = f["ch"], f["mh"]
                if not all(k in f for k in ("a", "b", "c", "m", "len")):
                    dis.append({"topic": "transport message", "keys": keys, "index": j, "dir": d, "msg": str(m)[:80], "impl": impl[pos - 1][2][:200], "model": [x[:80] for x in ss[10 * j:10 * j + 2]]})
                    pos += len(ms) - j - 1
                    break
                a_k, a_n = st_tuple(f["a"])
                b_k, b_n = st_tuple(f["b"])
                want_s = [f["c"], f["m"]] + a_k + b_k
                want_z = [int(f["len"])] + a_n + b_n
                got_s, got_z = ss[10 * j:10 * j + 10], zz[5 * j:5 * j + 5]
                if got_s != want_s or got_z != want_z:
                    dis.append({"topic": "transport message", "keys": keys, "index": j, "dir": d, "msg": str(m)[:80], "impl": [x[:80] for x in want_s] + want_z, "model": [x[:80] for x in got_s] + got_z})
                    break
        for wi, (ks, sn, rn, ms) in enumerate(wins):
            while impl[pos][0][0] != "st":
                pos += 1
            pos += 1
            v = vals[len(convs) + wi]
            ss, zz = strs(v), ints(v)
            for j, (d, m) in enumerate(ms):
                f = fields(impl[pos][2])
                pos += 1
                n_ops += 1
                if not all(k in f for k in ("a", "b", "c", "m", "len")):
                    dis.append({"topic": "rotation window", "start": {"sn": sn, "rn": rn}, "index": j, "dir": d, "impl": impl[pos - 1][2][:200], "model": [x[:80] for x in ss[10 * j:10 * j + 2]]})
                    break
                a_k, a_n = st_tuple(f["a"])
                b_k, b_n = st_tuple(f["b"])
                want_s = [f["c"], f["m"]] + a_k + b_k
                want_z = [int(f["len"])] + a_n + b_n
                got_s, got_z = ss[10 * j:10 * j + 10], zz[5 * j:5 * j + 5]
                if got_s != want_s or got_z != want_z:
                    dis.append({"topic": "rotation window", "start": {"sn": sn, "rn": rn}, "index": j, "dir": d, "impl": [x[:80] for x in want_s] + want_z, "model": [x[:80] for x in got_s] + got_z})
                    break
        cov["cipher_ops_compared"] = n_ops
        cov["handshakes"] = len(convs)
        cov["rotation_windows"] = len(wins)
        ctx.samples.append({"bolt8_act_one": fields(impl[0][2])["acts"].split(",")[0], "model_reproduces": not dis})
    return dis, fails, cov


# ----------------------------------------------------------------- corrupted acts and frames (cipher level)
def corrupt_level(ctx, model_ok):
    rng = ctx.rng.fork("corrupt")
    quick = ctx.tier == "quick"
    keys = tuple(rand_secret(rng) for _ in range(4))
    rc, out = ctx.run_bin("h_noise", "hs %s %s %s %s\nmsg 0 %s\nmsg 0 %s\n" % (keys + (rand_hex(rng, 40), rand_hex(rng, 9))))
    out = [l for l in out if l]
    if rc != 0 or len(out) != 3:
        ctx.violation("harness h_noise failed in the corruption set-up", {"broken": "correspondence:h_noise", "rc": rc}, False)
        return None, None, {}
    f0 = fields(out[0])
    if "a" not in fields(out[1]) or "a" not in fields(out[2]) or "acts" not in f0:
        # the real encryptor pair cannot even exchange two messages: nothing to corrupt
        setup = "hs %s %s %s %s" % keys
        return [], [{"kind": "message not delivered intact by the real encryptor pair", "input": setup + "\n" + "msg 0 aabbccdd\nmsg 0 0011", "impl": (out[1] + " / " + out[2])[-200:]}], {}
    acts = f0["acts"].split(",")
    pub = dict(x.split(":") for x in f0["pubs"].split(";"))
    old_frame = fields(out[1])["c"]
    st_after = fields(out[2])["a"].split(",")       # a's state after two messages sent by a
    # next honest frame from that state (computed by the implementation itself)
    lines, plan = [], []
    st_line = "st %s %s %s %s %s %s" % tuple(st_after)
    nxt_m = rand_hex(rng, 23)

    def flip(hexs, off, mask):
        b = bytearray.fromhex(hexs)
        b[off] ^= mask
        return b.hex()

    step = 1 if True else 3
    for off in range(0, 50, step):
        mask = 1 << rng.below(8)
        lines.append("act1 %s %s %s" % (keys[2], keys[3], flip(acts[0], off, mask)))
        plan.append(("act1", off, mask))
    for off in range(0, 50, step):
        mask = 1 << rng.below(8)
        lines.append("act2 %s %s %s %s" % (keys[0], keys[1], pub[keys[2]], flip(acts[1], off, mask)))
        plan.append(("act2", off, mask))
    for off in range(0, 66, step):
        mask = 1 << rng.below(8)
        lines.append("act3 %s %s %s %s %s" % (keys + (flip(acts[2], off, mask),)))
        plan.append(("act3", off, mask))
    # honest acts must pass (the corruption is what is rejected)
    lines.append("act1 %s %s %s" % (keys[2], keys[3], acts[0]))
    plan.append(("act1", -1, 0))
    lines.append("act2 %s %s %s %s" % (keys[0], keys[1], pub[keys[2]], acts[1]))
    plan.append(("act2", -1, 0))
    lines.append("act3 %s %s %s %s %s" % (keys + (acts[2],)))
    plan.append(("act3", -1, 0))
    # random garbage acts
    for _ in range(6 if quick else 60):
        g = rand_hex(rng, 50)
        if rng.chance(1, 2):
            g = "00" + g[2:]
        if rng.chance(1, 3):
            g = g[:2] + pub[keys[1]] + g[68:]
        lines.append("act1 %s %s %s" % (keys[2], keys[3], g))
        plan.append(("act1", -2, 0))
    n_acts = len(lines)
    # frames: the honest next frame, then corruptions of it read by a copy of the receiver
    lines.append(st_line)
    plan.append(("st", 0, 0))
    rc, out = ctx.run_bin("h_noise", "\n".join(lines) + "\n")
    out = [l for l in out if l]
    if rc != 0 or len(out) != len(lines):
        ctx.violation("harness h_noise did not produce one result per corrupted act", {"broken": "correspondence:h_noise", "rc": rc}, False)
        return None, None, {}
    act_out = out[:n_acts]
    # second batch needs the honest frame first: produce it on a scratch session (state restored by `st`)
    rc, o2 = ctx.run_bin("h_noise", st_line + "\nmsg 0 %s\n" % nxt_m)
    frame = fields([l for l in o2 if l][1])["c"]
    flines, fplan = [], []
    for off in range(18):
        mask = 1 << rng.below(8)
        flines.append("recv 0 " + flip(frame, off, mask))
        fplan.append(("hdr", off, mask))
    nb = len(frame) // 2
    for off in sorted(set([18, 19, nb - 17, nb - 16, nb - 1] + [18 + rng.below(nb - 18) for _ in range(6 if quick else 30)])):
        mask = 1 << rng.below(8)
        flines.append("recv 0 " + flip(frame, off, mask))
        fplan.append(("body", off, mask))
    flines.append("recv 0 " + frame)
    fplan.append(("honest", -1, 0))
    flines.append("recv 0 " + old_frame)
    fplan.append(("replay", -1, 0))
    flines.append("recv 0 " + frame[:36] + old_frame[36:])
    fplan.append(("header-of-new+body-of-old", -1, 0))
    flines.append("recv 0 " + old_frame[:36] + frame[36:])
    fplan.append(("header-of-old+body-of-new", -1, 0))
    for _ in range(4 if quick else 40):
        flines.append("recv 0 " + rand_hex(rng, 18 + 16 + rng.below(60)))
        fplan.append(("garbage", -1, 0))
    rc, fout = ctx.run_bin("h_noise", st_line + "\n" + "\n".join(flines) + "\n")
    fout = [l for l in fout if l][1:]
    if rc != 0 or len(fout) != len(flines):
        ctx.violation("harness h_noise did not produce one result per corrupted frame", {"broken": "correspondence:h_noise", "rc": rc}, False)
        return None, None, {}
    fails, dis = [], []
    hist = {}
    for (kind, off, mask), line, o in zip(plan, lines, act_out):
        r = o.split()[0]
        hist[kind + ":" + r] = hist.get(kind + ":" + r, 0) + 1
        if r == "PANIC":
            fails.append({"kind": "panic while processing a handshake act", "input": line})
        elif off >= 0 and r != "ERR":
            fails.append({"kind": "a corrupted %s (byte %d xor %d) was accepted" % (kind, off, mask), "input": line, "impl": o[:160]})
        elif off == -1 and r != "OK":
            fails.append({"kind": "the honest %s was rejected" % kind, "input": line, "impl": o[:160]})
        elif off == -2 and r != "ERR":
            fails.append({"kind": "a garbage act one was accepted", "input": line, "impl": o[:160]})
    for (kind, off, mask), line, o in zip(fplan, flines, fout):
        r = o.split()[0]
        hist["frame-" + kind + ":" + r] = hist.get("frame-" + kind + ":" + r, 0) + 1
        if r == "PANIC":
            fails.append({"kind": "panic while decrypting a frame", "state": st_line, "input": line})
        elif kind == "honest":
            if o != "OK " + nxt_m:
                fails.append({"kind": "the honest frame was not delivered", "state": st_line, "input": line, "impl": o[:160]})
        elif r == "OK":
            fails.append({"kind": "a frame that is not the honest one (%s, byte %d xor %d) was accepted" % (kind, off, mask), "state": st_line, "input": line, "impl": o[:160]})
    cov = {"corrupted_acts": sum(1 for p in plan if p[1] >= 0), "corrupted_frames": sum(1 for p in fplan if p[0] != "honest"), "corruption_result_histogram": hist}
    if model_ok:
        exprs = []
        for (kind, off, mask), line, o in zip(plan[:n_acts], lines, act_out):
            f = fields(o)
            cv = curve_expr(f.get("pubs", ""), f.get("dh", ""), f.get("valid", ""))
            t = line.split()
            if kind == "act1":
                exprs.append("m_act1 %s (%s) (%s) (%s)" % (cv, B(t[1]), B(t[2]), B(t[3])))
            elif kind == "act2":
                exprs.append("m_act2 %s (%s) (%s) (%s) (%s)" % (cv, B(t[1]), B(t[2]), B(t[3]), B(t[4])))
            else:
                exprs.append("m_act3 %s (%s) (%s) (%s) (%s) (%s)" % (cv, B(t[1]), B(t[2]), B(t[3]), B(t[4]), B(t[5])))
        tr = "(mk_tr (%s) %s (%s) (%s) %s (%s))" % (B(st_after[3]), st_after[4], B(st_after[5]), B(st_after[0]), st_after[1], B(st_after[2]))
        for line in flines:
            exprs.append("recv_frame %s (%s)" % (tr, B(line.split()[2])))
        t0 = time.time()
        vals = ctx.coq_eval("c15_corrupt", IMPORTS, exprs, prelude=PRELUDE, shards=min(16, max(1, len(exprs) // 8)), timeout=1500)
        ctx.log("corruption model evaluation: %d expressions in %.0fs" % (len(exprs), time.time() - t0))
        for (kind, off, mask), line, o, v in zip(plan[:n_acts], lines, act_out, vals[:n_acts]):
            ms = strs(v)
            mv = ms[0] if ms else v
            if kind == "act1":
                want = "OK " + o.split()[1] if o.startswith("OK") else o.split()[0]
            elif kind == "act2":
                want = "OK %s %s" % (o.split()[1], fields(o)["id"]) if o.startswith("OK") else o.split()[0]
            else:
                want = "OK " + fields(o)["id"] if o.startswith("OK") else o.split()[0]
            if mv != want:
                dis.append({"topic": "corrupted " + kind, "offset": off, "mask": mask, "input": line, "impl": want[:160], "model": mv[:160]})
        for (kind, off, mask), line, o, v in zip(fplan, flines, fout, vals[n_acts:]):
            mv = " ".join(strs(v))
            if mv != o:
                dis.append({"topic": "corrupted frame (" + kind + ")", "offset": off, "mask": mask, "state": st_line, "input": line, "impl": o[:160], "model": mv[:160]})
    return dis, fails, cov


# ----------------------------------------------------------------- PeerManager level
# ---- well-formed frames of every message type wire::read knows (layouts as in lightning/src/ln/msgs.rs);
# the harness reports for each whether the library decodes it, so a wrong layout shows up in coverage
P1 = "028d7500dd4c12685d1f568b4c2b5048e8534b873319f3a8daa612b469132ec7f7"
P2 = "034f355bdcb7cc0af728ef3cceb9615d90684bb5b2ca5f859ab0f0b704075871aa"
SIG = "01" * 64
CH = "c1" * 32
CH2 = "c2" * 32
H32 = "ab" * 32
CHAIN = "43497fd7f826957108f4a30fd9cec3aeba79972084e90ead01ea330900000000"


def u(n, v):
    return "%0*x" % (2 * n, v)


def start_batch(size, with_type=True, chan=CH):
    return "007f" + chan + u(2, size) + ("01020084" if with_type else "")


def commitment_signed(chan=CH, nh=0, batch_tlv=False):
    return "0084" + chan + SIG + u(2, nh) + SIG * nh + (("0120" + H32) if batch_tlv else "")


def all_messages():
    onion_pkt = "00" + P1 + "00" * 1300 + "11" * 32
    om_pkt = "00" + P1 + "22" * 70 + "33" * 32
    return [
        ("warning", "0001" + CH + "0003616263"),
        ("stfu", "0002" + CH + "01"),
        ("peer_storage", "0007" + "0004" + "deadbeef"),
        ("peer_storage_retrieval", "0009" + "0004" + "deadbeef"),
        ("error", "0011" + CH + "0003616263"),
        ("ping", "0012" + "0004" + "0002" + "0000"),
        ("pong", "0013" + "0002" + "0000"),
        ("open_channel", "0020" + CHAIN + CH + u(8, 100000) + u(8, 0) + u(8, 546) + u(8, 10 ** 8) + u(8, 1000) + u(8, 1) + u(4, 253) + u(2, 144) + u(2, 30) + P1 + P2 + P1 + P2 + P1 + P2 + "00"),
        ("accept_channel", "0021" + CH + u(8, 546) + u(8, 10 ** 8) + u(8, 1000) + u(8, 1) + u(4, 3) + u(2, 144) + u(2, 30) + P1 + P2 + P1 + P2 + P1 + P2),
        ("funding_created", "0022" + CH + H32 + u(2, 1) + SIG),
        ("funding_signed", "0023" + CH + SIG),
        ("channel_ready", "0024" + CH + P1),
        ("shutdown", "0026" + CH + "0002" + "5120"),
        ("closing_signed", "0027" + CH + u(8, 500) + SIG),
        ("open_channel_v2", "0040" + CHAIN + CH + u(4, 253) + u(4, 253) + u(8, 100000) + u(8, 546) + u(8, 10 ** 8) + u(8, 1) + u(2, 144) + u(2, 30) + u(4, 0) + P1 + P2 + P1 + P2 + P1 + P2 + P1 + "00"),
        ("accept_channel_v2", "0041" + CH + u(8, 100000) + u(8, 546) + u(8, 10 ** 8) + u(8, 1) + u(4, 3) + u(2, 144) + u(2, 30) + P1 + P2 + P1 + P2 + P1 + P2 + P1),
        ("tx_add_input", "0042" + CH + u(8, 2) + "0000" + u(4, 0) + u(4, 0xfffffffd) + "0020" + H32),
        ("tx_add_output", "0043" + CH + u(8, 2) + u(8, 1000) + "0002" + "5120"),
        ("tx_remove_input", "0044" + CH + u(8, 2)),
        ("tx_remove_output", "0045" + CH + u(8, 2)),
        ("tx_complete", "0046" + CH),
        ("tx_signatures", "0047" + CH + H32 + "0000"),
        ("tx_init_rbf", "0048" + CH + u(4, 0) + u(4, 253)),
        ("tx_ack_rbf", "0049" + CH),
        ("tx_abort", "004a" + CH + "0002" + "6869"),
        ("splice_locked", "004d" + CH + H32),
        ("splice_init", "0050" + CH + u(8, 1000) + u(4, 253) + u(4, 0) + P1),
        ("splice_ack", "0051" + CH + u(8, 1000) + P1),
        ("start_batch", start_batch(2)),
        ("start_batch_no_type", start_batch(2, False)),
        ("update_add_htlc", "0080" + CH + u(8, 0) + u(8, 1000) + H32 + u(4, 500000) + onion_pkt),
        ("update_fulfill_htlc", "0082" + CH + u(8, 0) + H32),
        ("update_fail_htlc", "0083" + CH + u(8, 0) + "0002" + "0000"),
        ("commitment_signed", commitment_signed()),
        ("commitment_signed_htlcs", commitment_signed(nh=2)),
        ("commitment_signed_batch_tlv", commitment_signed(batch_tlv=True)),
        ("revoke_and_ack", "0085" + CH + H32 + P1),
        ("update_fee", "0086" + CH + u(4, 1000)),
        ("update_fail_malformed_htlc", "0087" + CH + u(8, 0) + H32 + u(2, 0x8002)),
        ("channel_reestablish", "0088" + CH + u(8, 1) + u(8, 0) + "00" * 32 + P1),
        ("channel_announcement", "0100" + SIG * 4 + "0000" + CHAIN + u(8, 42) + P1 + P2 + P1 + P2),
        ("node_announcement", "0101" + SIG + "0000" + u(4, 1) + P1 + "010203" + "61" * 32 + "0000"),
        ("channel_update", "0102" + SIG + CHAIN + u(8, 42) + u(4, 1) + "01" + "00" + u(2, 40) + u(8, 1) + u(4, 1000) + u(4, 1) + u(8, 10 ** 8)),
        ("announcement_signatures", "0103" + CH + u(8, 42) + SIG + SIG),
        ("query_short_channel_ids", "0105" + CHAIN + "0009" + "00" + u(8, 42)),
        ("reply_short_channel_ids_end", "0106" + CHAIN + "01"),
        ("query_channel_range", "0107" + CHAIN + u(4, 0) + u(4, 100)),
        ("reply_channel_range", "0108" + CHAIN + u(4, 0) + u(4, 100) + "01" + "0009" + "00" + u(8, 42)),
        ("gossip_timestamp_filter", "0109" + CHAIN + u(4, 0) + u(4, 0xffffffff)),
        ("onion_message", "0201" + P2 + u(2, len(om_pkt) // 2) + om_pkt),
        ("custom_known_odd", "8001" + "aabbcc"),
        ("custom_known_even", "8002" + "aabbcc"),
        ("unknown_odd", "ea61" + "0102"),
        ("unknown_even", "ea60" + "0102"),
    ]


CHAN_TYPES = {2, 7, 9, 17, 32, 33, 34, 35, 36, 38, 39, 64, 65, 66, 67, 68, 69, 70, 71, 72, 73, 74, 77, 80, 81, 128, 130, 131, 132, 133, 134, 135, 136, 259}
ROUTE_NAMES = {256: "channel_announcement", 257: "node_announcement", 258: "channel_update", 261: "query_short_channel_ids",
               262: "reply_short_channel_ids_end", 263: "query_channel_range", 264: "reply_channel_range", 513: "onion_message"}


def delivered_items(m):
    """what the recording handlers log when message `m` is dispatched"""
    t = int(m[:4], 16) if len(m) >= 4 else -1
    out = []
    if t in CHAN_TYPES or t == 258 or 32768 <= t < 60000:
        out.append("M" + m)
    if t in ROUTE_NAMES:
        out.append("H:" + ROUTE_NAMES[t])
    return out


INIT = "001000000000"
NO_MODEL = {"max"}   # 130 kB literals overflow coqc's stack: implementation-side judge only


def observable(m):
    return any(it.startswith("M") for it in delivered_items(m))


def classify(m):
    """what the test generator knows about a plaintext frame: (dres expression or None, init_bad, handler_bad)"""
    if len(m) < 4:
        return None, False, False
    t = int(m[:4], 16)
    if t == 16:
        return None, m != INIT, False
    if t >= 60000:
        return None, False, t % 2 == 0
    if t in (256, 257, 258, 261, 262, 263, 264) and len(m) < 40:
        return "DErr ShortRead (Some %d)" % t, False, False
    if t in (32, 33, 34, 35) and len(m) < 40:
        return "DErr ShortRead (Some %d)" % t, False, False
    if t == 17:      # error message with all-zero channel id: handler asks for a disconnect
        return None, False, m[4:68] == "00" * 32
    return None, False, False


def raw_scenarios(ctx):
    rng = ctx.rng.fork("raw")
    quick = ctx.tier == "quick"
    sc = []

    def custom(n):
        return "%04x" % (32768 + (rng.below(27000) | 1)) + rand_hex(rng, n)

    base = [INIT, custom(3), custom(0), custom(20)]
    lens_in = [50, 66] + [len(m) // 2 + 34 for m in base]
    # honest, varied fragmentation (model must predict per-call observations)
    for k in range(6 if quick else 40):
        total = sum(lens_in)
        fr, left = [], total
        while left > 0:
            n = min(left, rng.choice([1, 1, 2, 3, 7, 16, 17, 18, 19, 33, 34, 49, 50, 51, 66, 100, 1000]))
            fr.append(n)
            left -= n
            if len(fr) > 60:
                fr.append(left)
                break
        sc.append(("honest-frag", "in", base, {"frags": fr}))
    sc.append(("honest-1byte", "in", [INIT, custom(1)], {"frags": [1] * 170}))
    sc.append(("honest-out", "out", base, {"frags": [1, 48, 1, 5]}))
    sc.append(("honest-out", "out", base, {}))
    # every offset of each act, of a length header, and a body sample
    for off in range(50):
        sc.append(("flip-act1", "in", [INIT, custom(2)], {"flips": [(off, 1 << rng.below(8))]}))
    for off in range(50, 116):
        sc.append(("flip-act3", "in", [INIT, custom(2)], {"flips": [(off, 1 << rng.below(8))], "frags": [50]}))
    for off in range(50):
        sc.append(("flip-act2", "out", [INIT, custom(2)], {"flips": [(off, 1 << rng.below(8))]}))
    f0 = 116 + len(INIT) // 2 + 34
    for off in range(18):
        sc.append(("flip-header", "in", [INIT, custom(5), custom(2)], {"flips": [(f0 + off, 1 << rng.below(8))], "frags": [116, 40], "shared": 1}))
    for off in [18, 19, 22, 24, 25, 38, 39, 40]:
        sc.append(("flip-body", "in", [INIT, custom(5), custom(2)], {"flips": [(f0 + off, 1 << rng.below(8))], "frags": [116], "shared": 1}))
    for off in range(116, 116 + 18):
        sc.append(("flip-init-header", "in", [INIT, custom(2)], {"flips": [(off, 1 << rng.below(8))], "frags": [116], "shared": 1}))
    # replay, reorder, truncation, insertion
    sc.append(("replay", "in", [INIT, custom(4), custom(5), custom(6)], {"replay": (1, 3)}))
    sc.append(("replay-first", "in", [INIT, custom(4), custom(5)], {"replay": (0, 2)}))
    sc.append(("swap", "in", [INIT, custom(4), custom(7), custom(6)], {"swap": (1, 2)}))
    for cut in (49, 50, 115, 116, 117, 133, 134, 150, f0 + 17, f0 + 18, f0 + 30):
        sc.append(("truncate", "in", [INIT, custom(5), custom(2)], {"cut": cut, "frags": [cut // 2]}))
    sc.append(("insert", "in", [INIT, custom(5), custom(2)], {"insert": (f0, rand_hex(rng, 7))}))
    sc.append(("insert", "in", [INIT, custom(5), custom(2)], {"insert": (f0 + 18, "00")}))
    # random bytes instead of a handshake
    for k in range(8 if quick else 80):
        n = rng.choice([1, 49, 50, 51, 116, 200, 400])
        g = rand_hex(rng, n)
        if rng.chance(1, 2):
            g = "00" + g[2:]
        sc.append(("garbage", "in" if rng.chance(2, 3) else "out", [], {"stream": g, "frags": [rng.choice([1, 10, 50, 51])]}))
    # well-formed but unexpected / malformed plaintext
    sc.append(("non-init-first", "in", [custom(3)], {}))
    sc.append(("non-init-first", "out", [custom(3)], {}))
    sc.append(("non-init-first-chan", "in", ["0026" + "11" * 32 + "0002aabb"], {}))
    sc.append(("ping-first", "in", ["0012000a0004aaaaaaaa"], {}))
    sc.append(("second-init", "in", [INIT, custom(1), INIT, custom(2)], {}))
    sc.append(("init-unknown-required-feature", "in", ["0010000000024000", custom(2)], {}))
    sc.append(("short-0", "in", [INIT, "", custom(2)], {}))
    sc.append(("short-1", "in", [INIT, "00", custom(2)], {}))
    sc.append(("short-first", "in", ["00"], {}))
    sc.append(("unknown-odd", "in", [INIT, "ea61" + rand_hex(rng, 5), custom(2)], {}))
    sc.append(("unknown-even", "in", [INIT, "ea60" + rand_hex(rng, 5), custom(2)], {}))
    sc.append(("bad-gossip", "in", [INIT, "0102" + rand_hex(rng, 5), custom(2)], {}))
    sc.append(("bad-gossip-before-init", "in", ["0102" + rand_hex(rng, 5), INIT, custom(2)], {}))
    sc.append(("bad-open-channel", "in", [INIT, "0020" + rand_hex(rng, 9), custom(2)], {}))
    sc.append(("ping-pong", "in", [INIT, "0012000a0004aaaaaaaa", "00130002bbbb", custom(2)], {}))
    sc.append(("error-zero-channel", "in", [INIT, "0011" + "00" * 32 + "0003616263", custom(2)], {}))
    sc.append(("warning", "in", [INIT, "0001" + "00" * 32 + "0003616263", custom(2)], {}))
    sc.append(("chan-msgs", "in", [INIT, "0026" + "11" * 32 + "0002aabb", custom(2)], {}))
    sc.append(("big", "in", [INIT, custom(5000)], {"frags": [116, 40, 1000, 1, 1]}))
    # EVERY message type the library decodes, as the first transport message instead of Init:
    # in the same read_event as the end of the handshake (our Init only queued) and in a later one
    # (our Init already on the wire), against an inbound and an outbound PeerManager
    for name, m in all_messages():
        sc.append(("first-" + name, "in", [m, custom(2)], {"frags": [116], "shared": 1}))
        sc.append(("first!" + name, "in", [m, custom(2)], {}))
        sc.append(("first!" + name, "out", [m, custom(2)], {"frags": [50]}))
        sc.append(("first!" + name, "out", [m, custom(2)], {}))
    for size, k, tlv in ((2, 1, False), (2, 2, False), (3, 3, True), (2, 3, False)):
        pre = [start_batch(size)] + [commitment_signed(batch_tlv=tlv)] * k
        sc.append(("first-batch-%d-%d" % (size, k), "in", pre + [custom(2)], {"frags": [116], "shared": 1}))
        sc.append(("first!batch-%d-%d" % (size, k), "out", pre + [custom(2)], {}))
    # ... and right after an accepted Init: the dispatch / batch path of the model against the code
    for name, m in all_messages():
        sc.append(("post-" + name, "in", [INIT, m, custom(2)], {"frags": [116], "shared": 1}))
    cs, cs2 = commitment_signed(), commitment_signed(chan=CH2)
    for nm, fr in (("batch-2", [start_batch(2), cs, cs, custom(3)]), ("batch-3-tlv", [start_batch(3), commitment_signed(batch_tlv=True)] * 1 + [cs, cs, custom(3)]),
                   ("batch-interrupted", [start_batch(2), cs, custom(3)]), ("batch-wrong-channel", [start_batch(2), cs2, cs]),
                   ("batch-size-1", [start_batch(1), cs, custom(3)]), ("batch-size-0", [start_batch(0), custom(3)]),
                   ("batch-size-20", [start_batch(20)] + [cs] * 20 + [custom(3)]), ("batch-size-21", [start_batch(21), cs]),
                   ("batch-no-type", [start_batch(2, False), cs, custom(3)]), ("batch-nested", [start_batch(2), start_batch(2)]),
                   ("batch-then-filter", [start_batch(2), "0109" + CHAIN + "0000000000000001"]), ("batch-twice", [start_batch(2), cs, cs, start_batch(2), cs, cs, custom(3)])):
        sc.append((nm, "in", [INIT] + fr, {"frags": [116], "shared": 1}))
    if not quick:
        sc.append(("max", "in", [INIT, custom(65533), custom(2)], {"frags": [116, 40, 30000]}))
    # well-formed messages whose numeric fields drive a reply or an allocation, after Init.
    # "wf-" are also predicted by the model (small frames), "wf!" are judged on the implementation
    # only (maximal frames; real P2PGossipSync behind the recording routing handler)
    for pl in (0, 1, 65531, 65532, 65533, 65535):
        for bl in (0, 1):
            sc.append(("wf-ping-%d-%d" % (pl, bl), "in", [INIT, "0012" + u(2, pl) + u(2, bl) + "00" * bl, custom(2)], {"frags": [116], "shared": 1}))
        sc.append(("wf!ping-%d-max" % pl, "in", [INIT, "0012" + u(2, pl) + u(2, 65529) + "00" * 65529, custom(2)], {}))
    sc.append(("wf-pings", "in", [INIT] + ["0012" + u(2, pl) + "0000" for pl in (65531, 65532, 0, 65531)] + [custom(2)], {"frags": [116, 30, 30], "shared": 1}))
    sc.append(("wf-ping-out", "out", [INIT, "0012" + u(2, 65531) + "0000", "0012" + u(2, 65532) + "0000", custom(2)], {}))
    for bl in (0, 1, 65531):
        sc.append(("wf!pong-%d" % bl, "in", [INIT, "0013" + u(2, bl) + "00" * bl, custom(2)], {}))
    U32 = (0, 1, 2 ** 31, 2 ** 32 - 2, 2 ** 32 - 1)
    for a in U32:
        for b in U32:
            sc.append(("wf!query_channel_range", "in", [INIT, "0107" + CHAIN + u(4, a) + u(4, b), custom(2)], {"gossip": 1}))
            sc.append(("wf!gossip_timestamp_filter", "in", [INIT, "0109" + CHAIN + u(4, a) + u(4, b), custom(2)], {"gossip": 1}))
    for a, b in ((0, 0), (2 ** 32 - 1, 2 ** 32 - 1), (1000, 2 ** 32 - 1)):
        for nsc in (0, 1, 8184):
            sc.append(("wf!reply_channel_range", "in", [INIT, "0108" + CHAIN + u(4, a) + u(4, b) + "01" + u(2, 1 + 8 * nsc) + "00" + u(8, 42) * nsc, custom(2)], {"gossip": 1}))
    for nsc in (0, 1, 8187):
        sc.append(("wf!query_short_channel_ids", "in", [INIT, "0105" + CHAIN + u(2, 1 + 8 * nsc) + "00" + "".join(u(8, 1 + i) for i in range(nsc)), custom(2)], {"gossip": 1}))
    sc.append(("wf!query_other_chain", "in", [INIT, "0107" + "00" * 32 + u(4, 0) + u(4, 2 ** 32 - 1), "0105" + "00" * 32 + "0009" + "00" + u(8, 42), custom(2)], {"gossip": 1}))
    for gl, fl, last in ((0, 65529, "00"), (65529, 0, "00"), (30000, 35529, "00"), (0, 65529, "02"), (0, 1, "02"), (0, 65529, "01"), (1, 0, "00")):
        feats = "00" * (fl - 1) + last if fl else ""
        sc.append(("wf!init-features-%d-%d-%s" % (gl, fl, last), "in", ["0010" + u(2, gl) + "00" * gl + u(2, fl) + feats, custom(2)], {}))
    for ty in ("0011", "0001"):
        sc.append(("wf!%s-max-data" % ty, "in", [INIT, ty + CH + u(2, 65499) + "61" * 65499, custom(2)], {}))
        sc.append(("wf!%s-empty-data" % ty, "in", [INIT, ty + CH + "0000", custom(2)], {}))
    for ty in ("ea61", "ea60", "8001", "8002"):
        for n in (0, 1, 65533):
            sc.append(("wf!type-%s-%d" % (ty, n), "in", [INIT, ty + "5a" * n, custom(2)], {}))
    return sc


def raw_line(i, role, frames, opts):
    # scenarios marked `shared` use one set of keys, so that the model evaluates their common
    # (honest, 116-byte) handshake once per group
    s = "raw %s %d frames=%s" % (role, 7777 if opts.get("shared") else 1000 + i, ",".join(f if f else "-" for f in frames))
    if "frags" in opts:
        s += " frags=" + ",".join(str(x) for x in opts["frags"])
    if "flips" in opts:
        s += " flips=" + ",".join("%d:%d" % x for x in opts["flips"])
    if "replay" in opts:
        s += " replay=%d@%d" % opts["replay"]
    if "swap" in opts:
        s += " swap=%d,%d" % opts["swap"]
    if "cut" in opts:
        s += " cut=%d" % opts["cut"]
    if "insert" in opts:
        s += " insert=%d:%s" % opts["insert"]
    if "stream" in opts:
        s += " stream=" + opts["stream"]
    if "gossip" in opts:
        s += " gossip=1"
    return s


def pm_level(ctx, model_ok):
    quick = ctx.tier == "quick"
    rng = ctx.rng.fork("pm")
    fails, dis, cov = [], [], {}
    # ---- honest PeerManager <-> PeerManager
    hl = []
    profiles = ["mixed", "tiny", "pressure", "smooth"]
    n_sc = 24 if quick else 200
    for i in range(n_sc):
        n = rng.choice([5, 20, 60, 150]) if i % 6 else (1400 if quick else 2600)
        hl.append("honest %d %d %s" % (rng.below(2 ** 40), n, profiles[i % 4]))
    rc, out = ctx.run_bin("h_peer", "\n".join(hl) + "\n", timeout=1500)
    out = [l for l in out if l]
    if rc != 0 or len(out) != len(hl):
        ctx.violation("harness h_peer did not produce one result per honest scenario", {"broken": "correspondence:h_peer", "rc": rc, "n_out": len(out)}, False)
        return None, None, {}
    agg = {"scenarios": 0, "messages": 0, "fragments": 0, "one_byte": 0, "short_writes": 0, "zero_writes": 0, "send_calls": 0, "bytes": 0, "max_msgs_one_direction": 0}
    for line, o in zip(hl, out):
        if o == "PANIC":
            fails.append({"kind": "panic with two honest PeerManagers", "input": line, "replay_cmd": "echo '%s' | %s" % (line, ctx.bin_path("h_peer"))})
            continue
        j = json.loads(o)
        agg["scenarios"] += 1
        agg["messages"] += sum(j["queued"])
        agg["max_msgs_one_direction"] = max(agg["max_msgs_one_direction"], max(j["queued"]))
        for k in ("fragments", "one_byte", "short_writes", "zero_writes", "send_calls"):
            agg[k] += j[k]
        agg["bytes"] += sum(j["bytes"])
        if not j["ok"]:
            fails.append({"kind": "honest PeerManager pair: " + "; ".join(j["why"]), "input": line, "observed": {k: j[k] for k in ("queued", "fragments", "short_writes", "zero_writes")}, "replay_cmd": "echo '%s' | %s" % (line, ctx.bin_path("h_peer"))})
    cov["honest_pm_pairs"] = agg
    if out and out[0] != "PANIC":
        ctx.samples.append(json.loads(out[0]))
    # ---- harness peer vs one PeerManager
    sc = raw_scenarios(ctx)
    rl = [raw_line(i, role, frames, opts) for i, (name, role, frames, opts) in enumerate(sc)]
    rc, out = ctx.run_bin("h_peer", "\n".join(rl) + "\n", timeout=1500)
    out = [l for l in out if l]
    if rc != 0 or len(out) != len(rl):
        ctx.violation("harness h_peer did not produce one result per raw scenario", {"broken": "correspondence:h_peer", "rc": rc, "n_out": len(out)}, False)
        return None, None, cov
    hist = {}
    exprs, emeta, shared = [], [], []
    first_seen, undecodable = set(), set()
    for (name, role, frames, opts), line, o in zip(sc, rl, out):
        rep = "echo '%s' | %s" % (line[:600], ctx.bin_path("h_peer"))
        if o == "PANIC":
            fails.append({"kind": "panic in the harness peer scenario " + name, "input": line[:600], "replay_cmd": rep})
            continue
        j = json.loads(o)
        res = [x["res"] for x in j["obs"]]
        items = [it for x in j["obs"] for it in x["items"]]
        key = re.sub(r"^(first.|post-|wf.).*", r"\1*", name) + ":" + ("panic" if j["panic"] else "err" if "err" in res else "ok")
        hist[key] = hist.get(key, 0) + 1
        # --- judge on the implementation
        if j["panic"]:
            fails.append({"kind": "PeerManager panicked on peer input (%s)" % name, "input": line[:600], "replay_cmd": rep})
        msgs_seen = [it[1:] for it in items if it.startswith("M")]
        if msgs_seen and "C" not in items[:items.index("M" + msgs_seen[0])]:
            fails.append({"kind": "a message reached a handler before the peer's Init was accepted (%s)" % name, "input": line[:600], "delivered": msgs_seen[:3], "replay_cmd": rep})
        # expected deliveries: the observable plaintexts, in order, up to the first frame that is
        # corrupted / unacceptable
        honest_stream = "stream" not in opts and not any(k in opts for k in ("flips", "replay", "swap", "cut", "insert"))
        exp_all = [m for m, d in zip(frames, j["dec"]) if observable(m) and d.startswith("ok")]
        calls = [it for it in items if it not in ("X",)]
        if not j["panic"] and not j.get("replies_ok", True):
            fails.append({"kind": "the PeerManager put bytes on the wire that the peer's real decryptor does not accept as frames (%s): %s" % (name, ", ".join(j["replies"][-2:])), "input": line[:600], "replay_cmd": rep})
        if name.startswith("wf") and ("dead" in res or "panic" in res) and False:
            pass
        if name.startswith("first"):
            # nothing may reach ANY handler method, peer_connected must not be called, and (when the
            # frame decodes, i.e. gets as far as the gate) the connection must be dropped
            if calls:
                fails.append({"kind": "before the peer's Init a handler was called (%s): %s" % (name[6:], ", ".join(c[:40] for c in calls[:3])), "input": line[:600], "replay_cmd": rep})
            if j["dec"] and j["dec"][0].startswith("ok") and "err" not in res and "panic" not in res:
                fails.append({"kind": "a %s sent instead of Init did not get the peer disconnected" % name[6:], "input": line[:600], "replay_cmd": rep})
            first_seen.add(name[6:])
            if j["dec"] and not j["dec"][0].startswith("ok"):
                undecodable.add(name[6:])
        if name.startswith("batch") or "batch" in name:
            pass    # batch deliveries are one handler call for several frames: compared through the model
        elif msgs_seen != exp_all[:len(msgs_seen)]:
            fails.append({"kind": "a handler received something that was not sent, twice, or out of order (%s)" % name, "input": line[:600], "delivered": [m[:60] for m in msgs_seen[:5]], "replay_cmd": rep})
        if "flips" in opts:
            off = opts["flips"][0][0]
            # index of the piece containing the flipped byte; nothing from that piece on may be delivered
            acc, idx = 0, None
            for pi, pl in enumerate(j["piece_lens"]):
                if off < acc + pl:
                    idx = pi
                    break
                acc += pl
            hs = 2 if role == "in" else 1
            allowed = [m for m in frames[:max(0, (idx if idx is not None else 0) - hs)] if observable(m)]
            if "err" not in res and "panic" not in res:
                fails.append({"kind": "a corrupted byte (stream offset %d, %s) did not disconnect the peer" % (off, name), "input": line[:600], "replay_cmd": rep})
            if msgs_seen != allowed[:len(msgs_seen)] or len(msgs_seen) > len(allowed):
                fails.append({"kind": "a message at or after the corrupted frame was delivered (%s, offset %d)" % (name, off), "input": line[:600], "delivered": [m[:60] for m in msgs_seen], "replay_cmd": rep})
        if name in ("replay", "replay-first", "swap", "insert"):
            if "err" not in res:
                fails.append({"kind": "%s did not disconnect the peer" % name, "input": line[:600], "replay_cmd": rep})
        if name == "replay" and len(msgs_seen) > len(exp_all):
            fails.append({"kind": "a replayed frame was delivered again", "input": line[:600], "replay_cmd": rep})
        if name.startswith("short") and "err" not in res:
            fails.append({"kind": "a frame shorter than the message type did not disconnect", "input": line[:600], "replay_cmd": rep})
        if name.startswith("non-init-first") and (msgs_seen or "err" not in res):
            fails.append({"kind": "a non-Init first message was not refused", "input": line[:600], "delivered": msgs_seen[:2], "replay_cmd": rep})
        if name.startswith("honest") and (("err" in res) or msgs_seen != exp_all):
            fails.append({"kind": "an honest stream was not delivered (%s)" % name, "input": line[:600], "delivered": len(msgs_seen), "expected": len(exp_all), "replay_cmd": rep})
        # --- model prediction for the same bytes and the same fragmentation
        if model_ok and not j["panic"] and name not in NO_MODEL and not name.startswith("first!") and not name.startswith("wf!"):
            cv = curve_expr(j["pubs"], j["dh"], j["valid"])
            dtbl, ib, hb = [], [], []
            for m in frames:
                d, i_bad, h_bad = classify(m)
                if d:
                    dtbl.append("(%s, %s)" % (B(m), d))
                if i_bad:
                    ib.append(B(m))
                if h_bad:
                    hb.append(B(m))
            frs = "[" + "; ".join(B(x) for x in j["frags"]) + "]"
            tabs = "[%s] [%s] [%s]" % ("; ".join(dtbl), "; ".join(ib), "; ".join(hb))
            if opts.get("shared") and role == "in" and j["frags"] and len(j["frags"][0]) == 232:
                shared.append(((name, role, line, j), cv, dtbl, ib, hb))
            elif role == "in":
                exprs.append("rd_in %s (%s) (%s) %s %s" % (cv, B(j["pm_secret"]), B(j["pm_eph"]), tabs, frs))
            else:
                exprs.append("rd_out %s (%s) (%s) (%s) %s %s" % (cv, B(j["pm_secret"]), B(j["pm_eph"]), B(j["h_static_pub"]), tabs, frs))
            if not (opts.get("shared") and role == "in" and j["frags"] and len(j["frags"][0]) == 232):
                emeta.append((name, role, line, j))
    # groups of scenarios with the same keys and the same first read_event (the honest handshake)
    groups = []
    shared.sort(key=lambda x: (x[0][3]["frags"][0], x[1]))
    GS = 14
    while shared:
        head = shared[0]
        grp = [x for x in shared[:GS] if x[0][3]["frags"][0] == head[0][3]["frags"][0] and x[1] == head[1]]
        shared = shared[len(grp):]
        dt = sorted(set(d for x in grp for d in x[2]))
        ibs = sorted(set(d for x in grp for d in x[3]))
        hbs = sorted(set(d for x in grp for d in x[4]))
        j0 = head[0][3]
        tails = "[" + "; ".join("[" + "; ".join(B(f) for f in x[0][3]["frags"][1:]) + "]" for x in grp) + "]"
        exprs.append("rd_in_multi %s (%s) (%s) [%s] [%s] [%s] (%s) %s" % (head[1], B(j0["pm_secret"]), B(j0["pm_eph"]), "; ".join(dt), "; ".join(ibs), "; ".join(hbs), B(j0["frags"][0]), tails))
        groups.append([x[0] for x in grp])
    cov["raw_scenarios"] = len(sc)
    cov["first_message_types_tried"] = len(first_seen)
    cov["first_message_frames_not_decodable"] = sorted(undecodable)
    if len(first_seen) - len(undecodable) < 45:
        dis.append({"topic": "first-message sweep: too few of the generated frames decode any more", "undecodable": sorted(undecodable)})
    cov["raw_result_histogram"] = hist
    if model_ok and exprs:
        t0 = time.time()
        vals = ctx.coq_eval("c15_reader", IMPORTS, exprs, prelude=PRELUDE, shards=16, timeout=1500)
        ctx.log("reader model evaluation: %d scenarios (%d expressions) in %.0fs" % (len(emeta) + sum(len(g) for g in groups), len(exprs), time.time() - t0))
        n_calls = 0
        TUP = r"\(\[([^\]]*)\],\s*\"(\w+)\"\)"
        results = []
        for (name, role, line, j), v in zip(emeta, vals[:len(emeta)]):
            if role == "out":
                a1 = strs(v)[0]
                if a1 != j["pm_first"]:
                    dis.append({"topic": "act one of an outbound PeerManager", "input": line[:400], "impl": j["pm_first"], "model": a1})
                    continue
                v = v[v.index(a1) + len(a1) + 1:]
            # split the printed list of (events, status) pairs
            results.append(((name, role, line, j), re.findall(TUP, v)))
        for grp, v in zip(groups, vals[len(emeta):]):
            flat = re.findall(TUP, v)
            pos = 0
            for meta in grp:
                k = len(meta[3]["frags"])
                results.append((meta, flat[pos:pos + k]))
                pos += k
            if pos != len(flat):
                dis.append({"topic": "reader (grouped evaluation): number of read_event calls", "impl": pos, "model": len(flat)})
        for (name, role, line, j), calls in results:
            if len(calls) != len(j["obs"]):
                dis.append({"topic": "reader: number of read_event calls", "input": line[:400], "impl": len(j["obs"]), "model": len(calls)})
                continue
            dead = False
            batch = None
            # replies the model says the gate enqueues (pongs) vs. what the peer really received
            model_r = [(e[1:9], int(e[10:], 16)) for evs0, _ in calls for e in strs(evs0) if e.startswith("R")]
            impl_r = [(x.split(":")[2], int(x.split(":")[1])) for x in j.get("replies", []) if x.startswith("19:")]
            if model_r != impl_r and "err" not in [x["res"] for x in j["obs"]]:
                dis.append({"topic": "replies (%s)" % name, "input": line[:400], "impl": impl_r, "model": model_r})
                continue
            for ci, ((evs, status), ob) in enumerate(zip(calls, j["obs"])):
                n_calls += 1
                evs = strs(evs)
                want_items, cur = [], None
                for e in evs:
                    if e.startswith("F"):
                        cur = e[1:]
                        if cur[:4] == "007f" and cur[68:72] and cur[72:] == "01020084" and 2 <= int(cur[68:72], 16) <= 20 and batch is None:
                            batch = int(cur[68:72], 16)     # only relevant if the model goes on to deliver
                    elif e == "I":
                        want_items.append("C")
                    elif e == "D" and cur is not None:
                        if cur[:4] == "0084" and batch is not None:
                            want_items.append("Mbatch%d" % batch)   # handle_commitment_signed_batch
                            batch = None
                        else:
                            want_items += delivered_items(cur)
                got_items = [it for it in ob["items"] if it not in ("X", "c")]
                want_res = "dead" if dead else ("ok" if status == "alive" else "err" if status == "disconnected" else status)
                if status != "alive":
                    dead = True
                bad = got_items != want_items or ob["res"] != want_res
                # a handshake act queued during a call that ended in Err is never flushed
                for e in evs:
                    if e.startswith("O") and ob["res"] == "ok" and not ob["sent"].startswith(e[1:]):
                        bad = True
                if bad:
                    dis.append({"topic": "reader events (%s)" % name, "input": line[:400], "call": ci, "fragment": j["frags"][ci][:80],
                                "impl": {"res": ob["res"], "items": [x[:60] for x in got_items], "sent": ob["sent"][:100]},
                                "model": {"status": status, "events": [x[:60] for x in evs]}})
                    break
        cov["reader_calls_compared"] = n_calls
    return dis, fails, cov


# ----------------------------------------------------------------- real socket driver (lightning-net-tokio)
def tokio_level(ctx, model_ok):
    """back-pressure through the real driver: judged on the implementation, with bounded waits.
    A failing case is repeated with a longer limit before it counts (machine load must not raise an
    alarm); a case the environment cannot run (no localhost sockets) is reported, not failed."""
    rng = ctx.rng.fork("tokio")
    quick = ctx.tier == "quick"
    lines = ["pause %d %d 5000" % (rng.below(2 ** 40), rng.choice([3, 10, 25, 60])) for _ in range(6 if quick else 40)]
    rc, out = ctx.run_bin("h_peer_tokio", "\n".join(lines) + "\n", timeout=600)
    out = [l for l in out if l]
    fails, cov = [], {"cases": 0, "skipped": [], "pause_engaged": 0, "retried": 0, "max_ms": 0}
    if rc != 0 or len(out) != len(lines):
        return [{"topic": "h_peer_tokio did not produce one result per case", "rc": rc, "n_out": len(out)}], [], {"tokio": cov}
    for line, o in zip(lines, out):
        if o == "PANIC":
            fails.append({"kind": "panic with two PeerManagers over lightning-net-tokio", "input": line})
            continue
        j = json.loads(o)
        if "skipped" in j:
            cov["skipped"].append(j["skipped"])
            continue
        cov["cases"] += 1
        if not j["ok"]:
            # repeat twice with a 15 s limit: only a reproducible failure counts
            cov["retried"] += 1
            again = " ".join(line.split()[:3]) + " 15000"
            rc2, out2 = ctx.run_bin("h_peer_tokio", again + "\n" + again + "\n", timeout=200)
            js = [json.loads(x) for x in out2 if x.startswith("{")]
            if len(js) == 2 and all(not x.get("ok", True) for x in js):
                fails.append({"kind": "over lightning-net-tokio: " + "; ".join(js[0]["why"]), "input": again, "observed": {k: js[0].get(k) for k in ("sent", "delivered", "pause_engaged")}})
            continue
        cov["pause_engaged"] += 1 if j.get("pause_engaged") else 0
        cov["max_ms"] = max(cov["max_ms"], j.get("ms", 0))
    if out and out[0].startswith("{"):
        ctx.samples.append(json.loads(out[0]))
    return [], fails, {"tokio": cov}


def release_level(ctx, model_ok):
    """thorough only: the first-message and well-formed-message sweeps again on a release build
    (no debug assertions, wrapping arithmetic): no panic, legal replies, nothing before Init"""
    if ctx.tier != "thorough":
        return [], [], {}
    ok_build, out = ctx.build_harness(["h_peer"], release=True)
    if not ok_build:
        return [{"topic": "release build of h_peer failed", "log": out[-1500:]}], [], {}
    sc = [x for x in raw_scenarios(ctx) if x[0].startswith(("first", "wf", "short", "non-init", "batch"))]
    rl = [raw_line(i, role, frames, opts) for i, (name, role, frames, opts) in enumerate(sc)]
    rc, out = ctx.run_bin("h_peer", "\n".join(rl) + "\n", timeout=1500, release=True)
    out = [l for l in out if l]
    fails = []
    if rc != 0 or len(out) != len(rl):
        return [{"topic": "release h_peer did not produce one result per scenario", "rc": rc}], [], {}
    for (name, role, frames, opts), line, o in zip(sc, rl, out):
        if o == "PANIC":
            fails.append({"kind": "release build: panic in scenario " + name, "input": line[:600], "release": True})
            continue
        j = json.loads(o)
        items = [it for x in j["obs"] for it in x["items"] if it != "X"]
        if j["panic"]:
            fails.append({"kind": "release build: PeerManager panicked on peer input (%s)" % name, "input": line[:600], "release": True})
        if not j.get("replies_ok", True):
            fails.append({"kind": "release build: undecryptable bytes on the wire (%s)" % name, "input": line[:600], "release": True})
        if name.startswith("first") and items:
            fails.append({"kind": "release build: before the peer's Init a handler was called (%s)" % name[6:], "input": line[:600], "release": True})
    return [], fails, {"release_scenarios": len(sc)}


# ----------------------------------------------------------------- run
def run(ctx):
    ok_build, out = ctx.build_harness(BINS)
    if not ok_build:
        ctx.violation("harness does not build against the current tree", {"broken": "harness-build", "log_tail": out[-3000:]}, False)
        ctx.write_evidence(LEVEL)
        return
    gen_err = None
    try:
        generate(ctx)
    except Exception as ex:
        gen_err = str(ex)
        ctx.log("generation refused:", gen_err)
        ctx.consts = {"ROT_SEND": 1000, "ROT_RECV": 1000, "LN_MAX_MSG_LEN": 65535, "MIN_MSG_LEN": 2}
    proved, okm = False, False
    if gen_err is None:
        okm, outm = ctx.coq_make(["Model/NoiseInst.vo"])
        if not okm:
            ctx.log("model build failed:", outm[-1500:])
        proved = ctx.prove("C15")
        if proved and ctx.tier == "thorough":
            # independent re-check of the compiled closure by the standalone checker
            rc, outc, t = core.sh(["coqchk", "-silent", "-o", "-Q", core.COQ, "LdkV", "LdkV.Props.C15"], timeout=1500)
            ctx.timed("coqchk_s", t)
            okc = rc == 0 and "Axioms: <none>" in outc
            ctx.obligations.append(("coqchk LdkV.Props.C15 (closure re-checked, no axioms)", okc, outc[-400:] if not okc else "ok"))
            if not okc:
                proved = False
                ctx.proof_failure = {"where": "coqchk", "enclosing": "", "log_tail": outc[-1500:]}
    else:
        ctx.obligations.append(("regeneration of Gen/NoiseConsts.v", False, gen_err))
        # the previous generation is still on disk: use it for the model side if it builds
        okm, _ = ctx.coq_make(["Model/NoiseInst.vo"])
    ctx.trusted_base += [
        "Coq 8.16.1 kernel + vm_compute (no native_compute)",
        "tools/props/C15.py generate(): pattern extraction of the rotation thresholds, LN_MAX_MSG_LEN, the msg_len lower bound, NOISE_CK/NOISE_H; ordered-anchors check of the Init gate position",
        "Model/Noise.v, Framing.v, PeerGate.v, PeerRead.v: hand transliterations, tied by functional correspondence (h_noise through lightning feature _verif_hooks; h_peer through the public PeerManager API)",
        "coq/Crypto (Gallina ChaCha20-Poly1305, HKDF, SHA-256), itself checked against RFC vectors and, here, against the real ciphertexts",
        "secp256k1 (public keys, encodings accepted, ECDH) enters the model as data produced by the Rust side",
        "section hypotheses of the handshake theorem: dh a (pub b) = dh b (pub a), |pub a| = 33, pub a is a valid key",
        "premise of C15_tamper_disconnects (INT-CTXT for the stream at hand): the chunk that differs from the honest ciphertext does not open under the receiver's key and nonce",
        "harness crate /verif/harness (h_noise, h_peer, h_peer_tokio; src/c15_common.rs recording handlers)",
        "lightning-net-tokio is exercised, not modelled: its send_data is pinned structurally (flag update and wake-up before the empty-data return) and judged through a real localhost socket pair with bounded waits",
    ]
    ctx.assumptions += ["ECDH symmetry / key encoding laws (handshake)", "ciphertext integrity of ChaCha20-Poly1305 (tamper theorem premise)",
                        "SocketDescriptor::send_data returns at most the length offered (trait contract)"]
    internal = []

    def level(name, fn):
        # a level that cannot even be evaluated is a broken correspondence, not a crash of the check:
        # the other levels (and their judges) still run
        t0 = time.time()
        try:
            r = fn(ctx, okm)
        except Exception as ex:  # noqa: BLE001
            import traceback
            internal.append({"level": name, "exception": repr(ex), "trace": traceback.format_exc()[-1500:]})
            ctx.log("level %s could not be evaluated: %r" % (name, ex))
            r = None
        ctx.timed(name + "_level_s", time.time() - t0)
        return r

    c = level("cipher", cipher_level)
    k = level("corrupt", corrupt_level)
    p = level("pm", pm_level)
    tk = level("tokio", tokio_level)
    rel = level("release", release_level)
    dis, fails = [], []
    for name, r in (("cipher", c), ("corrupt", k), ("pm", p), ("tokio", tk), ("release", rel)):
        if r is None or r[0] is None:
            continue
        dis += [dict(d, level=name) for d in r[0]]
        fails += r[1]
        ctx.coverage.update(r[2])
    cov = ctx.coverage
    n_eval = cov.get("cipher_ops_compared", 0) + cov.get("corrupted_acts", 0) + cov.get("corrupted_frames", 0) + cov.get("reader_calls_compared", 0) \
        + cov.get("honest_pm_pairs", {}).get("messages", 0) + int((cov.get("volume") or {}).get("n") or 0)
    cov["evaluations"] = n_eval
    cov["distinct_nontrivial"] = cov.get("cipher_ops_compared", 0) + cov.get("corrupted_acts", 0) + cov.get("corrupted_frames", 0) + cov.get("raw_scenarios", 0) \
        + cov.get("honest_pm_pairs", {}).get("scenarios", 0)
    cov["rule"] = ("distinct = cipher operations compared byte for byte with the model (each a different key/nonce/message), corrupted acts/frames at distinct offsets, "
                   "distinct harness-peer scenarios (stream, corruption, fragmentation), distinct honest PeerManager-pair schedules; non-trivial = reaches the encryptor or the reader")
    cov["translated_items"] = getattr(ctx, "gen_meta", [])
    # ---- decide (DESIGN.md section 9)
    broken = []
    if gen_err is not None:
        broken.append({"obligation": "regeneration of Gen/NoiseConsts.v from the source", "detail": gen_err})
    if not proved and gen_err is None:
        broken.append({"obligation": "Coq proof of Props/C15.v", "detail": getattr(ctx, "proof_failure", None)})
    if dis:
        broken.append({"correspondence": "model vs implementation", "first_disagreements": dis[:4], "n": len(dis)})
    if internal:
        broken.append({"correspondence": "a correspondence level could not be evaluated", "detail": internal})
    if fails:
        seen = set()
        for f in fails:
            cls = re.sub(r"\d+", "N", f["kind"])
            if cls in seen:
                continue
            seen.add(cls)
            if len(seen) > 3:
                break
            ctx.violation("C15 fails on the implementation: " + f["kind"], {"broken": broken, "failing_input": f}, True)
    elif broken:
        # bounded search for a concrete failing input on the implementation alone
        extra = search_more(ctx)
        if extra:
            ctx.violation("C15 fails on the implementation: " + extra["kind"], {"broken": broken, "failing_input": extra}, True)
        else:
            what = "regeneration refused" if gen_err else ("proof" if not proved else "correspondence") + " broken"
            ctx.violation("C15 no longer shown: " + what, {"broken": broken, "search": "implementation-side judges over %d evaluations plus an extended honest/volume sweep found no failing input" % n_eval}, False)
    ctx.write_evidence(LEVEL)


def search_more(ctx):
    """extended implementation-only search used when a proof or the correspondence broke but the
    regular judges found nothing: more and longer honest schedules, a longer volume run"""
    rng = ctx.rng.fork("search")
    t_end = time.time() + (50 if ctx.tier == "quick" else 600)
    hl = ["honest %d %d %s" % (rng.below(2 ** 40), n, p) for n in (1500, 2600, 300, 300) for p in ("mixed", "pressure")]
    rc, out = ctx.run_bin("h_peer", "\n".join(hl) + "\n", timeout=max(30, int(t_end - time.time())))
    for line, o in zip(hl, [l for l in out if l]):
        if o == "PANIC":
            return {"kind": "panic with two honest PeerManagers", "input": line}
        try:
            j = json.loads(o)
        except ValueError:
            continue
        if not j["ok"]:
            return {"kind": "honest PeerManager pair: " + "; ".join(j["why"]), "input": line}
    rc, out = ctx.run_bin("h_noise", "hs %s %s %s %s\nvolume 8000 %d 0\n" % ("11" * 32, "12" * 32, "21" * 32, "22" * 32, rng.below(2 ** 32)), timeout=max(30, int(t_end - time.time())))
    o = [l for l in out if l]
    if len(o) == 2 and fields(o[1]).get("bad", "-") != "-":
        return {"kind": "volume run: " + fields(o[1])["bad"].replace("_", " "), "input": "volume 8000"}
    return None


def replay(ctx, rep):
    fi = rep.get("failing_input") or {}
    print(json.dumps({k: rep.get(k) for k in ("what", "seed", "tier", "failing_input_found")}, indent=1))
    line = fi.get("input")
    if not line:
        print(json.dumps(rep.get("broken"), indent=1)[:4000])
        return 0
    ok_build, out = ctx.build_harness(BINS)
    if not ok_build:
        print("harness does not build")
        return 1
    binname = "h_peer" if line.split()[0] in ("honest", "raw") else "h_peer_tokio" if line.split()[0] == "pause" else "h_noise"
    line = line.rstrip("\n")
    pre = ""
    if fi.get("state"):
        pre = fi["state"] + "\n"
    rc, out = ctx.run_bin(binname, pre + line + "\n")
    print("\n".join(l[:2000] for l in out if l))
    return 0
