"""C19 - stored channel state is never lost or torn by the storage layer.

Coq: Model/KV.v (KVStore contract incl. lazy removals), Model/MUP.v (MonitorUpdatingPersister),
Model/FsStoreProto.v (FilesystemStore's versioned-write protocol), Props/C19.v.
Tie: (1) real FilesystemStore v1/v2 on random operation sequences against the KV model and a reference
map, concurrent histories judged by a linearizability check; (2) the real MonitorUpdatingPersister with
REAL ChannelMonitors/ChannelMonitorUpdates from a two-node scenario over a recording store: its store
operations are compared call-by-call with the model's, and recovery is attempted at every crash prefix
with several choices of which lazy removals took effect; (3) open hypothesis H1 replayed on the real
MonitorUpdatingPersisterAsync over an out-of-order asynchronous store."""
import json
import os
import re
import sys

from vlib import core

BINS = ["h_fsstore", "h_mup"]
LEVEL = "proof"
MANIFEST = {
    "category": "proof",
    "text": "Coq theorems: (a) MonitorUpdatingPersister over the KVStore contract is crash consistent for every abstract monitor/apply, every maximum_pending_updates, every ChainMonitor-disciplined history, every crash prefix of store operations and every subset of pending lazy removals (recovery returns exactly the in-memory monitor before or after the interrupted call); clean-up only removes ids <= a durably written monitor; (b) asynchronous store: for EVERY durability outcome of every call recovery returns an in-memory monitor of the history at least as recent as everything that can have been reported persisted (holds for the code after fix 6ef6bbe, found by this check); (c) FilesystemStore's version/lock-table protocol keeps per key the last issued write for every schedule with ordered issues, versions never regress. Tied by differential execution of the real stores and of the real (sync and async) persister with real monitors.",
    "note": "Assumed: POSIX rename/unlink atomicity and fsync durability (no power-loss simulation), std::sync primitives. FsStoreProto is tied to the Rust by reading plus sequential/concurrent differential runs, not by a proof; the tokio API of FilesystemStore is not executed. Finding H1 (async persister + out-of-order durability made recovery panic) was found by this check and fixed in /repo (6ef6bbe); it stays in the generator.",
    "technique": "machine-checked proof in Coq (invariants over operation prefixes / schedules) + differential correspondence + linearizability judge",
}
KEY_H1 = "C19:async-out-of-order-durability"
COQ_IMPORTS = ["LdkV.Prim.U64", "LdkV.Model.KV", "LdkV.Model.MUP", "LdkV.Model.FsStoreProto", "LdkV.Model.BlockSync"]

PRELUDE = r"""
Open Scope Z_scope.
Definition keqb (a b : Z * Z) : bool := (fst a =? fst b) && (snd a =? snd b).
Inductive top := TW (n k v : Z) | TD (n k : Z) (lazy : bool) | TG (n k : Z) | TL (n : Z).
Open Scope string_scope.
Definition obs (s : sstate (Z * Z) Z) : store (Z * Z) Z := view keqb s (limbo s).
Fixpoint run_kv (s : sstate (Z * Z) Z) (ops : list top) : list string :=
  match ops with
  | [] => []
  | TW n k v :: r => "ok" :: run_kv (apply_sop keqb s (SWrite (n, k) v)) r
  | TD n k lazy :: r => "ok" :: run_kv (apply_sop keqb s (SRemove (n, k) lazy)) r
  | TG n k :: r => (match kv_get keqb (obs s) (n, k) with Some v => zs v | None => "none" end) :: run_kv s r
  | TL n :: r => String.concat "," (map zs (zsort (map snd (kv_keys (obs s) (fun nk => (fst nk =? n)%Z))))) :: run_kv s r
  end.
(* the same operations through the FilesystemStore protocol model, one operation at a time *)
Definition fs_seq (ops : list fop) : option fstate :=
  frun ops (flat_map (fun i => match f_kind (opn ops i) with
                               | FRead => [LRef i; LExec i; LClean i]
                               | _ => [LFetch i; LRef i; LExec i; LClean i] end) (seq 0 (List.length ops))).
Definition show_fs (ops : list fop) (keys : list Z) : list string :=
  match fs_seq ops with
  | None => ["STUCK"]
  | Some st => (if all_done ops st then "done" else "notdone")
               :: map (fun k => (match f_fs st k with Some v => zs v | None => "none" end) ++ (match f_locks st k with None => "" | Some _ => "+lock" end)) keys
               ++ map (fun i => match f_obs st i with Some (Some v) => zs v | Some None => "none" | None => "-" end) (seq 0 (List.length ops))
  end.
(* asynchronous FilesystemStore: all issues first, then completions one by one *)
Fixpoint run_steps (ops : list fop) (st : fstate) (groups : list (list label)) (keys : list Z) : list string :=
  match groups with
  | [] => []
  | g :: r =>
    match frun_from ops st g with
    | None => ["STUCK"]
    | Some st' =>
      (String.concat " " (map (fun k => match f_fs st' k with Some v => zs v | None => "none" end) keys)
       ++ (if forallb (fun k => match f_locks st' k with None => true | Some _ => false end) keys then "" else " +lock"))
      :: run_steps ops st' r keys
    end
  end.
(* MonitorUpdatingPersister: abstract monitors carry only their id *)
Definition mon (i : Z) : monitor unit := {| mid := i; mst := tt |}.
Definition uidz (u : Z) : Z := u.
Definition show_op (o : sop mkey (val unit Z)) : string :=
  match o with
  | SWrite (KMon _) _ => "W:M"
  | SWrite (KUpd _ i) _ => "W:U:" ++ zs i
  | SWrite (KArch _) _ => "W:A"
  | SWrite (KOther _) _ => "W:X"
  | SRemove (KUpd _ i) lazy => "R:U:" ++ zs i ++ (if lazy then ":1" else ":0")
  | SRemove (KMon _) lazy => "R:M" ++ (if lazy then ":1" else ":0")
  | SRemove _ _ => "R:X"
  end.
Fixpoint trace (maxp : Z) (s : sstate mkey (val unit Z)) (cs : list (call unit Z)) : list string :=
  match cs with
  | [] => []
  | c :: r =>
    let c' := match c with CCleanup lazy _ => CCleanup lazy (limbo s) | _ => c end in
    let ops := call_ops unit Z uidz maxp s c' in
    String.concat " " (map show_op ops) :: trace maxp (apply_sops mkey_eqb s ops) r
  end.
(* the same with per-call outcomes (failed write / subset of removals) *)
Fixpoint trace_f (maxp : Z) (s : sstate mkey (val unit Z)) (cs : list (call unit Z)) (xs : list csel) : list string :=
  match cs, xs with
  | c :: r, x :: xr =>
    let c' := match c with CCleanup lazy _ => CCleanup lazy (limbo s) | _ => c end in
    let ops := sel_ops unit Z (call_ops unit Z uidz maxp s c') x in
    String.concat " " (map show_op ops) :: trace_f maxp (apply_sops mkey_eqb s ops) r xr
  | _, _ => []
  end.
"""


def pin_cleanup_guard():
    """Anchored structural pin: in update_persisted_channel both clean-ups after the full-monitor write must
    sit inside `if let Ok(()) = write_status { ... }` (a proof obligation of C19_mup_faulty_crash_consistent:
    the model applies nothing when the write failed)."""
    src = open(os.path.join(core.REPO, "lightning/src/util/persist.rs")).read()
    a = src.find("let write_status = write_fut.await;")
    if a < 0:
        raise ValueError("C19 generate: anchor `let write_status = write_fut.await;` not found")
    b = src.find("write_status\n", a + 40)
    seg = src[a:b if b > 0 else a + 1500]
    g = seg.find("if let Ok(()) = write_status {")
    if g < 0:
        raise ValueError("C19 generate: guard `if let Ok(()) = write_status {` not found after the full-monitor write")
    depth, end = 0, None
    for i in range(g, len(seg)):
        if seg[i] == "{":
            depth += 1
        elif seg[i] == "}":
            depth -= 1
            if depth == 0:
                end = i
                break
    inside = seg[g:end] if end else ""
    for call in ("cleanup_stale_updates_for_monitor_to(", "cleanup_in_range("):
        if call not in inside or seg.count(call) != inside.count(call):
            raise ValueError("C19 generate: `%s` is not (only) inside the `if let Ok(()) = write_status` guard" % call[:-1])
    return {"pin": "cleanup guarded by write_status", "file": "lightning/src/util/persist.rs", "offset": a}


def pin_version_after_callback():
    """Anchored structural pin: in fs_store/common.rs `execute_locked_write` the per-key version advances
    (`*last_written_version = version`) exactly once and only on the success path of the callback (the LExec
    step of Model/FsStoreProto.v leaves l_last alone for an FFail operation)."""
    src = open(os.path.join(core.REPO, "lightning-persister/src/fs_store/common.rs")).read()
    a = src.find("fn execute_locked_write<")
    if a < 0:
        raise ValueError("C19 generate: `fn execute_locked_write` not found in fs_store/common.rs")
    b = src.find("\n\tfn ", a + 10)
    body = src[a:b if b > 0 else a + 2500]
    code = "\n".join(l for l in body.split("\n") if not l.strip().startswith("//"))
    asg = "*last_written_version = version"
    if code.count(asg) != 1:
        raise ValueError("C19 generate: expected exactly one `%s` in execute_locked_write, found %d" % (asg, code.count(asg)))
    ia, ic = code.find(asg), code.find("callback()")
    if ic < 0 or code.count("callback()") != 1:
        raise ValueError("C19 generate: expected exactly one `callback()` in execute_locked_write")
    between = code[ic:ia] if ia > ic else ""
    norm = re.sub(r"\s+", "", between)
    if not (norm == "callback().map(|_|{" or norm in ("callback()?;",)):
        raise ValueError("C19 generate: `%s` is not on the success path of `callback()` (found between them: %r)" % (asg, between[:120] if between else "assignment precedes the callback"))
    return {"pin": "last_written_version advances only after the callback succeeded", "file": "lightning-persister/src/fs_store/common.rs", "offset": a}


PINS = [("pin:cleanup-guarded-by-write_status (persist.rs)", pin_cleanup_guard),
        ("pin:version-advances-only-on-success (fs_store/common.rs)", pin_version_after_callback)]


def generate(ctx):
    metas, errs = [], []
    for name, fn in PINS:
        try:
            metas.append(fn())
        except (ValueError, OSError) as ex:
            errs.append(str(ex))
    ctx.gen_meta = metas
    if errs:
        raise ValueError("; ".join(errs))
    return metas


def parse_strs(v):
    return [s.replace('""', '"') for s in re.findall(r'"((?:[^"]|"")*)"', v)]


def rlines(lines):
    return [l[2:] for l in lines if l.startswith("R ")]


# ------------------------------------------------------------------ FilesystemStore, sequential
def fs_seq(ctx, ver, seed, nops):
    d = os.path.join(ctx.tmp, "fs-%s-%d" % (ver, seed))
    rc, lines = ctx.run_bin("h_fsstore", "", args=["seq", ver, str(seed), str(nops), d], timeout=600)
    return rc, rlines(lines)


def judge_seq(lines):
    """Reference map; returns (problems, ops for Coq, expected strings, zero-length ids)."""
    ref = {}
    lens = {}
    problems = []
    tops = []
    impl = []
    for l in lines:
        if l.startswith("end"):
            m = re.search(r"tmpfiles=(\d+)", l)
            if m and int(m.group(1)) != 0:
                problems.append("temporary files left behind after completed operations: " + l)
            continue
        left, res = l.split(" -> ") if " -> " in l else (l.rstrip(" ->"), "")
        p = left.split()
        op = p[1]
        if op == "W":
            n, k, vid, ln = int(p[2]), int(p[3]), int(p[4]), int(p[5])
            lens[vid] = ln
            if res != "ok":
                problems.append("write failed: " + l)
            ref[(n, k)] = vid
            tops.append("TW %d %d %d" % (n, k, vid))
            impl.append("ok")
        elif op == "D":
            n, k, lazy = int(p[2]), int(p[3]), p[4] == "1"
            if res != "ok":
                problems.append("remove failed: " + l)
            ref.pop((n, k), None)
            tops.append("TD %d %d %s" % (n, k, "true" if lazy else "false"))
            impl.append("ok")
        elif op == "G":
            n, k = int(p[2]), int(p[3])
            want = ref.get((n, k))
            if res == "torn":
                problems.append("read returned a value that is not any written value (torn/mixed): " + l)
            elif want is None:
                if res != "none":
                    problems.append("read of an absent key returned %s: %s" % (res, l))
            else:
                ok = (res == "e" and lens[want] == 0) or res == str(want)
                if not ok:
                    problems.append("read returned %s, last completed write is %d: %s" % (res, want, l))
            tops.append("TG %d %d" % (n, k))
            impl.append(res)
        elif op == "L":
            n = int(p[2])
            want = ",".join(sorted(str(k) for (nn, k) in ref if nn == n))
            if res != want:
                problems.append("list returned [%s], completed writes give [%s]: %s" % (res, want, l))
            tops.append("TL %d" % n)
            impl.append(res)
    return problems, tops, impl, lens


# ------------------------------------------------------------------ FilesystemStore, concurrent
def lin_check_key(ops):
    """ops: list of (inv, comp, kind, arg, res). Register linearizability (Wing & Gong search with memo)."""
    n = len(ops)
    if n == 0:
        return True
    sys.setrecursionlimit(10000)
    order = sorted(range(n), key=lambda i: ops[i][0])
    seen = set()

    def ok_apply(i, state):
        inv, comp, kind, arg, res = ops[i]
        if kind == "W":
            return True, arg
        if kind == "D":
            return True, None
        want = "none" if state is None else str(state)
        return (res == want), state

    def rec(done, state):
        if len(done) == n:
            return True
        key = (done, state)
        if key in seen:
            return False
        seen.add(key)
        pending = [i for i in order if i not in done]
        horizon = min(ops[i][1] for i in pending)
        for i in pending:
            if ops[i][0] > horizon:
                break
            good, st2 = ok_apply(i, state)
            if good and rec(done | frozenset([i]), st2):
                return True
        return False

    return rec(frozenset(), None)


def fs_mt(ctx, ver, seed, threads, per, nkeys):
    d = os.path.join(ctx.tmp, "fsmt-%s-%d" % (ver, seed))
    rc, lines = ctx.run_bin("h_fsstore", "", args=["mt", ver, str(seed), str(threads), str(per), str(nkeys), d], timeout=600)
    per_key = {}
    problems = []
    nops = 0
    for l in rlines(lines):
        if not l.startswith("H "):
            continue
        left, res = l.split(" -> ")
        p = left.split()
        t, a, b, kind, k, arg = int(p[1]), int(p[2]), int(p[3]), p[4], int(p[5]), p[6]
        nops += 1
        if res in ("torn", "err"):
            problems.append("concurrent history: operation returned %s: %s" % (res, l))
        per_key.setdefault(k, []).append((a, b, kind, int(arg) if kind == "W" else None, res))
    for k, ops in per_key.items():
        if not lin_check_key(ops):
            problems.append("history of key %d is not linearizable to an atomic register (%d operations)" % (k, len(ops)))
    return rc, nops, problems, [l for l in rlines(lines) if l.startswith("H ")]


# ------------------------------------------------------------------ FilesystemStore, async API
def fs_aseq(ctx, ver, seed, nscen):
    d = os.path.join(ctx.tmp, "afs-%s-%d" % (ver, seed))
    rc, lines = ctx.run_bin("h_fsstore", "", args=["aseq", ver, str(seed), str(nscen), d], timeout=600)
    scen = {}
    for l in rlines(lines):
        if l.startswith("cap "):
            ASEQ_CAP["immutable"] = l.strip().endswith("=1")
        if not l.startswith("A "):
            continue
        p = l.split()
        sid = int(p[1])
        if p[2] == "ops":
            semi = p.index(";")
            scen[sid] = {"ops": p[3:semi], "order": [int(x) for x in p[semi + 2:]], "steps": []}
        elif p[2] == "step":
            scen[sid]["steps"].append({"op": int(p[5]), "res": p[7], "state": p[9:]})
    return rc, scen


ASEQ_CAP = {"immutable": False}


def judge_aseq(sc, nkeys=2):
    """KVStore contract with failures: whatever the completion order, each key reflects the operations in ISSUE
    order: after every completion the key holds the effect of the latest-issued write/remove among those that
    completed with Ok. An operation that returned Err (only the sabotaged ones, tagged :x / :i, may) leaves the
    key as if it had never been issued; in particular it never makes an earlier-issued Ok operation vanish."""
    problems = []
    ops = sc["ops"]
    done = []
    if len(sc["steps"]) != len(sc["order"]):
        return ["%d results for %d operations" % (len(sc["steps"]), len(sc["order"]))]

    def state_of(k):
        best = None
        for i in done:
            p = ops[i].split(":")
            if p[0] in ("W", "D") and int(p[1]) == k and (best is None or i > best):
                best = i
        if best is None:
            return "none"
        p = ops[best].split(":")
        return p[2] if p[0] == "W" else "none"

    for st in sc["steps"]:
        i = st["op"]
        p = ops[i].split(":")
        before = [state_of(k) for k in range(nkeys)]
        if p[0] == "G":
            if st["res"] != before[int(p[1])]:
                problems.append("read of key %s returned %s, completed operations in issue order give %s" % (p[1], st["res"], before[int(p[1])]))
        elif p[0] == "L":
            want = "[" + ",".join(str(k) for k in range(nkeys) if before[k] != "none") + "]"
            if st["res"] != want:
                problems.append("list returned %s, expected %s" % (st["res"], want))
        elif st["res"] != "ok":
            if st["res"] == "err" and len(p) > 3 and p[3] in ("x", "i"):
                pass   # a sabotaged operation may fail; it then must have had no effect (checked below)
            else:
                problems.append("operation %s failed: %s" % (ops[i], st["res"]))
        if not (p[0] in ("W", "D") and st["res"] != "ok"):
            done.append(i)
        after = [state_of(k) for k in range(nkeys)]
        if st["state"] != after:
            problems.append("after completing %s (issue index %d, result %s) the keys hold %s; the latest ISSUED operations that completed with Ok give %s"
                            % (ops[i], i, st["res"], st["state"], after))
            break
    return problems


def aseq_coq(sc, nkeys=2):
    """FsStoreProto schedule: all issues (LFetch, LRef) in issue order, then one group per completion."""
    fops, idx = [], {}
    failed = set(st["op"] for st in sc["steps"] if st["res"] == "err")
    for i, o in enumerate(sc["ops"]):
        p = o.split(":")
        if p[0] == "L":
            continue
        idx[i] = len(fops)
        if i in failed and p[0] in "WD":
            fops.append("Build_fop %s FFail" % p[1])
        elif p[0] == "W":
            fops.append("Build_fop %s (FWrite %s)" % (p[1], p[2]))
        elif p[0] == "D":
            fops.append("Build_fop %s FRemove" % p[1])
        else:
            fops.append("Build_fop %s FRead" % p[1])
    issue = []
    for i, o in enumerate(sc["ops"]):
        if o[0] in "WD":
            issue += ["LFetch %d" % idx[i], "LRef %d" % idx[i]]
    groups = ["[" + "; ".join(issue) + "]"]
    for i in sc["order"]:
        o = sc["ops"][i]
        if o[0] == "L":
            groups.append("[]")
        elif o[0] == "G":
            groups.append("[LRef %d; LExec %d; LClean %d]" % (idx[i], idx[i], idx[i]))
        else:
            groups.append("[LExec %d; LClean %d]" % (idx[i], idx[i]))
    return "run_steps [%s] finit [%s] [%s]" % ("; ".join(fops), "; ".join(groups), "; ".join(str(k) for k in range(nkeys)))


def fs_amt(ctx, ver, seed, tasks, per, nkeys, sab=False):
    """sab: a saboteur thread makes key files immutable for short windows; writes/removes that returned Err must
    have had no effect (they are dropped from the history), everything else must still be linearizable."""
    d = os.path.join(ctx.tmp, "afsmt-%s-%d" % (ver, seed))
    rc, lines = ctx.run_bin("h_fsstore", "", args=["amt", ver, str(seed), str(tasks), str(per), str(nkeys), d, "1" if sab else "0"], timeout=600)
    per_key, problems, nops = {}, [], 0
    nerr = 0
    for l in rlines(lines):
        if not l.startswith("H "):
            continue
        left, res = l.split(" -> ")
        p = left.split()
        a, b, kind, k, arg = int(p[2]), int(p[3]), p[4], int(p[5]), p[6]
        nops += 1
        if sab and res == "err" and kind in ("W", "D"):
            nerr += 1
            continue
        if res in ("torn", "err"):
            problems.append("async concurrent history: operation returned %s: %s" % (res, l))
        per_key.setdefault(k, []).append((a, b, kind, int(arg) if kind == "W" else None, res))
    for k, ops in per_key.items():
        if not lin_check_key(ops):
            problems.append("async history of key %d is not linearizable to an atomic register (%d operations%s)"
                            % (k, len(ops), ", after dropping the %d writes/removes that returned Err" % nerr if sab else ""))
    fs_amt.last_err = nerr
    return rc, nops, problems


# ------------------------------------------------------------------ MonitorUpdatingPersister
def mup_sync(ctx, seed, mp, npay, maxcrash, nfaults, finale=True):
    rc, lines = ctx.run_bin("h_mup", "", args=["sync", str(seed), str(mp), str(npay), str(maxcrash), str(nfaults), "1" if finale else "0"], timeout=1200)
    out = {"calls": None, "ops": None, "crash": [], "summary": None, "panic": None, "faults": {}, "fattempts": {}, "marks": {}, "final": []}
    for l in rlines(lines):
        if l.startswith("calls "):
            out["calls"] = l.split()[2:]
        elif l.startswith("ops "):
            body = l.split(" ", 2)[2] if len(l.split(" ", 2)) > 2 else ""
            out["ops"] = [x.strip() for x in body.split("|")]
        elif l.startswith("crash "):
            out["crash"].append(l)
        elif l.startswith("summary "):
            out["summary"] = dict(kv.split("=") for kv in l.split()[1:])
        elif l.startswith("fault "):
            kv = dict(x.split("=", 1) for x in l.split()[1:] if "=" in x)
            out["faults"][int(kv["sid"])] = dict(kv, line=l)
        elif l.startswith("fattempts "):
            p = l.split(" ", 3)
            sid = int(p[2].split("=")[1])
            out["fattempts"][sid] = [x.strip() for x in (p[3] if len(p) > 3 else "").split("|")]
        elif l.startswith("mark "):
            p = l.split()
            out["marks"][p[1]] = int(p[3].split("=")[1])
        elif l.startswith("final "):
            out["final"].append(l)
        elif l.startswith("harness-panic"):
            out["panic"] = l
    return rc, out


def judge_refused(o):
    """Scenario finale: between the marks `refused-update` and `post-close-preimage` ChainMonitor handles an update
    its monitor REFUSES (update_monitor -> Err): the persister must be handed the full monitor (update None), never
    the refused update itself; afterwards the end state must recover to the ChainMonitor's own copy."""
    problems = []
    m = o["marks"]
    if "refused-update" not in m or "post-close-preimage" not in m:
        return ["finale marks missing: %s" % sorted(m)]
    seg = o["calls"][m["refused-update"]:m["post-close-preimage"]]
    if not seg:
        problems.append("no persister call for the refused update")
    for c in seg:
        p = c.split(":")
        if p[0] == "U" and p[1] != "-":
            problems.append("an update REFUSED by update_monitor (id %s) was handed to the persister as an incremental update (%s): "
                            "stored as such it can never be re-applied to the stored monitor" % (p[1], c))
    if len(o["final"]) < 2:
        problems.append("no final comparison with the ChainMonitor copy")
    for l in o["final"]:
        if l.strip().endswith("eq=0"):
            problems.append("after the whole history, recovery does not return the ChainMonitor's in-memory monitor: " + l)
    return problems


def sels_of_attempts(per_call):
    """Per call: the outcome [csel] of the model and the operations really applied."""
    sels, applied = [], []
    for a in per_call:
        toks = [t for t in a.split() if t[0] in "WR"]
        applied.append([t[:-1] for t in toks if t.endswith("+")])
        if not toks or toks[0].endswith("-"):
            sels.append("SelNone")
        else:
            sels.append("SelWrite [" + "; ".join("true" if t.endswith("+") else "false" for t in toks[1:]) + "]")
    return sels, applied


def coq_calls(calls):
    cs = []
    for c in calls:
        p = c.split(":")
        if p[0] == "N":
            cs.append("CNew 1 (mon %s)" % p[1])
        elif p[0] == "U":
            cs.append("CUpdate 1 %s (mon %s)" % ("None" if p[1] == "-" else "(Some %s)" % p[1], p[2]))
        elif p[0] == "C":
            cs.append("CCleanup %s []" % ("true" if p[1] == "1" else "false"))
        else:
            cs.append("COther []")
    return "[" + "; ".join(cs) + "]"


def norm_ops(s, sort=False):
    toks = s.split()
    return sorted(toks) if sort else toks


def h1(ctx):
    """Asynchronous persister: every subset of the pending writes completed, then crash + recovery."""
    rc, lines = ctx.run_bin("h_mup", "", args=["h1", str(ctx.seed)], timeout=900)
    res = []
    panic = None
    for l in rlines(lines):
        m = re.match(r"h1 maxp=(\d+) mask=(\d+) pending=(\d+) completed=\[(.*?)\] reported=\[(.*?)\] stored_id=(\d+) expect_id=(\d+) recovery=(\S+) eq=(\d)", l)
        if m:
            res.append({"maxp": int(m.group(1)), "mask": int(m.group(2)), "completed": m.group(4), "reported": [int(x) for x in m.group(5).split(",") if x.strip()],
                        "stored_id": int(m.group(6)), "expect_id": int(m.group(7)), "recovery": m.group(8), "eq": m.group(9) == "1", "line": l})
        elif l.startswith("harness-panic"):
            panic = l
    return rc, res, panic


def judge_h1(r):
    if not r["recovery"].startswith("OK:"):
        return "recovery failed: " + r["recovery"][:160]
    rid = int(r["recovery"][3:])
    if r["reported"] and rid < max(r["reported"]):
        return "recovered id %d is older than update %d reported persisted" % (rid, max(r["reported"]))
    if rid != r["expect_id"]:
        return "recovered id %d, stored monitor + consecutive durable updates give %d" % (rid, r["expect_id"])
    if not r["eq"]:
        return "recovered monitor differs from the in-memory monitor as of update %d" % rid
    return None


def run(ctx):
    ok_build, out = ctx.build_harness(BINS)
    if not ok_build:
        ctx.violation("harness does not build against the current tree", {"broken": "harness-build", "log_tail": out[-3000:]}, False)
        ctx.write_evidence(LEVEL)
        return
    gen_err = None
    for name, fn in PINS:
        try:
            fn()
            ctx.obligations.append((name, True, "anchored structural check"))
        except (ValueError, OSError) as ex:
            gen_err = (gen_err + "; " if gen_err else "") + str(ex)
            ctx.obligations.append((name, False, str(ex)))
    okm, outm = ctx.coq_make(["Model/KV.vo", "Model/MUP.vo", "Model/FsStoreProto.vo", "Model/BlockSync.vo"])
    proved = ctx.prove("C19") and gen_err is None
    ctx.trusted_base += [
        "Coq 8.16.1 kernel + vm_compute (no native_compute)",
        "Model/KV.v, Model/MUP.v, Model/FsStoreProto.v: hand models of the KVStore contract, persist.rs MonitorUpdatingPersister and fs_store/common.rs, tied by differential execution (h_fsstore, h_mup)",
        "POSIX rename/unlink atomicity and fsync durability; std::sync Mutex/RwLock/Arc semantics (FsStoreProto steps are atomic because each is under a lock in the code)",
        "LDK functional_test_utils (two-node scenario producing real ChannelMonitors and ChannelMonitorUpdates), ChannelMonitor PartialEq (test-only impl)",
    ]
    ctx.assumptions += [
        "sync persister: the store completes operations in issue order (KVStoreSync); async: stated per theorem",
        "hist_ok: ChainMonitor hands the persister consecutive update ids together with the in-memory monitor that results",
        "update ids below the pre-0.1 LEGACY_CLOSED_CHANNEL_UPDATE_ID (u64::MAX)",
        "FsStoreProto: issue phases (version fetch + lock-entry acquisition) of operations on one key do not overlap",
    ]
    quick = ctx.tier == "quick"
    problems = []      # (topic, description, replay dict)
    disagreements = []
    cov = {}
    rng = ctx.rng.fork("c19")
    # ---- 1. FilesystemStore sequential
    seq_runs = []
    exprs, metas = [], []
    exprs_fault, exprs_aseq = [], []
    for ver in ("v1", "v2"):
        for j in range(3 if quick else 12):
            seed = rng.below(2 ** 31)
            nops = 300 if quick else 1500
            rc, lines = fs_seq(ctx, ver, seed, nops)
            pr, tops, impl, lens = judge_seq(lines)
            if rc != 0 or len(impl) != nops:
                pr.append("h_fsstore seq exited %d with %d/%d results" % (rc, len(impl), nops))
            for p in pr[:3]:
                problems.append(("fs-seq", p, {"cmd": "h_fsstore seq %s %d %d <dir>" % (ver, seed, nops)}))
            seq_runs.append((ver, seed, nops, len(pr)))
            exprs.append("run_kv {| durable := []; limbo := [] |} [" + "; ".join(tops) + "]")
            metas.append((ver, seed, impl, lens, tops))
    # protocol model, sequential schedule, on the first transcript (writes / removes / reads only)
    ver0, seed0, impl0, lens0, tops0 = metas[0]
    fops, fimpl, keyset = [], [], []
    for t, r in zip(tops0, impl0):
        p = t.split()
        if p[0] == "TL":
            continue
        kid = int(p[1]) * 100 + int(p[2])
        if kid not in keyset:
            keyset.append(kid)
        if p[0] == "TW":
            fops.append("Build_fop %d (FWrite %s)" % (kid, p[3]))
            fimpl.append("-")
        elif p[0] == "TD":
            fops.append("Build_fop %d FRemove" % kid)
            fimpl.append("-")
        else:
            fops.append("Build_fop %d FRead" % kid)
            fimpl.append(r)
        if len(fops) >= 120:
            break
    exprs.append("show_fs [" + "; ".join(fops) + "] [" + "; ".join(str(k) for k in keyset) + "]")
    # ---- 2. MonitorUpdatingPersister, sync, real monitors
    mups = []
    mp_values = [0, 1, 2, 3, 5, 7] if quick else [0, 1, 2, 3, 4, 5, 7, 10, 13, 50]
    for mp in mp_values:
        seed = rng.below(2 ** 31)
        rc, o = mup_sync(ctx, seed, mp, 14 if quick else 40, 130 if quick else 400, 36 if quick else 90)
        mups.append((mp, seed, rc, o))
        if rc != 0 or o["panic"] or o["summary"] is None:
            problems.append(("mup", "h_mup sync crashed: %s" % (o["panic"] or "rc=%d" % rc), {"cmd": "h_mup sync %d %d ..." % (seed, mp)}))
            continue
        for c in o["crash"][:3]:
            problems.append(("mup-crash", "recovery after a crash does not return the in-memory monitor: " + c,
                             {"cmd": "h_mup sync %d %d %d %d 0 1" % (seed, mp, 14 if quick else 40, 130 if quick else 400), "line": c}))
        for pr_ in judge_refused(o)[:2]:
            problems.append(("mup-refused", pr_, {"cmd": "h_mup sync %d %d %d %d 0 1" % (seed, mp, 14 if quick else 40, 130 if quick else 400),
                                                 "calls": o["calls"][-12:], "marks": o["marks"], "final": o["final"]}))
        if int(o["summary"].get("stray_ops", "0")) != 0:
            problems.append(("mup", "store operations outside any persister call", {"summary": o["summary"]}))
        exprs.append("trace %d {| durable := []; limbo := [] |} %s" % (mp, coq_calls(o["calls"])))
        for sid in sorted(o["faults"]):
            f = o["faults"][sid]
            if f.get("ok") != "1":
                problems.append(("mup-fault", "with failing store operations %s (operation indices) the persister loses a reported update or cleans up an update recovery needs: %s" % (f.get("fails"), f["line"]),
                                 {"cmd": "h_mup sync %d %d %d %d %d 1" % (seed, mp, 14 if quick else 40, 130 if quick else 400, 36 if quick else 90), "line": f["line"],
                                  "attempts": o["fattempts"].get(sid)}))
    # fault scripts: per-call outcomes for the model
    fault_meta = []
    for mp, seed, rc, o in mups:
        if rc != 0 or o["summary"] is None:
            continue
        calls = [c for c in o["calls"] if not c.startswith("A") and not c.startswith("E")]
        for sid in sorted(o["fattempts"]):
            per_call = o["fattempts"][sid]
            sels, applied = sels_of_attempts(per_call)
            ncmp = len(per_call)
            for ci, a in enumerate(per_call):
                if calls[ci].startswith("C") and any(t.endswith("-") and t[0] == "R" for t in a.split()):
                    ncmp = ci   # a failed removal inside cleanup_stale_updates: listing order makes the subset ambiguous
                    break
            fault_meta.append((mp, seed, sid, calls[:ncmp], applied[:ncmp], o["faults"].get(sid, {}).get("fails")))
            exprs_fault.append("trace_f %d {| durable := []; limbo := [] |} %s [%s]" % (mp, coq_calls(calls[:ncmp]), "; ".join(sels[:ncmp])))
    # asynchronous FilesystemStore: issue order vs completion order
    aseq_meta = []
    for ver in ("v1", "v2"):
        for j in range(2 if quick else 6):
            seed = rng.below(2 ** 31)
            rc, scen = fs_aseq(ctx, ver, seed, 40 if quick else 150)
            if rc != 0 or not scen:
                problems.append(("fs-async", "h_fsstore aseq exited %d with %d scenarios" % (rc, len(scen)), {"cmd": "h_fsstore aseq %s %d ..." % (ver, seed)}))
            for sid in sorted(scen):
                pr = judge_aseq(scen[sid])
                if pr:
                    problems.append(("fs-async", "FilesystemStore %s async API: %s" % (ver, pr[0]),
                                     {"cmd": "h_fsstore aseq %s %d %d <dir>  (scenario %d)" % (ver, seed, 40 if quick else 150, sid),
                                      "issued": scen[sid]["ops"], "completion_order": scen[sid]["order"], "observed_steps": scen[sid]["steps"]}))
                aseq_meta.append((ver, seed, sid, scen[sid]))
                exprs_aseq.append(aseq_coq(scen[sid]))
    if aseq_meta and not any(st["res"] == "err" for m in aseq_meta for st in m[3]["steps"]):
        problems.append(("fs-async", "fault injection ineffective: no sabotaged FilesystemStore operation failed", {}))
    amt_runs = []
    amt_errs = 0
    for ver in ("v1", "v2"):
        for j in range(2 if quick else 8):
            seed = rng.below(2 ** 31)
            sab = (j % 2 == 1)
            rc, nops_a, pr = fs_amt(ctx, ver, seed, 6, 20 if quick else 30, 3 if not sab else 2, sab)
            amt_errs += fs_amt.last_err
            amt_runs.append((ver, seed, nops_a, len(pr)))
            if rc != 0:
                pr.append("h_fsstore amt exited %d" % rc)
            for p_ in pr[:2]:
                problems.append(("fs-async-mt", p_, {"cmd": "h_fsstore amt %s %d 6 %d %d <dir> %d" % (ver, seed, 20 if quick else 30, 2 if sab else 3, 1 if sab else 0)}))
    n_base_exprs = len(exprs)
    exprs = exprs + exprs_fault + exprs_aseq
    # ---- model side (one batch)
    model_err = None
    vals = []
    if okm:
        try:
            vals = ctx.coq_eval("corr_c19", COQ_IMPORTS, exprs, prelude=PRELUDE, shards=min(16, max(1, len(exprs) // 6)), timeout=900)
        except RuntimeError as ex:
            model_err = str(ex)[-2000:]
            ctx.log("model evaluation failed:", model_err)
    if vals:
        nseq = len(metas)
        for (ver, seed, impl, lens, tops), v in zip(metas, vals[:nseq]):
            mod = parse_strs(v)
            mod = ["e" if (m.isdigit() and lens.get(int(m)) == 0 and t.startswith("TG")) else m for m, t in zip(mod, tops)]
            if mod != impl:
                k = next((i for i, (a, b) in enumerate(zip(mod, impl)) if a != b), min(len(mod), len(impl)))
                disagreements.append({"topic": "FilesystemStore %s vs Model/KV.v" % ver, "seed": seed, "op_index": k,
                                      "op": tops[k] if k < len(tops) else None, "model": mod[k] if k < len(mod) else None, "impl": impl[k] if k < len(impl) else None})
        fsv = parse_strs(vals[nseq])
        # protocol model: done, final fs of each key must equal the reference map, reads equal the real reads
        ref = {}
        for t in tops0:
            p = t.split()
            if p[0] == "TL":
                continue
            kid = int(p[1]) * 100 + int(p[2])
            if p[0] == "TW":
                ref[kid] = p[3]
            elif p[0] == "TD":
                ref.pop(kid, None)
            if sum(1 for _ in ref) and False:
                pass
        # recompute ref only over the first len(fops) non-list operations
        ref = {}
        cnt = 0
        for t in tops0:
            p = t.split()
            if p[0] == "TL":
                continue
            if cnt >= len(fops):
                break
            cnt += 1
            kid = int(p[1]) * 100 + int(p[2])
            if p[0] == "TW":
                ref[kid] = p[3]
            elif p[0] == "TD":
                ref.pop(kid, None)
        want = ["done"] + [ref.get(k, "none") for k in keyset] + [("e" if (x.isdigit() and lens0.get(int(x)) == 0) else x) for x in fimpl]
        got = [("e" if (x.isdigit() and lens0.get(int(x)) == 0 and i > len(keyset)) else x) for i, x in enumerate(fsv)]
        if got != want:
            k = next((i for i, (a, b) in enumerate(zip(got, want)) if a != b), min(len(got), len(want)))
            disagreements.append({"topic": "Model/FsStoreProto.v (sequential schedule) vs FilesystemStore", "index": k,
                                  "model": got[k] if k < len(got) else None, "impl": want[k] if k < len(want) else None})
        vi = nseq + 1
        for mp, seed, rc, o in mups:
            if rc != 0 or o["summary"] is None:
                continue
            mod = parse_strs(vals[vi])
            vi += 1
            for ci, (c, a, b) in enumerate(zip(o["calls"], mod, o["ops"])):
                srt = c.startswith("C")
                if norm_ops(a, srt) != norm_ops(b, srt):
                    disagreements.append({"topic": "MonitorUpdatingPersister store operations vs Model/MUP.v", "maximum_pending_updates": mp, "seed": seed,
                                          "call_index": ci, "call": c, "model": a, "impl": b})
                    break
            if len(mod) != len(o["ops"]):
                disagreements.append({"topic": "MUP call count", "mp": mp, "model": len(mod), "impl": len(o["ops"])})
        vi = n_base_exprs
        for (mp, seed, sid, calls, applied, fails) in fault_meta:
            mod = parse_strs(vals[vi])
            vi += 1
            for ci, (c, a, b) in enumerate(zip(calls, mod, applied)):
                if sorted(a.split()) != sorted(b):
                    disagreements.append({"topic": "MonitorUpdatingPersister under failing store operations vs Model/MUP.v (sel_ops)", "maximum_pending_updates": mp,
                                          "seed": seed, "failing_op_indices": fails, "call_index": ci, "call": c, "model_applies": a, "impl_applies": " ".join(b)})
                    break
        for (ver, seed, sid, sc) in aseq_meta:
            mod = parse_strs(vals[vi])
            vi += 1
            got = [" ".join(st["state"]) for st in sc["steps"]]
            if mod and mod[-1].endswith(" +lock"):
                disagreements.append({"topic": "Model/FsStoreProto.v: lock table not empty after all operations completed", "scenario": sid, "issued": sc["ops"]})
            mod = [x.replace(" +lock", "") for x in mod]
            if mod[1:] != got:
                k = next((i for i, (a, b) in enumerate(zip(mod[1:], got)) if a != b), 0)
                disagreements.append({"topic": "FilesystemStore %s async API vs Model/FsStoreProto.v" % ver, "seed": seed, "scenario": sid,
                                      "issued": sc["ops"], "completion_order": sc["order"], "step": k,
                                      "model": mod[1:][k] if k < len(mod) - 1 else None, "impl": got[k] if k < len(got) else None})
    # ---- 3. FilesystemStore concurrent
    mt_runs = []
    for ver in ("v1", "v2"):
        for j in range(3 if quick else 15):
            seed = rng.below(2 ** 31)
            threads, per, nkeys = (4, 25, 3) if quick else (rng.choice([4, 6, 8]), 30, 3)
            rc, nops, pr, hist = fs_mt(ctx, ver, seed, threads, per, nkeys)
            mt_runs.append((ver, seed, threads, nops, len(pr)))
            if rc != 0:
                pr.append("h_fsstore mt exited %d" % rc)
            for p in pr[:2]:
                problems.append(("fs-mt", p, {"cmd": "h_fsstore mt %s %d %d %d %d <dir>" % (ver, seed, threads, per, nkeys), "history": hist[:400]}))
    # ---- 4. H1: asynchronous persister, all completion subsets
    rc, h, hp = h1(ctx)
    h1_bad = [(r, judge_h1(r)) for r in h]
    h1_bad = [(r, p) for r, p in h1_bad if p]
    cov["h1_patterns"] = len(h)
    cov["h1_failures"] = len(h1_bad)
    cov["h1_sample"] = [r["line"] for r in h[:3]]
    if len(h) < 32 or hp:
        problems.append(("h1", "h_mup h1 did not produce all completion patterns: %s" % (hp or "rc=%d, %d lines" % (rc, len(h))), {}))
    # ---- coverage
    nrec = sum(int(o["summary"].get("recovered_equal", 0)) + int(o["summary"].get("recovered_other_tip", 0)) + int(o["summary"].get("before_first_persist", 0))
               for _, _, rc2, o in mups if o["summary"])
    nseq_ops = sum(n for _, _, n, _ in seq_runs)
    nmt_ops = sum(n for _, _, _, n, _ in mt_runs)
    cov.update({
        "fs_sequential_runs": [{"store": v, "seed": s, "ops": n, "problems": p} for v, s, n, p in seq_runs],
        "fs_concurrent_runs": [{"store": v, "seed": s, "threads": t, "ops": n, "problems": p} for v, s, t, n, p in mt_runs],
        "fs_async_scenarios": len(aseq_meta), "fs_async_mt_runs": [{"store": v, "seed": sd, "ops": n, "problems": p_} for v, sd, n, p_ in amt_runs],
        "mup_fault_scripts": sum(len(o["faults"]) for _, _, _, o in mups),
        "mup_refused_update_scenarios": sum(1 for _, _, _, o in mups if "refused-update" in o["marks"]),
        "fs_async_failed_ops": {"writes": sum(1 for m in aseq_meta for st in m[3]["steps"] if st["res"] == "err" and m[3]["ops"][st["op"]][0] == "W"),
                                "removes": sum(1 for m in aseq_meta for st in m[3]["steps"] if st["res"] == "err" and m[3]["ops"][st["op"]][0] == "D"),
                                "multi_thread": amt_errs, "immutable_files_supported": ASEQ_CAP["immutable"]},
        "mup_runs": [{"maximum_pending_updates": mp, "seed": s, "summary": o["summary"]} for mp, s, _, o in mups],
        "evaluations": nseq_ops + nmt_ops + nrec + sum(len(m[3]["order"]) for m in aseq_meta) + sum(n for _, _, n, _ in amt_runs) + 2 * sum(len(o["faults"]) for _, _, _, o in mups),
        "distinct_nontrivial": nrec + len(set((v, tuple(m[2])) for v, m in zip([x[0] for x in metas], metas))) + len(mt_runs),
        "rule": "evaluations = sequential store operations compared with the KV model + concurrent operations judged for linearizability + crash recoveries (one per crash prefix x lazy-removal choice) of the real persister with real monitors; non-trivial = each crash recovery that found a monitor (distinct by construction: prefix index x lazy mode x maximum_pending_updates) + each distinct sequential transcript + each concurrent history",
        "disagreements": len(disagreements),
    })
    ctx.coverage.update(cov)
    for mp, s, _, o in mups[:2]:
        ctx.samples.append({"maximum_pending_updates": mp, "calls": (o["calls"] or [])[:12], "ops": (o["ops"] or [])[:12], "summary": o["summary"]})
    ctx.samples.append({"h1": [r["line"] for r in h[:4]]})
    # ---- decide
    broken = []
    if not proved:
        broken.append({"obligation": "Coq proof of Props/C19.v" if gen_err is None else "structural pin", "detail": gen_err or getattr(ctx, "proof_failure", None)})
    if model_err or not okm:
        broken.append({"correspondence": "model could not be evaluated", "detail": model_err or outm[-1500:]})
    if disagreements:
        broken.append({"correspondence": "implementation vs model", "n": len(disagreements), "first_disagreements": disagreements[:4]})
    seen = set()
    for topic, desc, rep in problems:
        if topic in seen:
            continue
        seen.add(topic)
        body = {"broken": broken, "topic": topic, "problem": desc}
        body.update(rep)
        ctx.violation("C19 fails on the implementation: " + desc[:300], body, True)
    if h1_bad:
        r, pr = sorted(h1_bad, key=lambda x: (len(x[0]["completed"]), x[0]["mask"]))[0]
        ctx.violation("C19 (H1): asynchronous persister, writes durable out of order, crash: " + pr,
                      {"history": "real ChannelMonitor (update_id 0) + updates 1..4 via ChainMonitor::new_async_beta (maximum_pending_updates=%d) over an asynchronous KVStore; all writes in flight; completed only [%s] (same-key order respected); reported persisted: %s; crash; read_all_channel_monitors_with_updates" % (r["maxp"], r["completed"], r["reported"]),
                       "observed": r["line"], "failing_patterns": len(h1_bad), "of": len(h), "model": "Props/C19.v C19_mup_async, C19_ex_async_gap",
                       "replay_cmd": "%s h1 %d" % (ctx.bin_path("h_mup"), ctx.seed)}, True, key=KEY_H1)
    if broken and not problems:
        what = "proof" if not proved else "correspondence"
        ctx.violation("C19 no longer shown: %s broken" % what,
                      {"broken": broken, "search": "reference-map judge over %d store operations, linearizability judge over %d concurrent operations, %d crash recoveries with real monitors: no failing input" % (nseq_ops, nmt_ops, nrec)}, False)
    ctx.write_evidence(LEVEL)


def replay(ctx, rep):
    print(json.dumps({k: v for k, v in rep.items() if k != "history"}, indent=1)[:6000])
    cmd = rep.get("replay_cmd") or rep.get("cmd") or ""
    if "h_mup h1" in cmd or cmd.endswith(" h1 %d" % rep.get("seed", -1)):
        ok_build, out = ctx.build_harness(BINS)
        rc, h, hp = h1(ctx)
        bad = [(r["line"], judge_h1(r)) for r in h if judge_h1(r)]
        print("failing patterns: %d of %d" % (len(bad), len(h)))
        for l, p in bad[:5]:
            print(" ", p, "|", l)
        return 1 if bad else 0
    return 0
