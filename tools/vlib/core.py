"""Framework core for /verif checks: harness build, Coq build/eval, evidence, violations.

Every property plugin (tools/props/Cxx.py) drives a `Ctx`. Nothing here knows about a
particular property. Python 3 stdlib only.
"""
import fcntl
import hashlib
import json
import os
import re
import subprocess
import sys
import time

VERIF = os.path.dirname(os.path.dirname(os.path.dirname(os.path.abspath(__file__))))
REPO = os.environ.get("VERIF_REPO", "/repo")
COQ_MAIN = os.path.join(VERIF, "coq")
COQ = COQ_MAIN
CACHE = os.path.join(VERIF, ".cache")
HARNESS = os.path.join(VERIF, "harness")
_REPO_TAG = "" if REPO == "/repo" else "-" + hashlib.sha256(REPO.encode()).hexdigest()[:8]
# evidence/ records runs against /repo itself only; a run against a scratch worktree (mutation and
# reverted-fix experiments) writes its evidence under .cache/ so that it never overwrites the record
EVID = os.path.join(VERIF, "evidence") if REPO == "/repo" else os.path.join(VERIF, ".cache", "evidence" + _REPO_TAG)
REPLAYS = os.path.join(VERIF, "replays")
TARGET = os.environ.get("VERIF_TARGET_DIR", os.path.join(CACHE, "target" + _REPO_TAG))


def _private_coq_tree():
    """When a check runs against a scratch worktree (VERIF_REPO != /repo) it must not regenerate
    coq/Gen/*.v inside the shared tree (other checks build against it concurrently): work in a private
    copy of the Coq development, synced (sources and compiled files, timestamps preserved) from the main one."""
    global COQ
    if REPO == "/repo" or COQ != COQ_MAIN:
        return
    d = os.path.join(CACHE, "coq" + _REPO_TAG)
    os.makedirs(d, exist_ok=True)
    with Lock("coqmake"):
        subprocess.run(["rsync", "-a", "--delete", "--exclude", ".lia.cache", "--exclude", ".nia.cache",
                        COQ_MAIN + "/", d + "/"], check=True)
    COQ = d


def harness_dir():
    """The harness crate to build. For the default /repo this is /verif/harness itself; when VERIF_REPO
    points at a scratch worktree (mutation experiments) a copy with the path dependencies rewritten is
    kept under .cache so that /verif/harness and /repo stay untouched."""
    if REPO == "/repo":
        return HARNESS
    d = os.path.join(CACHE, "harness" + _REPO_TAG)
    os.makedirs(d, exist_ok=True)
    subprocess.run(["rsync", "-a", "--delete", "--exclude", "target", "--exclude", "Cargo.toml", "--exclude", "Cargo.lock",
                    HARNESS + "/", d + "/"], check=True)
    toml = open(os.path.join(HARNESS, "Cargo.toml")).read().replace('"/repo/', '"' + REPO.rstrip("/") + "/")
    write_if_changed(os.path.join(d, "Cargo.toml"), toml)
    return d

NPROC = int(os.environ.get("VERIF_JOBS", "16"))

FORBIDDEN = re.compile(
    r"\b(Admitted|admit|Axiom|Axioms|Parameter|Parameters|Conjecture|Conjectures|Abort All|"
    r"Unset\s+Guard\s+Checking|Unset\s+Positivity\s+Checking|Unset\s+Universe\s+Checking|"
    r"bypass_check|Admit\s+Obligations|give_up|type-in-type|impredicative-set)\b"
)
# top-level Variable/Hypothesis outside a section is checked separately (section-aware)

# axioms of the standard library that a theorem may depend on (each is reported in evidence)
STDLIB_AXIOM_ALLOW = {
    "functional_extensionality_dep",
    "FunctionalExtensionality.functional_extensionality_dep",
    "proof_irrelevance",
    "ProofIrrelevance.proof_irrelevance",
    "Eqdep.Eq_rect_eq.eq_rect_eq",
    "eq_rect_eq",
    "JMeq_eq",
    "JMeq.JMeq_eq",
    "classic",
    "Classical_Prop.classic",
}


class Rng:
    """splitmix64: the single PRNG every random choice derives from (VERIF_SEED)."""

    M = (1 << 64) - 1

    def __init__(self, seed):
        self.s = seed & self.M

    def next(self):
        self.s = (self.s + 0x9E3779B97F4A7C15) & self.M
        z = self.s
        z = ((z ^ (z >> 30)) * 0xBF58476D1CE4E5B9) & self.M
        z = ((z ^ (z >> 27)) * 0x94D049BB133111EB) & self.M
        return z ^ (z >> 31)

    def below(self, n):
        return self.next() % n if n > 0 else 0

    def range(self, lo, hi):
        """inclusive"""
        return lo + self.below(hi - lo + 1)

    def choice(self, xs):
        return xs[self.below(len(xs))]

    def chance(self, num, den):
        return self.below(den) < num

    def fork(self, tag):
        h = hashlib.sha256(("%d/%s" % (self.s, tag)).encode()).digest()
        return Rng(int.from_bytes(h[:8], "big"))


def sh(cmd, cwd=None, timeout=None, env=None, input_text=None):
    e = dict(os.environ)
    e.update({"CARGO_NET_OFFLINE": "true", "GOPROXY": "off", "PIP_NO_INDEX": "1"})
    if env:
        e.update(env)
    t0 = time.time()
    try:
        p = subprocess.run(
            cmd, cwd=cwd, env=e, input=input_text, stdout=subprocess.PIPE, stderr=subprocess.STDOUT,
            universal_newlines=True, timeout=timeout, shell=isinstance(cmd, str),
        )
        return p.returncode, p.stdout, time.time() - t0
    except subprocess.TimeoutExpired as ex:
        out = ex.stdout or ""
        if isinstance(out, bytes):
            out = out.decode("utf-8", "replace")
        return 124, out + "\n[TIMEOUT after %ss]" % timeout, time.time() - t0


class Lock:
    def __init__(self, name):
        os.makedirs(CACHE, exist_ok=True)
        self.path = os.path.join(CACHE, name + ".lock")

    def __enter__(self):
        self.f = open(self.path, "w")
        fcntl.flock(self.f, fcntl.LOCK_EX)
        return self

    def __exit__(self, *a):
        fcntl.flock(self.f, fcntl.LOCK_UN)
        self.f.close()


def write_if_changed(path, text):
    os.makedirs(os.path.dirname(path), exist_ok=True)
    try:
        if open(path).read() == text:
            return False
    except FileNotFoundError:
        pass
    tmp = path + ".tmp%d" % os.getpid()
    with open(tmp, "w") as f:
        f.write(text)
    os.replace(tmp, path)
    return True


def gen_coqproject():
    """_CoqProject lists every .v under coq/ (sorted); generated so no file is shared between plugins."""
    files = []
    for root, dirs, fs in os.walk(COQ):
        dirs.sort()
        for f in sorted(fs):
            if f.endswith(".v") and not f.startswith("."):
                files.append(os.path.relpath(os.path.join(root, f), COQ))
    text = "-Q . LdkV\n-arg -w -arg -notation-overridden,-deprecated-hint-without-locality,-deprecated-instance-without-locality,-ambiguous-paths\n" + "\n".join(sorted(files)) + "\n"
    changed = write_if_changed(os.path.join(COQ, "_CoqProject"), text)
    if changed or not os.path.exists(os.path.join(COQ, "Makefile")):
        rc, out, _ = sh(["coq_makefile", "-f", "_CoqProject", "-o", "Makefile"], cwd=COQ, timeout=120)
        if rc != 0:
            raise RuntimeError("coq_makefile failed:\n" + out)
    return files


def strip_coq_comments(s):
    out = []
    depth = 0
    i = 0
    n = len(s)
    in_str = False
    while i < n:
        c = s[i]
        if depth == 0 and c == '"':
            in_str = not in_str
            out.append(c)
            i += 1
            continue
        if not in_str and s.startswith("(*", i):
            depth += 1
            i += 2
            continue
        if not in_str and depth > 0 and s.startswith("*)", i):
            depth -= 1
            i += 2
            continue
        if depth == 0:
            out.append(c)
        elif c == "\n":
            out.append(c)
        i += 1
    return "".join(out)


def audit_sources(files=None):
    """Grep the development for forbidden constructs. Returns list of 'file:line: text'."""
    bad = []
    for root, dirs, fs in os.walk(COQ):
        for f in fs:
            if not f.endswith(".v"):
                continue
            p = os.path.join(root, f)
            rel = os.path.relpath(p, COQ)
            if files is not None and rel not in files:
                continue
            src = strip_coq_comments(open(p).read())
            depth = 0
            for ln, line in enumerate(src.split("\n"), 1):
                if re.match(r"\s*(Section|Module Type)\b", line):
                    depth += 1
                elif re.match(r"\s*End\b", line) and depth > 0:
                    depth -= 1
                m = FORBIDDEN.search(line)
                if m:
                    bad.append("%s:%d: %s" % (rel, ln, line.strip()[:120]))
                if depth == 0 and re.match(r"\s*(Variable|Variables|Hypothesis|Hypotheses|Context)\b", line):
                    bad.append("%s:%d: top-level %s" % (rel, ln, line.strip()[:120]))
    return bad


class Ctx:
    def __init__(self, prop, tier, seed):
        self.prop = prop
        self.tier = tier
        self.seed = seed
        self.rng = Rng(seed)
        self.t0 = time.time()
        self.log_lines = []
        self.violations = []  # dicts
        self.known = []  # strings printed as KNOWN-FINDING
        self.coverage = {}
        self.assumptions = []
        self.trusted_base = []
        self.obligations = []  # (name, ok, detail)
        self.samples = []
        self.timings = {}
        self.tmp = os.path.join(CACHE, "tmp", prop)
        os.makedirs(self.tmp, exist_ok=True)
        os.makedirs(EVID, exist_ok=True)
        os.makedirs(REPLAYS, exist_ok=True)
        self.known_findings = []
        try:
            kf = json.load(open(os.path.join(VERIF, "known_findings.json")))
            self.known_findings = [e for e in kf.get("entries", []) if e.get("property") == prop]
        except FileNotFoundError:
            pass

    # ---------- logging
    def log(self, *a):
        s = " ".join(str(x) for x in a)
        self.log_lines.append(s)
        print("[%s %6.1fs] %s" % (self.prop, time.time() - self.t0, s), flush=True)

    def timed(self, key, t):
        self.timings[key] = round(self.timings.get(key, 0) + t, 2)

    # ---------- harness
    def build_harness(self, bins, release=False):
        """cargo build of the harness against /repo's current working tree. Returns (ok, output)."""
        cmd = ["cargo", "build", "--offline"]
        if release:
            cmd.append("--release")
        for b in bins:
            cmd += ["--bin", b]
        hd = harness_dir()
        lock = os.path.join(hd, "Cargo.lock")
        if not os.path.exists(lock):
            import shutil
            for cand in (os.path.join(HARNESS, "Cargo.lock"), os.path.join(REPO, "Cargo.lock"), "/repo/Cargo.lock"):
                if os.path.exists(cand):
                    shutil.copy(cand, lock)
                    break
        rc, out, t = sh(cmd, cwd=hd, timeout=1800, env={"CARGO_TARGET_DIR": TARGET})
        self.timed("cargo_build_s", t)
        if rc != 0:
            self.log("harness build FAILED")
            self.log(out[-3000:])
        return rc == 0, out

    def bin_path(self, name, release=False):
        return os.path.join(TARGET, "release" if release else "debug", name)

    def run_bin(self, name, input_text, args=(), timeout=900, release=False, env=None):
        rc, out, t = sh([self.bin_path(name, release)] + list(args), input_text=input_text, timeout=timeout, cwd=self.tmp,
                        env=env)
        self.timed("harness_run_s", t)
        if rc != 0:
            self.log("harness bin %s exit %d: %s" % (name, rc, out[-2000:]))
        return rc, out.split("\n")

    # ---------- coq
    def coq_make(self, targets, timeout=1500):
        """make the given .vo targets (relative to coq/). Returns (ok, log)."""
        with Lock("coqmake"):
            gen_coqproject()
            rc, out, t = sh(["make", "-j%d" % NPROC] + list(targets), cwd=COQ, timeout=timeout)
        self.timed("coq_make_s", t)
        return rc == 0, out

    def coq_run(self, name, text, timeout=900):
        """compile a scratch .v (outside coq/) against the built development; returns (rc, output)."""
        d = os.path.join(self.tmp, "coq")
        os.makedirs(d, exist_ok=True)
        p = os.path.join(d, name + ".v")
        with open(p, "w") as f:
            f.write(text)
        rc, out, t = sh(["coqc", "-noglob", "-Q", COQ, "LdkV", "-w", "-all", p], cwd=d, timeout=timeout)
        self.timed("coq_eval_s", t)
        return rc, out

    def coq_eval(self, name, imports, exprs, timeout=900, shards=None, prelude=""):
        """Evaluate Gallina expressions with vm_compute; returns list of printed values (strings),
        one per expr, in order. Sharded over several coqc processes."""
        if not exprs:
            return []
        n = len(exprs)
        if shards is None:
            shards = max(1, min(NPROC, n // 40))
        chunks = [exprs[i::shards] for i in range(shards)]
        hdr = "".join("Require Import %s.\n" % m for m in imports)
        hdr += "Set Printing Width 1000000.\nSet Printing Depth 1000000.\nOpen Scope Z_scope.\n" + prelude + "\n"
        procs = []
        d = os.path.join(self.tmp, "coq")
        os.makedirs(d, exist_ok=True)
        t0 = time.time()
        for i, ch in enumerate(chunks):
            p = os.path.join(d, "%s_%d.v" % (name, i))
            with open(p, "w") as f:
                f.write(hdr)
                for e in ch:
                    f.write("Eval vm_compute in (%s).\n" % e)
            procs.append(subprocess.Popen(
                ["timeout", str(timeout), "coqc", "-noglob", "-Q", COQ, "LdkV", "-w", "-all", p], cwd=d,
                stdout=subprocess.PIPE, stderr=subprocess.STDOUT, universal_newlines=True))
        results = [None] * n
        for i, pr in enumerate(procs):
            out, _ = pr.communicate()
            if pr.returncode != 0:
                raise RuntimeError("coq_eval %s shard %d failed:\n%s" % (name, i, out[-3000:]))
            vals = parse_evals(out)
            if len(vals) != len(chunks[i]):
                raise RuntimeError("coq_eval %s shard %d: %d values for %d exprs\n%s" % (name, i, len(vals), len(chunks[i]), out[-2000:]))
            for j, v in enumerate(vals):
                results[i + j * shards] = v
        self.timed("coq_eval_s", time.time() - t0)
        return results

    def prove(self, props_module, extra_targets=(), allow_axioms=()):
        """Build Props/<props_module>.vo, audit sources, check Print Assumptions of every Theorem
        in it. Records obligations. Returns True iff all discharged."""
        rel = "Props/%s.v" % props_module
        src = open(os.path.join(COQ, rel)).read()
        thms = re.findall(r"^\s*Theorem\s+([A-Za-z0-9_']+)", strip_coq_comments(src), re.M)
        if not thms:
            self.obligations.append(("no-theorems-in-" + rel, False, "Props file declares no Theorem"))
            return False
        ok, out = self.coq_make([rel + "o"] + list(extra_targets))
        self.coq_log = out
        if not ok:
            # find which theorem/lemma failed
            m = re.search(r'File "\./?([^"]+)", line (\d+)', out)
            where = "%s:%s" % (m.group(1), m.group(2)) if m else "?"
            err = out[-1500:]
            self.log("Coq build FAILED at", where)
            self.log(err)
            failing = self._locate_failed(where)
            for t in thms:
                self.obligations.append((t, False, "build failed at %s (%s)" % (where, failing)))
            self.proof_failure = {"where": where, "enclosing": failing, "log_tail": err}
            return False
        bad = audit_sources()
        if bad:
            for t in thms:
                self.obligations.append((t, False, "forbidden construct in development: " + "; ".join(bad[:5])))
            self.proof_failure = {"where": "audit", "enclosing": "source audit", "log_tail": "\n".join(bad)}
            return False
        # Print Assumptions, fresh every run
        text = "Require Import LdkV.Props.%s.\n" % props_module
        for t in thms:
            text += 'Print Assumptions %s.\n' % t
        rc, aout = self.coq_run("assumptions_" + props_module, text)
        if rc != 0:
            for t in thms:
                self.obligations.append((t, False, "Print Assumptions failed: " + aout[-500:]))
            self.proof_failure = {"where": "Print Assumptions", "enclosing": "", "log_tail": aout[-1500:]}
            return False
        blocks = split_assumptions(aout, len(thms))
        allok = True
        allow = set(STDLIB_AXIOM_ALLOW) | set(allow_axioms)
        for t, b in zip(thms, blocks):
            names = b["axioms"]
            notallowed = [a for a in names if a.split(".")[-1] not in allow and a not in allow]
            if b["closed"] or not notallowed:
                self.obligations.append((t, True, "closed under the global context" if b["closed"] else "axioms: " + ", ".join(names)))
                for a in names:
                    s = "axiom (stdlib) used by %s: %s" % (t, a)
                    if s not in self.trusted_base:
                        self.trusted_base.append(s)
            else:
                allok = False
                self.obligations.append((t, False, "depends on non-allowlisted assumptions: " + ", ".join(notallowed)))
                self.proof_failure = {"where": rel, "enclosing": t, "log_tail": b["raw"]}
        return allok

    def coqchk(self, props_module, timeout=1500, allow_axioms=()):
        """Independent re-check of the compiled Props module and everything it depends on with coqchk
        (thorough tier). Records an obligation 'coqchk:<module>' and the axioms coqchk lists."""
        rc, out, t = sh(["coqchk", "-o", "-silent", "-Q", COQ, "LdkV", "LdkV.Props." + props_module], cwd=COQ, timeout=timeout)
        self.timed("coqchk_s", t)
        m = re.search(r"\* Axioms:(.*?)\n\s*\n", out, re.S)
        axioms = []
        if m:
            axioms = [a.strip() for a in m.group(1).replace("<none>", "").split("\n") if a.strip()]
        bad_flags = []
        for label in ("type-in-type", "unsafe (co)fixpoints", "positivity is assumed"):
            mm = re.search(re.escape(label) + r":(.*?)\n\s*\n", out, re.S)
            if mm and "<none>" not in mm.group(1):
                bad_flags.append(label)
        allow = set(STDLIB_AXIOM_ALLOW) | set(allow_axioms)
        notallowed = [a for a in axioms if a.split(".")[-1] not in allow and a not in allow]
        ok = rc == 0 and not bad_flags and not notallowed
        self.obligations.append(("coqchk:" + props_module, ok, "axioms: %s" % (", ".join(axioms) or "<none>") if rc == 0 else out[-400:]))
        for a in axioms:
            s_ = "axiom reported by coqchk -o for the closure of Props/%s: %s" % (props_module, a)
            if s_ not in self.trusted_base:
                self.trusted_base.append(s_)
        self.coverage["coqchk"] = {"rc": rc, "axioms": axioms, "wall_s": round(t, 1)}
        return ok

    def _locate_failed(self, where):
        try:
            f, ln = where.rsplit(":", 1)
            lines = open(os.path.join(COQ, f)).read().split("\n")
            for i in range(int(ln) - 1, -1, -1):
                m = re.match(r"\s*(Theorem|Lemma|Corollary|Example|Definition|Fixpoint|Fact|Remark|Proposition)\s+([A-Za-z0-9_']+)", lines[i])
                if m:
                    return "%s %s" % (m.group(1), m.group(2))
        except Exception:
            pass
        return "?"

    # ---------- results
    def known_match(self, key):
        for e in self.known_findings:
            if e.get("kind") == "finding" and e.get("key") == key:
                return e
        return None

    def violation(self, what, replay, found_input, key=None):
        """Report a violation. replay: dict written to the replay file. found_input: whether a concrete
        failing input on the implementation is included. key: stable identifier matched against
        known_findings.json."""
        if key is not None:
            e = self.known_match(key)
            if e is not None:
                msg = "KNOWN-FINDING: property=%s %s" % (self.prop, e.get("what", key))
                if msg not in self.known:
                    self.known.append(msg)
                    print(msg, flush=True)
                return
        body = dict(replay)
        body.update({"property": self.prop, "what": what, "seed": self.seed, "tier": self.tier,
                     "failing_input_found": bool(found_input)})
        h = hashlib.sha256(json.dumps(body, sort_keys=True, default=str).encode()).hexdigest()[:12]
        path = os.path.join(REPLAYS, "%s-%s.json" % (self.prop, h))
        with open(path, "w") as f:
            json.dump(body, f, indent=1, sort_keys=True, default=str)
        line = "VIOLATION property=%s replay=%s" % (self.prop, path)
        if not found_input:
            line += " no-failing-input-found"
        print(line, flush=True)
        self.violations.append({"what": what, "replay": path, "found_input": bool(found_input)})

    def write_evidence(self, level="proof", checker_cmd=None, extra=None):
        cov = dict(self.coverage)
        nobl = len(self.obligations)
        ndis = sum(1 for o in self.obligations if o[1])
        cov.setdefault("obligations", nobl)
        cov.setdefault("discharged", ndis)
        cov["obligation_list"] = [{"name": n, "ok": ok, "detail": d} for (n, ok, d) in self.obligations]
        cov.setdefault("checker_cmd", checker_cmd or "make -C /verif/coq Props/%s.vo && coqc Print Assumptions (see tools/vlib/core.py:prove)" % self.prop)
        cov.setdefault("trusted_base", self.trusted_base)
        cov.setdefault("samples", self.samples[:12] if self.samples else [o[0] for o in self.obligations][:12])
        cov.setdefault("evaluations", 0)
        cov.setdefault("distinct_nontrivial", 0)
        cov["timings_s"] = self.timings
        cov["known_findings_hit"] = self.known
        if extra:
            cov.update(extra)
        ev = {
            "property_id": self.prop,
            "tier": self.tier,
            "seed": self.seed,
            "level": level,
            "coverage": cov,
            "assumptions": self.assumptions,
            "wall_s": round(time.time() - self.t0, 2),
            "violations": len(self.violations),
        }
        with open(os.path.join(EVID, self.prop + ".json"), "w") as f:
            json.dump(ev, f, indent=1, default=str)
        return ev


def parse_evals(out):
    """Parse coqc output of a sequence of `Eval vm_compute in` commands into value strings."""
    vals = []
    cur = None
    for line in out.split("\n"):
        if line.startswith("     = "):
            if cur is not None:
                vals.append(cur)
            cur = line[7:]
        elif line.startswith("     : "):
            if cur is not None:
                vals.append(cur)
                cur = None
        elif cur is not None:
            cur += " " + line.strip()
    if cur is not None:
        vals.append(cur)
    return [v.strip() for v in vals]


def split_assumptions(out, n):
    """Split output of n `Print Assumptions` commands."""
    blocks = []
    cur = None
    for line in out.split("\n"):
        if line.startswith("Closed under the global context"):
            if cur is not None:
                blocks.append(cur)
            blocks.append({"closed": True, "axioms": [], "raw": line})
            cur = None
        elif line.startswith("Axioms:") or line.startswith("Section Variables:"):
            if cur is not None:
                blocks.append(cur)
            cur = {"closed": False, "axioms": [], "raw": line}
        elif cur is not None:
            cur["raw"] += "\n" + line
            m = re.match(r"^([A-Za-z_][A-Za-z0-9_.']*)\s*:", line)
            if m:
                cur["axioms"].append(m.group(1))
    if cur is not None:
        blocks.append(cur)
    while len(blocks) < n:
        blocks.append({"closed": False, "axioms": ["<missing Print Assumptions output>"], "raw": out[-500:]})
    return blocks


def coq_str(s):
    return '"' + s.replace('"', '""') + '"'


def zlist(xs):
    return "[" + "; ".join(str(x) for x in xs) + "]"


_private_coq_tree()
