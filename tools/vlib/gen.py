"""Regeneration of coq/Gen/*.v from /repo by tools/rs2v (run by every check that depends on Gen)."""
import json
import os

from vlib import core

CONFIG_DIR = os.path.join(core.VERIF, "tools", "rs2v", "configs")


def regen(ctx=None, modules=None):
    """Runs rs2v for the given modules (default: every config). Returns (metas, errors):
    metas: {module: [ {name, file, line_start, line_end, sha, signature, rewrites}, ... ]}
    errors: {module: 'RS2V-REFUSED: ...'} for modules the translator refused (the old Gen file of a
    refused module is REMOVED so nothing stale can be proved against)."""
    from rs2v import rs2v as R
    metas, errors = {}, {}
    names = sorted(f[:-5] for f in os.listdir(CONFIG_DIR) if f.endswith(".json"))
    # dependency order: a config's import_configs first
    cfgs = {n: json.load(open(os.path.join(CONFIG_DIR, n + ".json"))) for n in names}
    order = []

    def visit(n):
        if n in order:
            return
        for d in cfgs[n].get("import_configs", []):
            visit(d[:-5])
        order.append(n)
    want = set(names if modules is None else modules)
    for n in list(want):
        def deps(m):
            for d in cfgs[m].get("import_configs", []):
                want.add(d[:-5])
                deps(d[:-5])
        deps(n)
    for n in names:
        visit(n)
    with core.Lock("rs2v-gen"):
        for n in order:
            if n not in want:
                continue
            out = os.path.join(core.COQ, "Gen", cfgs[n]["module"] + ".v")
            try:
                text, meta = R.translate_with_meta(cfgs[n], repo=core.REPO, config_dir=CONFIG_DIR)
                core.write_if_changed(out, text)
                metas[n] = meta
            except R.Rs2vError as ex:
                errors[n] = "RS2V-REFUSED: %s" % ex
                for p in (out, out + "o"):
                    if os.path.exists(p):
                        os.remove(p)
    if ctx is not None:
        ctx.gen_meta = [dict(m, module=k) for k, ms in metas.items() for m in ms]
        ctx.gen_errors = errors
    return metas, errors
