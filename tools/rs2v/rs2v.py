#!/usr/bin/env python3
"""rs2v -- translate a small, pure subset of Rust into Gallina (Coq 8.16).

Layout of this file
  1. errors, tokenizer
  2. cfg evaluation, item scanner (locates fn/const/struct items in a whole file)
  3. parser (Pratt) to a small AST
  4. types + unification (integer-width inference)
  5. lowering AST -> IR (CPS, so that `return` / `?` duplicate the continuation)
  6. `_safe` derivation (IR -> IR) and pretty printer (IR -> Gallina text)
  7. module driver (config handling, comments/hashes, CLI)

See README.md for the accepted subset, the abstractions (rewrites, dropped parameters, records, enums)
and the refusal behaviour.  Anything outside the subset raises Rs2vError; nothing is skipped silently.
"""
import bisect
import hashlib
import json
import os
import re
import sys

sys.setrecursionlimit(20000)


class Rs2vError(Exception):
    pass


# ---------------------------------------------------------------------------------------------
# 1. Tokenizer
# ---------------------------------------------------------------------------------------------

class Tok(object):
    __slots__ = ('k', 's', 'pos', 'end', 'line', 'suf')

    def __init__(self, k, s, pos, end, line, suf=None):
        self.k = k          # 'id' 'int' 'str' 'char' 'life' 'float' 'p' 'eof'
        self.s = s
        self.pos = pos
        self.end = end
        self.line = line
        self.suf = suf

    def __repr__(self):
        return 'Tok(%s,%r,l%d)' % (self.k, self.s, self.line)


_TOKEN_RE = re.compile(r'''
 (?P<ws>\s+)
|(?P<lcomment>//[^\n]*)
|(?P<bcomment>/\*)
|(?P<rawstr>b?r\#*")
|(?P<str>b?"(?:\\.|[^"\\])*")
|(?P<char>b?'(?:\\(?:x[0-9a-fA-F]{2}|u\{[0-9a-fA-F_]+\}|.)|[^\\'\n])')
|(?P<life>'[A-Za-z_]\w*)
|(?P<float>\d[\d_]*\.\d[\d_]*(?:[eE][+-]?\d+)?(?:f32|f64)?|\d[\d_]*(?:f32|f64))
|(?P<int>0x[0-9a-fA-F_]+|0o[0-7_]+|0b[01_]+|\d[\d_]*)(?P<suf>(?:u|i)(?:8|16|32|64|128|size))?
|(?P<id>(?:r\#)?[A-Za-z_]\w*)
|(?P<p><<=|>>=|\.\.\.|\.\.=|::|->|=>|==|!=|<=|>=|&&|\|\||\+=|-=|\*=|/=|%=|\^=|&=|\|=|<<|>>|\.\.|[-+*/%^!&|=<>@.,;:\#$?~(){}\[\]])
''', re.X | re.S)


def tokenize(text, where='<text>', line0=1):
    """Tokenize Rust source.  Comments are dropped.  line0 = line number of the first character."""
    starts = [0]
    for m in re.finditer(r'\n', text):
        starts.append(m.end())

    def line_of(p):
        return bisect.bisect_right(starts, p) - 1 + line0

    toks = []
    n = len(text)
    i = 0
    match = _TOKEN_RE.match
    while i < n:
        m = match(text, i)
        if m is None:
            raise Rs2vError('%s:%d: cannot tokenize near %r' % (where, line_of(i), text[i:i + 20]))
        kind = m.lastgroup
        if kind == 'suf':
            kind = 'int'
        j = m.end()
        if kind == 'ws' or kind == 'lcomment':
            i = j
            continue
        if kind == 'bcomment':
            depth = 1
            while depth and j < n:
                a = text.find('/*', j)
                b = text.find('*/', j)
                if b < 0:
                    raise Rs2vError('%s:%d: unterminated block comment' % (where, line_of(i)))
                if 0 <= a < b:
                    depth += 1
                    j = a + 2
                else:
                    depth -= 1
                    j = b + 2
            i = j
            continue
        if kind == 'rawstr':
            hashes = m.group('rawstr').count('#')
            close = '"' + '#' * hashes
            e = text.find(close, j)
            if e < 0:
                raise Rs2vError('%s:%d: unterminated raw string' % (where, line_of(i)))
            toks.append(Tok('str', text[i:e + len(close)], i, e + len(close), line_of(i)))
            i = e + len(close)
            continue
        if kind == 'float' and toks and toks[-1].s == '.' and toks[-1].k == 'p':
            # `x.0.1` : tuple field access, not a float
            m2 = re.compile(r'\d+').match(text, i)
            toks.append(Tok('int', m2.group(0), i, m2.end(), line_of(i)))
            i = m2.end()
            continue
        if kind == 'int':
            toks.append(Tok('int', m.group('int'), i, j, line_of(i), m.group('suf')))
        else:
            toks.append(Tok(kind, m.group(0), i, j, line_of(i)))
        i = j
    toks.append(Tok('eof', '<eof>', n, n, line_of(n)))
    return toks


_OPEN = {'(': ')', '[': ']', '{': '}'}
_CLOSE = {')', ']', '}'}


def match_delim(toks, i, where='?'):
    """toks[i] is an opening delimiter; return index of the matching closer."""
    depth = 0
    j = i
    n = len(toks)
    while j < n:
        t = toks[j]
        if t.k == 'p':
            if t.s in _OPEN:
                depth += 1
            elif t.s in _CLOSE:
                depth -= 1
                if depth == 0:
                    return j
        j += 1
    raise Rs2vError('%s:%d: unbalanced delimiter %s' % (where, toks[i].line, toks[i].s))


# ---------------------------------------------------------------------------------------------
# 2. cfg evaluation and item scanner
# ---------------------------------------------------------------------------------------------

class Cfg(object):
    """Evaluates #[cfg(...)] predicates.  `test` and `fuzzing` are false unless listed in cfg_flags;
    `debug_assertions` is true (the model is the debug build) unless 'no_debug_assertions' is listed."""

    def __init__(self, features, flags):
        self.features = set(features)
        self.flags = set(flags)

    def key(self):
        return (tuple(sorted(self.features)), tuple(sorted(self.flags)))

    def eval_tokens(self, toks, where):
        # toks: the tokens inside cfg( ... )
        pos = [0]

        def peek():
            return toks[pos[0]] if pos[0] < len(toks) else None

        def nxt():
            t = toks[pos[0]]
            pos[0] += 1
            return t

        def pred():
            t = nxt()
            if t.k != 'id':
                raise Rs2vError('%s:%d: unsupported cfg predicate token %r' % (where, t.line, t.s))
            name = t.s
            p = peek()
            if p is not None and p.s == '(':
                nxt()
                args = []
                while peek() is not None and peek().s != ')':
                    args.append(pred())
                    if peek() is not None and peek().s == ',':
                        nxt()
                if peek() is None:
                    raise Rs2vError('%s:%d: malformed cfg' % (where, t.line))
                nxt()
                if name == 'any':
                    return any(args)
                if name == 'all':
                    return all(args)
                if name == 'not':
                    if len(args) != 1:
                        raise Rs2vError('%s:%d: cfg not() needs one argument' % (where, t.line))
                    return not args[0]
                raise Rs2vError('%s:%d: unsupported cfg combinator %s' % (where, t.line, name))
            if p is not None and p.s == '=':
                nxt()
                v = nxt()
                if v.k != 'str':
                    raise Rs2vError('%s:%d: malformed cfg key=value' % (where, t.line))
                val = v.s.strip('"')
                if name == 'feature':
                    return val in self.features
                return ('%s=%s' % (name, val)) in self.flags
            if name == 'debug_assertions':
                return 'no_debug_assertions' not in self.flags
            return name in self.flags

        r = pred()
        if pos[0] != len(toks):
            raise Rs2vError('%s: trailing tokens in cfg' % where)
        return r


def read_attrs(toks, i, cfg, where):
    """Read a run of outer/inner attributes starting at toks[i]; return (next_index, active)."""
    active = True
    while toks[i].k == 'p' and toks[i].s == '#':
        j = i + 1
        if toks[j].s == '!':
            j += 1
        if toks[j].s != '[':
            break
        close = match_delim(toks, j, where)
        if toks[j + 1].k == 'id' and toks[j + 1].s == 'cfg' and toks[j + 2].s == '(':
            inner_close = match_delim(toks, j + 2, where)
            if not cfg.eval_tokens(toks[j + 3:inner_close], where):
                active = False
        i = close + 1
    return i, active


class Item(object):
    __slots__ = ('kind', 'name', 'impl', 'trait', 'in_fn', 'mods', 'active', 'pos', 'end',
                 'line_start', 'line_end')

    def __repr__(self):
        return 'Item(%s %s impl=%s in_fn=%s mods=%s active=%s l%d-%d)' % (
            self.kind, self.name, self.impl, self.in_fn, '::'.join(self.mods), self.active,
            self.line_start, self.line_end)


class FileIndex(object):
    """All fn / const / struct items of one source file, with cfg activity, found by a light scan."""

    def __init__(self, path, rel, cfg):
        self.path = path
        self.rel = rel
        with open(path, 'r', encoding='utf-8') as f:
            self.text = f.read()
        self.cfg = cfg
        self.toks = tokenize(self.text, rel)
        self.items = []
        self._scan(0, len(self.toks) - 1, dict(active=True, impl=None, trait=None, in_fn=None, mods=()))

    def _add(self, kind, name, ctx, active, first, last):
        it = Item()
        it.kind = kind
        it.name = name
        it.impl = ctx['impl']
        it.trait = ctx['trait']
        it.in_fn = ctx['in_fn']
        it.mods = ctx['mods']
        it.active = active
        it.pos = self.toks[first].pos
        it.end = self.toks[last].end
        it.line_start = self.toks[first].line
        it.line_end = self.toks[last].line
        self.items.append(it)
        return it

    def _skip_item(self, i, end):
        """Skip a generic item: up to the first `;` or balanced `{...}` at delimiter depth 0."""
        toks = self.toks
        while i < end:
            t = toks[i]
            if t.k == 'p':
                if t.s == ';':
                    return i + 1
                if t.s == '{':
                    return match_delim(toks, i, self.rel) + 1
                if t.s in _OPEN:
                    i = match_delim(toks, i, self.rel) + 1
                    continue
            i += 1
        return end

    def _impl_names(self, i, body):
        """toks[i] is `impl`/`trait`; body is index of `{`.  Return (type_name, trait_name)."""
        toks = self.toks
        hdr = toks[i + 1:body]
        # strip leading generics
        k = 0
        if hdr and hdr[0].s == '<':
            depth = 0
            while k < len(hdr):
                s = hdr[k].s
                if hdr[k].k == 'p':
                    if s == '<':
                        depth += 1
                    elif s == '>':
                        depth -= 1
                    elif s == '>>':
                        depth -= 2
                    if depth <= 0:
                        k += 1
                        break
                k += 1
        hdr = hdr[k:]
        depth = 0
        parts = [[]]
        for t in hdr:
            if t.k == 'p':
                if t.s == '<':
                    depth += 1
                elif t.s == '>':
                    depth -= 1
                elif t.s == '>>':
                    depth -= 2
            if depth == 0 and t.k == 'id' and t.s == 'for':
                parts.append([])
                continue
            if depth == 0 and t.k == 'id' and t.s == 'where':
                break
            if depth == 0 and t.k == 'id':
                parts[-1].append(t.s)
        def last_name(names):
            names = [x for x in names if x not in ('dyn', 'mut', 'const', 'unsafe', 'crate', 'super', 'self')]
            return names[-1] if names else None
        if len(parts) >= 2:
            return last_name(parts[1]), last_name(parts[0])
        return last_name(parts[0]), None

    def _scan(self, i, end, ctx):
        toks = self.toks
        cfg = self.cfg
        rel = self.rel
        while i < end:
            first = i
            i, act = read_attrs(toks, i, cfg, rel)
            active = ctx['active'] and act
            if i >= end:
                break
            t = toks[i]
            if t.k == 'p' and t.s == ';':
                i += 1
                continue
            if t.k == 'id' and t.s == 'pub':
                i += 1
                if toks[i].s == '(':
                    i = match_delim(toks, i, rel) + 1
                t = toks[i]
            while t.k == 'id' and t.s in ('default', 'unsafe', 'async', 'extern') and toks[i + 1].k in ('id', 'str'):
                i += 1
                if toks[i].k == 'str':
                    i += 1
                t = toks[i]
            if t.k != 'id':
                i = self._skip_item(i, end)
                continue
            kw = t.s
            if kw == 'const' and toks[i + 1].k == 'id' and toks[i + 1].s not in ('fn', 'unsafe', 'async', 'extern') \
                    and toks[i + 2].s == ':':
                j = i
                depth = 0
                while j < end:
                    s = toks[j]
                    if s.k == 'p':
                        if s.s in _OPEN:
                            j = match_delim(toks, j, rel)
                        elif s.s == ';':
                            break
                    j += 1
                self._add('const', toks[i + 1].s, ctx, active, first, j)
                i = j + 1
                continue
            if kw == 'const' and toks[i + 1].k == 'id' and toks[i + 1].s in ('fn', 'unsafe', 'async', 'extern'):
                i += 1
                while toks[i].s != 'fn' and i < end:
                    i += 1
                kw = 'fn'
            if kw == 'fn':
                name = toks[i + 1].s
                j = i + 2
                body = None
                while j < end:
                    s = toks[j]
                    if s.k == 'p':
                        if s.s == '{':
                            body = j
                            break
                        if s.s == ';':
                            break
                        if s.s in ('(', '['):
                            j = match_delim(toks, j, rel)
                    j += 1
                if body is None:
                    i = j + 1
                    continue
                close = match_delim(toks, body, rel)
                self._add('fn', name, ctx, active, first, close)
                self._scan_fn_body(body + 1, close, dict(ctx, active=active, in_fn=name))
                i = close + 1
                continue
            if kw in ('impl', 'trait'):
                j = i + 1
                body = None
                while j < end:
                    s = toks[j]
                    if s.k == 'p':
                        if s.s == '{':
                            body = j
                            break
                        if s.s == ';':
                            break
                        if s.s in ('(', '['):
                            j = match_delim(toks, j, rel)
                    j += 1
                if body is None:
                    i = j + 1
                    continue
                close = match_delim(toks, body, rel)
                if kw == 'impl':
                    ty, tr = self._impl_names(i, body)
                else:
                    ty, tr = toks[i + 1].s, toks[i + 1].s
                self._scan(body + 1, close, dict(ctx, active=active, impl=ty, trait=tr))
                i = close + 1
                continue
            if kw == 'mod' and toks[i + 1].k == 'id':
                if toks[i + 2].s == '{':
                    close = match_delim(toks, i + 2, rel)
                    self._scan(i + 3, close, dict(ctx, active=active, mods=ctx['mods'] + (toks[i + 1].s,)))
                    i = close + 1
                else:
                    i = self._skip_item(i, end)
                continue
            if kw == 'struct' and toks[i + 1].k == 'id':
                j = self._skip_item(i, end)
                self._add('struct', toks[i + 1].s, ctx, active, first, j - 1)
                i = j
                continue
            i = self._skip_item(i, end)

    def _scan_fn_body(self, i, end, ctx):
        """Inside a fn body only nested `const NAME: T = ...;` items are indexed."""
        toks = self.toks
        rel = self.rel
        while i < end:
            t = toks[i]
            if t.k == 'id' and t.s == 'const' and toks[i + 1].k == 'id' and toks[i + 2].s == ':' \
                    and toks[i - 1].s not in ('<', ',', '*'):
                # find attributes immediately before
                first = i
                active = ctx['active']
                k = i - 1
                while toks[k].s == ']':
                    d = 0
                    o = k
                    while o >= 0:
                        if toks[o].s == ']':
                            d += 1
                        elif toks[o].s == '[':
                            d -= 1
                            if d == 0:
                                break
                        o -= 1
                    if o >= 1 and toks[o - 1].s == '#':
                        _, act = read_attrs(toks, o - 1, self.cfg, rel)
                        active = active and act
                        first = o - 1
                        k = o - 2
                    else:
                        break
                j = i
                while j < end:
                    s = toks[j]
                    if s.k == 'p':
                        if s.s in _OPEN:
                            j = match_delim(toks, j, rel)
                        elif s.s == ';':
                            break
                    j += 1
                self._add('const', toks[i + 1].s, ctx, active, first, j)
                i = j + 1
                continue
            i += 1

    def find(self, kind, name, impl=None, in_fn=None, what=None):
        cands = [it for it in self.items if it.kind == kind and it.name == name]
        if kind in ('fn', 'const'):
            if impl is not None:
                cands = [it for it in cands if it.impl == impl]
            elif kind == 'fn':
                cands = [it for it in cands if it.impl is None]
            if in_fn is not None:
                cands = [it for it in cands if it.in_fn == in_fn]
        allc = cands
        cands = [it for it in cands if it.active]
        what = what or ('%s `%s`' % (kind, name))
        if len(cands) == 0:
            if allc:
                raise Rs2vError('%s: %s exists but no definition is active under the configured cfg' % (self.rel, what))
            raise Rs2vError('%s: %s not found%s' % (self.rel, what, (' in impl %s' % impl) if impl else ''))
        if len(cands) > 1:
            raise Rs2vError('%s: %s is ambiguous: %d active definitions (lines %s); use "impl"/"in_fn" to select'
                            % (self.rel, what, len(cands), ', '.join(str(c.line_start) for c in cands)))
        return cands[0]


# ---------------------------------------------------------------------------------------------
# 3. Parser
# ---------------------------------------------------------------------------------------------

class A(object):
    """AST node: kind + arbitrary attributes."""

    def __init__(self, k, line=0, **kw):
        self.k = k
        self.line = line
        self.__dict__.update(kw)

    def __repr__(self):
        d = dict(self.__dict__)
        d.pop('line', None)
        k = d.pop('k')
        return '%s(%s)' % (k, ', '.join('%s=%r' % kv for kv in d.items()))


BINOPS = {'||': 3, '&&': 4, '==': 5, '!=': 5, '<': 5, '>': 5, '<=': 5, '>=': 5, '|': 6, '^': 7, '&': 8,
          '<<': 9, '>>': 9, '+': 10, '-': 10, '*': 11, '/': 11, '%': 11}
ASSIGN_OPS = {'=', '+=', '-=', '*=', '/=', '%=', '^=', '&=', '|=', '<<=', '>>='}
ITEM_KWS = {'fn', 'use', 'struct', 'enum', 'impl', 'static', 'type', 'mod', 'trait', 'extern', 'union'}


class Parser(object):
    def __init__(self, toks, where, cfg):
        self.toks = toks
        self.i = 0
        self.where = where
        self.cfg = cfg

    # -- helpers
    def peek(self, o=0):
        j = self.i + o
        if j >= len(self.toks):
            return self.toks[-1]
        return self.toks[j]

    def next(self):
        t = self.toks[self.i]
        if t.k != 'eof':
            self.i += 1
        return t

    def at(self, s, o=0):
        t = self.peek(o)
        return t.s == s and t.k in ('p', 'id')

    def accept(self, s):
        if self.at(s):
            self.i += 1
            return True
        return False

    def err(self, msg, tok=None):
        tok = tok or self.peek()
        raise Rs2vError('%s:%d: %s' % (self.where, tok.line, msg))

    def expect(self, s):
        if not self.accept(s):
            self.err('expected `%s`, found `%s`' % (s, self.peek().s))

    def ident(self):
        t = self.next()
        if t.k != 'id':
            self.err('expected identifier, found `%s`' % t.s, t)
        return t.s[2:] if t.s.startswith('r#') else t.s

    def attrs(self):
        i, active = read_attrs(self.toks, self.i, self.cfg, self.where)
        self.i = i
        return active

    def close_angle(self):
        t = self.peek()
        if t.k == 'p' and t.s == '>':
            self.i += 1
        elif t.k == 'p' and t.s in ('>>', '>=', '>>='):
            t.s = t.s[1:]
        else:
            self.err('expected `>`, found `%s`' % t.s)

    # -- types
    def parse_type(self):
        t = self.peek()
        if t.k == 'p' and t.s in ('&', '&&'):
            self.next()
            if self.peek().k == 'life':
                self.next()
            self.accept('mut')
            return self.parse_type()
        if self.accept('('):
            elems = []
            trailing = False
            while not self.at(')'):
                elems.append(self.parse_type())
                trailing = self.accept(',')
                if not trailing:
                    break
            self.expect(')')
            if len(elems) == 1 and not trailing:
                return elems[0]
            return A('tuple', t.line, elems=elems)
        if self.accept('['):
            el = self.parse_type()
            if self.accept(';'):
                depth = 0
                while not (self.at(']') and depth == 0):
                    if self.peek().k == 'eof':
                        self.err('unterminated array type')
                    s = self.next().s
                    if s in _OPEN:
                        depth += 1
                    elif s in _CLOSE:
                        depth -= 1
            self.expect(']')
            return A('slice', t.line, elem=el)
        if t.k == 'id' and t.s in ('impl', 'dyn'):
            self.next()
            return A('impl', t.line, bounds=self.parse_bounds())
        if self.accept('!'):
            return A('never', t.line)
        if t.k == 'p' and t.s == '*':
            self.err('raw pointer types are not supported')
        if t.k == 'id' and t.s in ('fn', 'unsafe', 'extern', 'for'):
            self.err('function pointer / higher-ranked types are not supported')
        if t.k == 'p' and t.s == '<':
            self.err('qualified path types (`<T as Trait>::X`) are not supported')
        return self.parse_type_path()

    def parse_type_path(self):
        t = self.peek()
        segs = []
        args = []
        self.accept('::')
        while True:
            segs.append(self.ident())
            args = []
            if self.at('<') or (self.at('::') and self.at('<', 1)):
                self.accept('::')
                args = self.parse_generic_args()
            elif self.at('(') and segs[-1] in ('Fn', 'FnMut', 'FnOnce'):
                close = match_delim(self.toks, self.i, self.where)
                self.i = close + 1
                if self.accept('->'):
                    self.parse_type()
                return A('opaque', t.line, text='Fn')
            if self.at('::') and self.peek(1).k == 'id':
                self.next()
                continue
            break
        return A('tpath', t.line, segs=segs, args=args)

    def parse_generic_args(self):
        self.expect('<')
        args = []
        while not (self.peek().k == 'p' and self.peek().s in ('>', '>>', '>=', '>>=')):
            t = self.peek()
            if t.k == 'life':
                self.next()
            elif t.k == 'id' and self.at('=', 1):
                name = self.ident()
                self.next()
                args.append(A('assoc', t.line, name=name, ty=self.parse_type()))
            elif t.k in ('int', 'str', 'char') or t.s in ('{', '-'):
                if t.s == '{':
                    self.i = match_delim(self.toks, self.i, self.where) + 1
                else:
                    self.next()
                    if t.s == '-':
                        self.next()
                args.append(A('opaque', t.line, text='const-arg'))
            else:
                args.append(self.parse_type())
            if not self.accept(','):
                break
        self.close_angle()
        return args

    def parse_bounds(self):
        bounds = []
        while True:
            t = self.peek()
            if t.k == 'life':
                self.next()
            elif self.accept('?'):
                self.parse_type_path()
            elif self.accept('('):
                bounds.append(self.parse_type())
                self.expect(')')
            elif t.k == 'id' and t.s == 'for':
                self.err('higher-ranked bounds are not supported')
            else:
                bounds.append(self.parse_type_path())
            if not self.accept('+'):
                break
        return bounds

    def parse_generic_params(self):
        """<...> after fn name.  Returns dict name -> list of bound types."""
        res = {}
        if not self.at('<'):
            return res
        self.next()
        while not self.at('>'):
            t = self.peek()
            if t.k == 'life':
                self.next()
                if self.accept(':'):
                    while self.peek().k == 'life':
                        self.next()
                        if not self.accept('+'):
                            break
            elif self.accept('const'):
                self.ident()
                self.expect(':')
                self.parse_type()
            else:
                name = self.ident()
                res[name] = []
                if self.accept(':'):
                    if not (self.at(',') or self.at('>') or self.at('=')):
                        res[name] = self.parse_bounds()
                if self.accept('='):
                    self.parse_type()
            if not self.accept(','):
                break
        self.close_angle()
        return res

    def parse_where(self, generics):
        if not self.accept('where'):
            return
        while not (self.at('{') or self.at(';') or self.peek().k == 'eof'):
            t = self.peek()
            if t.k == 'life':
                self.next()
                self.expect(':')
                while self.peek().k == 'life':
                    self.next()
                    if not self.accept('+'):
                        break
            else:
                lhs = self.parse_type()
                self.expect(':')
                bounds = self.parse_bounds() if not (self.at(',') or self.at('{')) else []
                if lhs.k == 'tpath' and len(lhs.segs) == 1 and not lhs.args:
                    generics.setdefault(lhs.segs[0], []).extend(bounds)
            if not self.accept(','):
                break

    # -- patterns
    def parse_pattern(self, allow_or=True):
        t = self.peek()
        self.accept('|') if allow_or else None
        p = self.parse_pattern1()
        if allow_or and self.at('|'):
            alts = [p]
            while self.accept('|'):
                alts.append(self.parse_pattern1())
            return A('por', t.line, alts=alts)
        return p

    def parse_pattern1(self):
        t = self.peek()
        if t.k == 'p' and t.s in ('&', '&&'):
            self.next()
            self.accept('mut')
            return self.parse_pattern1()
        if t.k == 'id' and t.s == '_':
            self.next()
            return A('pwild', t.line)
        if t.k == 'id' and t.s in ('ref', 'mut'):
            self.next()
            if t.s == 'ref':
                self.accept('mut')
            name = self.ident()
            if self.at('@'):
                self.err('`@` patterns are not supported')
            return A('pbind', t.line, name=name)
        if t.k == 'id' and t.s in ('true', 'false'):
            self.next()
            return A('pbool', t.line, value=(t.s == 'true'))
        if t.k == 'int' or (t.s == '-' and self.peek(1).k == 'int'):
            neg = self.accept('-')
            it = self.next()
            v = parse_int(it.s)
            if self.at('..') or self.at('..=') or self.at('...'):
                self.err('range patterns are not supported')
            return A('pint', t.line, value=-v if neg else v)
        if t.k in ('str', 'char', 'float'):
            self.err('string/char/float literal patterns are not supported')
        if self.accept('('):
            elems = []
            trailing = False
            while not self.at(')'):
                if self.at('..'):
                    self.err('`..` in tuple patterns is not supported')
                elems.append(self.parse_pattern())
                trailing = self.accept(',')
                if not trailing:
                    break
            self.expect(')')
            if len(elems) == 1 and not trailing:
                return elems[0]
            return A('ptuple', t.line, elems=elems)
        if t.k == 'p' and t.s == '[':
            self.err('slice patterns are not supported')
        if t.k != 'id':
            self.err('unsupported pattern starting with `%s`' % t.s)
        segs = [self.ident()]
        while self.at('::'):
            self.next()
            if self.at('<'):
                self.parse_generic_args()
                continue
            segs.append(self.ident())
        if self.at('('):
            self.next()
            elems = []
            while not self.at(')'):
                if self.at('..'):
                    self.err('`..` in tuple-struct patterns is not supported')
                elems.append(self.parse_pattern())
                if not self.accept(','):
                    break
            self.expect(')')
            return A('ptstruct', t.line, segs=segs, elems=elems)
        if self.at('{'):
            self.next()
            fields = []
            rest = False
            while not self.at('}'):
                if self.accept('..'):
                    rest = True
                    break
                active = self.attrs()
                ft = self.peek()
                byref = False
                while self.peek().k == 'id' and self.peek().s in ('ref', 'mut'):
                    self.next()
                    byref = True
                fname = self.ident()
                if self.accept(':'):
                    if byref:
                        self.err('malformed struct pattern field')
                    fp = self.parse_pattern()
                else:
                    fp = A('pbind', ft.line, name=fname)
                if active:
                    fields.append((fname, fp))
                if not self.accept(','):
                    break
            self.expect('}')
            return A('pstruct', t.line, segs=segs, fields=fields, rest=rest)
        if self.at('@'):
            self.err('`@` patterns are not supported')
        if self.at('..') or self.at('..='):
            self.err('range patterns are not supported')
        if len(segs) == 1 and not segs[0][0].isupper():
            return A('pbind', t.line, name=segs[0])
        return A('ppath', t.line, segs=segs)

    # -- expressions
    def parse_expr(self, min_prec=0, no_struct=False):
        lhs = self.parse_unary(no_struct)
        while True:
            t = self.peek()
            if t.k == 'id' and t.s == 'as' and 12 >= min_prec:
                self.next()
                ty = self.parse_type()
                lhs = A('cast', t.line, e=lhs, ty=ty)
                continue
            if t.k == 'p' and t.s in BINOPS and BINOPS[t.s] >= min_prec:
                prec = BINOPS[t.s]
                self.next()
                rhs = self.parse_expr(prec + 1, no_struct)
                if prec == 5 and self.peek().k == 'p' and self.peek().s in BINOPS and BINOPS[self.peek().s] == 5:
                    self.err('chained comparison operators')
                lhs = A('binary', t.line, op=t.s, l=lhs, r=rhs)
                continue
            if t.k == 'p' and t.s in ASSIGN_OPS and 1 >= min_prec:
                self.next()
                rhs = self.parse_expr(1, no_struct)
                lhs = A('assign', t.line, op=t.s, l=lhs, r=rhs)
                continue
            if t.k == 'p' and t.s in ('..', '..=') and 2 >= min_prec:
                self.err('range expressions are not supported')
            break
        return lhs

    def parse_unary(self, no_struct):
        t = self.peek()
        if t.k == 'p' and t.s in ('-', '!', '*'):
            self.next()
            e = self.parse_unary(no_struct)
            return A('unary', t.line, op=t.s, e=e)
        if t.k == 'p' and t.s in ('&', '&&'):
            self.next()
            self.accept('mut')
            e = self.parse_unary(no_struct)
            return A('unary', t.line, op='&', e=e)
        return self.parse_postfix(self.parse_primary(no_struct), no_struct)

    def parse_postfix(self, e, no_struct):
        while True:
            t = self.peek()
            if t.k != 'p':
                break
            if t.s == '?':
                self.next()
                e = A('try', t.line, e=e)
            elif t.s == '.':
                self.next()
                n = self.peek()
                if n.k == 'int':
                    self.next()
                    e = A('field', t.line, e=e, name=n.s)
                elif n.k == 'id':
                    name = self.ident()
                    if name == 'await':
                        self.err('`.await` is not supported')
                    targs = []
                    if self.at('::') and self.at('<', 1):
                        self.next()
                        targs = self.parse_generic_args()
                    if self.at('('):
                        args = self.parse_call_args()
                        e = A('mcall', t.line, recv=e, name=name, targs=targs, args=args)
                    else:
                        e = A('field', t.line, e=e, name=name)
                else:
                    self.err('unexpected token after `.`: `%s`' % n.s)
            elif t.s == '(':
                args = self.parse_call_args()
                e = A('call', t.line, f=e, args=args)
            elif t.s == '[':
                self.next()
                idx = self.parse_expr()
                self.expect(']')
                e = A('index', t.line, e=e, idx=idx)
            else:
                break
        return e

    def parse_call_args(self):
        self.expect('(')
        args = []
        while not self.at(')'):
            args.append(self.parse_expr())
            if not self.accept(','):
                break
        self.expect(')')
        return args

    def parse_primary(self, no_struct):
        t = self.peek()
        if t.k == 'int':
            self.next()
            return A('int', t.line, value=parse_int(t.s), suf=t.suf)
        if t.k == 'float':
            self.err('floating point literals are not supported')
        if t.k == 'str':
            self.next()
            return A('str', t.line, value=t.s)
        if t.k == 'char':
            self.err('char literals are not supported')
        if t.k == 'life':
            self.err('loop labels are not supported')
        if t.k == 'p':
            if t.s == '(':
                self.next()
                elems = []
                trailing = False
                while not self.at(')'):
                    elems.append(self.parse_expr())
                    trailing = self.accept(',')
                    if not trailing:
                        break
                self.expect(')')
                if not elems:
                    return A('unit', t.line)
                if len(elems) == 1 and not trailing:
                    return A('paren', t.line, e=elems[0])
                return A('tuple', t.line, elems=elems)
            if t.s == '{':
                return self.parse_block()
            if t.s == '[':
                self.err('array literals are not supported')
            if t.s in ('|', '||'):
                return self.parse_closure()
            if t.s == '<':
                self.err('qualified paths (`<T as Trait>::f`) are not supported')
            if t.s in ('..', '..='):
                self.err('range expressions are not supported')
            self.err('unexpected token `%s` in expression' % t.s)
        if t.k != 'id':
            self.err('unexpected token `%s` in expression' % t.s)
        s = t.s
        if s in ('true', 'false'):
            self.next()
            return A('bool', t.line, value=(s == 'true'))
        if s == 'if':
            return self.parse_if()
        if s == 'match':
            return self.parse_match()
        if s == 'for':
            self.next()
            pat = self.parse_pattern()
            self.expect('in')
            it = self.parse_expr(0, True)
            body = self.parse_block()
            return A('for', t.line, pat=pat, iter=it, body=body)
        if s == 'while':
            self.err('`while` loops are not supported')
        if s == 'loop':
            self.err('`loop` is not supported')
        if s == 'unsafe':
            self.err('`unsafe` blocks are not supported')
        if s in ('async', 'await', 'yield'):
            self.err('`%s` is not supported' % s)
        if s in ('break', 'continue'):
            self.err('`%s` is not supported' % s)
        if s == 'return':
            self.next()
            n = self.peek()
            if n.k == 'p' and n.s in (';', '}', ',', ')'):
                return A('return', t.line, e=None)
            return A('return', t.line, e=self.parse_expr())
        if s == 'move':
            self.next()
            return self.parse_closure()
        if s == 'let':
            self.err('`let` in expression position (let-chains) is not supported')
        # path
        segs = [self.ident()]
        targs = []
        while self.at('::'):
            self.next()
            if self.at('<'):
                targs = self.parse_generic_args()
                continue
            segs.append(self.ident())
        if self.at('!') and not self.at('=', 1) and self.peek(1).s in _OPEN:
            self.next()
            close = match_delim(self.toks, self.i, self.where)
            inner = self.toks[self.i + 1:close]
            self.i = close + 1
            return A('macro', t.line, name=segs[-1], toks=inner)
        if self.at('{') and not no_struct and segs[-1][:1].isupper():
            n1, n2 = self.peek(1), self.peek(2)
            if (n1.s == '}' and n1.k == 'p') or (n1.k == 'id' and n2.k == 'p' and n2.s in (':', ',', '}')) \
                    or (n1.k == 'p' and n1.s in ('..', '#')):
                return self.parse_struct_lit(segs, t)
        return A('path', t.line, segs=segs, targs=targs)

    def parse_struct_lit(self, segs, t):
        self.expect('{')
        fields = []
        while not self.at('}'):
            if self.at('..'):
                self.err('struct update syntax (`..base`) is not supported')
            active = self.attrs()
            ft = self.peek()
            name = self.ident()
            if self.accept(':'):
                val = self.parse_expr()
            else:
                val = A('path', ft.line, segs=[name], targs=[])
            if active:
                fields.append((name, val))
            if not self.accept(','):
                break
        self.expect('}')
        return A('struct', t.line, segs=segs, fields=fields)

    def parse_closure(self):
        t = self.peek()
        params = []
        if self.accept('||'):
            pass
        else:
            self.expect('|')
            while not self.at('|'):
                pat = self.parse_pattern(allow_or=False)
                ty = None
                if self.accept(':'):
                    ty = self.parse_type()
                params.append((pat, ty))
                if not self.accept(','):
                    break
            self.expect('|')
        ret = None
        if self.accept('->'):
            ret = self.parse_type()
            body = self.parse_block()
        else:
            body = self.parse_expr()
        return A('closure', t.line, params=params, ret=ret, body=body)

    def parse_if(self):
        t = self.next()
        if self.accept('let'):
            pat = self.parse_pattern()
            self.expect('=')
            scrut = self.parse_expr(5, True)
            if self.at('&&') or self.at('||'):
                self.err('let-chains are not supported')
            then = self.parse_block()
            els = self.parse_else()
            return A('iflet', t.line, pat=pat, scrut=scrut, then=then, els=els)
        cond = self.parse_expr(0, True)
        then = self.parse_block()
        els = self.parse_else()
        return A('if', t.line, cond=cond, then=then, els=els)

    def parse_else(self):
        if self.accept('else'):
            if self.at('if'):
                return self.parse_if()
            return self.parse_block()
        return None

    def parse_match(self):
        t = self.next()
        scrut = self.parse_expr(0, True)
        self.expect('{')
        arms = []
        while not self.at('}'):
            active = self.attrs()
            pat = self.parse_pattern()
            guard = None
            if self.accept('if'):
                guard = self.parse_expr()
            self.expect('=>')
            if self.peek().k == 'id' and self.peek().s in ('if', 'match') or self.at('{'):
                body = self.parse_expr_stmt()
                self.accept(',')
            else:
                body = self.parse_expr()
                if not self.at('}'):
                    self.expect(',')
            if active:
                arms.append((pat, guard, body))
        self.expect('}')
        return A('match', t.line, scrut=scrut, arms=arms)

    def is_blocklike_start(self):
        t = self.peek()
        return (t.k == 'p' and t.s == '{') or (t.k == 'id' and t.s in ('if', 'match', 'for', 'while', 'loop', 'unsafe'))

    def parse_expr_stmt(self):
        """Expression in statement position: a block-like expression ends at its closing brace,
        unless it is continued by `.`/`?` (method call on the block value) or a binary operator is
        impossible there anyway."""
        if self.is_blocklike_start():
            e = self.parse_primary(False)
            if self.at('.') or self.at('?'):
                e = self.parse_postfix(e, False)
                # allow `if ... {} else {}.foo() + 1`-style continuation only through full re-parse
            e.blocklike = True
            return e
        return self.parse_expr()

    def parse_block(self):
        t = self.peek()
        self.expect('{')
        stmts = []
        tail = None
        while not self.at('}'):
            if self.peek().k == 'eof':
                self.err('unterminated block')
            if self.accept(';'):
                continue
            active = self.attrs()
            st = self.peek()
            if st.k == 'id' and st.s == 'let':
                self.next()
                pat = self.parse_pattern()
                ty = None
                if self.accept(':'):
                    ty = self.parse_type()
                init = None
                els = None
                if self.accept('='):
                    init = self.parse_expr()
                    if self.accept('else'):
                        els = self.parse_block()
                self.expect(';')
                if active:
                    stmts.append(A('let', st.line, pat=pat, ty=ty, init=init, els=els))
                continue
            if st.k == 'id' and st.s == 'const' and self.peek(1).k == 'id' and self.at(':', 2):
                self.next()
                name = self.ident()
                self.expect(':')
                ty = self.parse_type()
                self.expect('=')
                init = self.parse_expr()
                self.expect(';')
                if active:
                    stmts.append(A('let', st.line, pat=A('pbind', st.line, name=name), ty=ty, init=init, els=None,
                                   is_const=True))
                continue
            if st.k == 'id' and st.s == 'macro_rules' and self.at('!', 1):
                self.err('`macro_rules!` definitions inside a function are not supported')
            if st.k == 'id' and (st.s in ITEM_KWS or (st.s == 'pub')) and self.peek(1).k == 'id':
                self.err('nested item (`%s`) inside a function is not supported' % st.s)
            e = self.parse_expr_stmt()
            if self.accept(';'):
                if active:
                    stmts.append(A('expr', st.line, e=e))
            elif self.at('}'):
                if active:
                    tail = e
                # an inactive tail leaves the block without value
            elif getattr(e, 'blocklike', False):
                if active:
                    stmts.append(A('expr', st.line, e=e))
            else:
                self.err('expected `;` or `}` after expression, found `%s`' % self.peek().s)
        self.expect('}')
        return A('block', t.line, stmts=stmts, tail=tail)

    # -- items
    def skip_vis_and_quals(self):
        if self.accept('pub'):
            if self.at('('):
                self.i = match_delim(self.toks, self.i, self.where) + 1
        while self.peek().k == 'id' and self.peek().s in ('default', 'const', 'unsafe', 'async', 'extern') \
                and not (self.peek().s == 'const' and self.at(':', 2)):
            if self.peek().s in ('unsafe', 'async'):
                self.err('`%s fn` is not supported' % self.peek().s)
            self.next()
            if self.peek().k == 'str':
                self.next()

    def parse_fn_item(self):
        self.attrs()
        self.skip_vis_and_quals()
        t = self.peek()
        self.expect('fn')
        name = self.ident()
        generics = self.parse_generic_params()
        self.expect('(')
        params = []
        has_self = False
        while not self.at(')'):
            active = self.attrs()
            # self forms
            j = self.i
            k = j
            if self.toks[k].s in ('&', '&&'):
                k += 1
                if self.toks[k].k == 'life':
                    k += 1
            if self.toks[k].s == 'mut':
                k += 1
            if self.toks[k].k == 'id' and self.toks[k].s == 'self':
                self.i = k + 1
                if self.accept(':'):
                    self.parse_type()
                has_self = True
            else:
                pat = self.parse_pattern(allow_or=False)
                self.expect(':')
                ty = self.parse_type()
                if active:
                    params.append((pat, ty))
            if not self.accept(','):
                break
        self.expect(')')
        ret = None
        if self.accept('->'):
            ret = self.parse_type()
        self.parse_where(generics)
        body = self.parse_block()
        if self.peek().k != 'eof':
            self.err('trailing tokens after function body')
        return A('fn', t.line, name=name, generics=generics, params=params, has_self=has_self, ret=ret, body=body)

    def parse_const_item(self):
        self.attrs()
        if self.accept('pub'):
            if self.at('('):
                self.i = match_delim(self.toks, self.i, self.where) + 1
        t = self.peek()
        self.expect('const')
        name = self.ident()
        self.expect(':')
        ty = self.parse_type()
        self.expect('=')
        init = self.parse_expr()
        self.expect(';')
        if self.peek().k != 'eof':
            self.err('trailing tokens after const item')
        return A('const', t.line, name=name, ty=ty, init=init)

    def parse_struct_item(self):
        self.attrs()
        if self.accept('pub'):
            if self.at('('):
                self.i = match_delim(self.toks, self.i, self.where) + 1
        self.expect('struct')
        name = self.ident()
        self.parse_generic_params()
        gen = {}
        self.parse_where(gen)
        if not self.at('{'):
            self.err('only structs with named fields can be checked against a record')
        self.next()
        fields = []
        while not self.at('}'):
            active = self.attrs()
            if self.accept('pub'):
                if self.at('('):
                    self.i = match_delim(self.toks, self.i, self.where) + 1
            fname = self.ident()
            self.expect(':')
            fty = self.parse_type()
            if active:
                fields.append((fname, fty))
            if not self.accept(','):
                break
        self.expect('}')
        return A('structdef', 0, name=name, fields=fields)

    def parse_whole_expr(self):
        e = self.parse_expr()
        if self.peek().k != 'eof':
            self.err('trailing tokens after expression: `%s`' % self.peek().s)
        return e


def parse_int(s):
    s = s.replace('_', '')
    if s.startswith('0x'):
        return int(s[2:], 16)
    if s.startswith('0o'):
        return int(s[2:], 8)
    if s.startswith('0b'):
        return int(s[2:], 2)
    return int(s, 10)


# ---------------------------------------------------------------------------------------------
# 4. Types and unification
# ---------------------------------------------------------------------------------------------

INT = {'u8': (8, False), 'u16': (16, False), 'u32': (32, False), 'u64': (64, False), 'u128': (128, False),
       'usize': (64, False), 'i8': (8, True), 'i16': (16, True), 'i32': (32, True), 'i64': (64, True),
       'i128': (128, True), 'isize': (64, True)}


class TV(object):
    """Inference variable.  kind 'int' = must become an integer type (unsuffixed literal)."""
    __slots__ = ('ref', 'kind')

    def __init__(self, kind='any'):
        self.ref = None
        self.kind = kind


def prune(t):
    while isinstance(t, TV) and t.ref is not None:
        t = t.ref
    return t


def is_int(t):
    t = prune(t)
    return isinstance(t, str) and t in INT


def show_type(t):
    t = prune(t)
    if isinstance(t, TV):
        return '{integer}' if t.kind == 'int' else '_'
    if isinstance(t, str):
        return t
    if t[0] == 'tuple':
        return '(' + ', '.join(show_type(x) for x in t[1]) + ')'
    if t[0] in ('record', 'enum', 'opaque'):
        return t[1]
    if t[0] == 'fn':
        return 'fn(' + ', '.join(show_type(x) for x in t[1]) + ') -> ' + show_type(t[2])
    return t[0] + '<' + ', '.join(show_type(x) for x in t[1:]) + '>'


def unify(a, b, where):
    a = prune(a)
    b = prune(b)
    if a is b:
        return
    if isinstance(a, TV):
        if isinstance(b, TV):
            if a.kind == 'int':
                b.kind = 'int'
            a.ref = b
            return
        if a.kind == 'int' and not (isinstance(b, str) and (b in INT or b == 'never')):
            raise Rs2vError('%s: type mismatch: integer literal vs %s' % (where, show_type(b)))
        if b != 'never':
            a.ref = b
        return
    if isinstance(b, TV):
        return unify(b, a, where)
    if a == 'never' or b == 'never':
        return
    if isinstance(a, str) or isinstance(b, str):
        if a != b:
            raise Rs2vError('%s: type mismatch: %s vs %s' % (where, show_type(a), show_type(b)))
        return
    if a[0] != b[0]:
        raise Rs2vError('%s: type mismatch: %s vs %s' % (where, show_type(a), show_type(b)))
    if a[0] in ('record', 'enum', 'opaque'):
        if a[1] != b[1]:
            raise Rs2vError('%s: type mismatch: %s vs %s' % (where, show_type(a), show_type(b)))
        return
    if a[0] == 'tuple':
        if len(a[1]) != len(b[1]):
            raise Rs2vError('%s: tuple arity mismatch: %s vs %s' % (where, show_type(a), show_type(b)))
        for x, y in zip(a[1], b[1]):
            unify(x, y, where)
        return
    if a[0] == 'fn':
        if len(a[1]) != len(b[1]):
            raise Rs2vError('%s: closure arity mismatch' % where)
        for x, y in zip(a[1], b[1]):
            unify(x, y, where)
        unify(a[2], b[2], where)
        return
    for x, y in zip(a[1:], b[1:]):
        unify(x, y, where)


def coq_type(t, where):
    t = prune(t)
    if isinstance(t, TV):
        if t.kind == 'int':
            return 'Z'
        raise Rs2vError('%s: cannot infer a type needed in the Coq signature' % where)
    if isinstance(t, str):
        if t in INT:
            return 'Z'
        if t == 'bool':
            return 'bool'
        if t == 'unit':
            return 'unit'
        if t == 'str':
            return 'string'
        raise Rs2vError('%s: type `%s` has no Coq counterpart' % (where, t))
    if t[0] == 'option':
        return 'option ' + coq_type_atom(t[1], where)
    if t[0] == 'tryres':
        return 'option ' + coq_type_atom(t[1], where)
    if t[0] == 'result':
        return 'rres ' + coq_type_atom(t[1], where)
    if t[0] == 'list':
        return 'list ' + coq_type_atom(t[1], where)
    if t[0] == 'tuple':
        return '(' + ' * '.join(coq_type_atom(x, where) for x in t[1]) + ')'
    if t[0] in ('record', 'enum'):
        return t[1]
    if t[0] == 'opaque':
        raise Rs2vError('%s: unsupported type `%s` (drop the parameter, or declare it as record/enum, '
                        'or give "param_types")' % (where, t[1]))
    raise Rs2vError('%s: type %s has no Coq counterpart' % (where, show_type(t)))


def coq_type_atom(t, where):
    s = coq_type(t, where)
    if ' ' in s and not s.startswith('('):
        return '(' + s + ')'
    return s


class FnSig(object):
    """Signature of a translated function as seen from call sites."""

    def __init__(self):
        self.coq = None
        self.rust_params = []     # [(name, type, dropped)] in Rust order, without self
        self.self_mode = None     # None | 'record' | 'fields'
        self.self_type = None
        self.self_fields = []     # [(name, type)]
        self.extras = []          # [(name, type)]
        self.ret = None
        self.impl = None
        self.name = None


class Globals(object):
    """Everything a translation unit can refer to by name."""

    def __init__(self):
        self.consts = {}    # name -> (coq, type)
        self.fns = {}       # (impl or None, name) -> FnSig
        self.records = {}   # name -> dict(fields=[(fname,type)], prefix=str, ctor=str)
        self.enums = {}     # name -> dict(variants=[(vname, [(fname,type)] or None)])

    def copy_from(self, other):
        self.consts.update(other.consts)
        self.fns.update(other.fns)
        self.records.update(other.records)
        self.enums.update(other.enums)

    def is_global_name(self, n):
        if n in self.consts:
            return True
        for (_i, name) in self.fns:
            if name == n:
                return True
        return False


def type_from_string(s, G, where, generics=None, self_type=None):
    toks = tokenize(s, where)
    p = Parser(toks, where, Cfg([], []))
    ast = p.parse_type()
    if p.peek().k != 'eof':
        raise Rs2vError('%s: malformed type string %r' % (where, s))
    return resolve_type(ast, G, where, generics or {}, self_type)


_ITER_TRAITS = ('Iterator', 'IntoIterator', 'DoubleEndedIterator', 'ExactSizeIterator')


def _iter_item(bounds, G, where, generics, self_type):
    for b in bounds:
        if b.k == 'tpath' and b.segs[-1] in _ITER_TRAITS:
            for a in b.args:
                if a.k == 'assoc' and a.name == 'Item':
                    return resolve_type(a.ty, G, where, generics, self_type)
    return None


def resolve_type(ast, G, where, generics, self_type=None):
    k = ast.k
    if k == 'tuple':
        if not ast.elems:
            return 'unit'
        return ('tuple', tuple(resolve_type(x, G, where, generics, self_type) for x in ast.elems))
    if k == 'slice':
        return ('list', resolve_type(ast.elem, G, where, generics, self_type))
    if k == 'never':
        return 'never'
    if k == 'impl':
        it = _iter_item(ast.bounds, G, where, generics, self_type)
        if it is not None:
            return ('list', it)
        return ('opaque', 'impl ' + '+'.join(b.segs[-1] if b.k == 'tpath' else '?' for b in ast.bounds))
    if k == 'opaque':
        return ('opaque', ast.text)
    if k == 'tpath':
        name = ast.segs[-1]
        args = [a for a in ast.args if a.k != 'assoc']
        if len(ast.segs) == 1 or ast.segs[-2] in ('core', 'std', 'primitive'):
            if name in INT:
                return name
            if name == 'bool':
                return 'bool'
            if name in ('str', 'String'):
                return 'str'
        if name == 'Option' and len(args) == 1:
            return ('option', resolve_type(args[0], G, where, generics, self_type))
        if name == 'Result' and len(args) >= 1:
            return ('result', resolve_type(args[0], G, where, generics, self_type))
        if name in ('Vec', 'VecDeque') and len(args) == 1:
            return ('list', resolve_type(args[0], G, where, generics, self_type))
        if name in ('Box', 'Arc', 'Rc') and len(args) == 1:
            return resolve_type(args[0], G, where, generics, self_type)
        if name == 'Self' and self_type is not None:
            return self_type
        if len(ast.segs) == 1 and name in generics:
            it = _iter_item(generics[name], G, where, generics, self_type)
            if it is not None:
                return ('list', it)
            return ('opaque', 'generic ' + name)
        if name in G.records:
            return ('record', name)
        if name in G.enums:
            return ('enum', name)
        return ('opaque', '::'.join(ast.segs))
    raise Rs2vError('%s: unsupported type syntax (%s)' % (where, k))


# ---------------------------------------------------------------------------------------------
# IR
# ---------------------------------------------------------------------------------------------

class I(object):
    """IR node (Gallina-shaped term, plus Checked/Seq/Panic that only matter for `_safe`)."""

    def __init__(self, k, **kw):
        self.k = k
        self.__dict__.update(kw)


def Var(n):
    return I('var', name=n)


def Int(n):
    return I('int', value=n)


def Bool(b):
    return I('bool', value=b)


UNIT = I('unit')


def App(f, args, safe=None):
    return I('app', f=f, args=list(args), safe=safe)


def Bin(op, a, b, ty, checked=True):
    return I('bin', op=op, a=a, b=b, ty=ty, checked=checked)


def Let(pat, e, body):
    return I('let', pat=pat, e=e, body=body)


def If(c, a, b):
    return I('if', c=c, a=a, b=b)


def Match(s, arms):
    return I('match', s=s, arms=arms)


def Tuple(es):
    if len(es) == 1:
        return es[0]
    return I('tuple', es=list(es))


def PVar(n):
    return I('pvar', name=n)


PWILD = I('pwild')


def PTuple(ps):
    if len(ps) == 1:
        return ps[0]
    return I('ptuple', ps=list(ps))


def PCtor(c, ps=()):
    return I('pctor', c=c, ps=list(ps))


def Lam(pats, body):
    return I('lam', pats=list(pats), body=body)


COQ_RESERVED = set('''as at cofix else end exists exists2 fix for forall fun if IF in let match mod Prop return Set
then Type using where with by Definition Lemma Theorem Proof Qed tt true false negb implb andb orb xorb fst snd
Some None ROk RErr is_ok pow2 in_u cast_u sat_sub sat_add sat_mul chk_sub chk_add chk_mul wrap_add wrap_sub div_ceil
opt_bind in_i cast_i unwrap_or unwrap_z is_some is_none ok_or res_ok is_err then_some try_into_u try_into_i chk_shr
chk_shl chk_div abs_diff wrap_mul filter_map sum_z sum_safe sum_safe_from fold_safe option_map Z N nat list bool
unit string option rres length map filter app rev pair prod'''.split())


# ---------------------------------------------------------------------------------------------
# 5. Lowering AST -> IR
# ---------------------------------------------------------------------------------------------

def ast_children(n):
    for key, v in n.__dict__.items():
        if key in ('k', 'line', 'ty', 'ret', 'targs', 'toks'):
            continue
        for x in _flat_nodes(v):
            yield x


def _flat_nodes(v):
    if isinstance(v, A):
        yield v
    elif isinstance(v, (list, tuple)):
        for y in v:
            for z in _flat_nodes(y):
                yield z


def has_escape(n):
    """Does evaluating n possibly leave n other than by producing its value (return / `?`)?"""
    if n is None:
        return False
    c = getattr(n, '_esc', None)
    if c is not None:
        return c
    if n.k in ('return', 'try'):
        r = True
    elif n.k == 'closure':
        r = False
    else:
        r = any(has_escape(x) for x in ast_children(n))
    n._esc = r
    return r


def pattern_names(p, out=None):
    out = [] if out is None else out
    if p.k == 'pbind':
        out.append(p.name)
    elif p.k in ('ptuple', 'ptstruct'):
        for x in p.elems:
            pattern_names(x, out)
    elif p.k == 'pstruct':
        for _n, x in p.fields:
            pattern_names(x, out)
    elif p.k == 'por':
        pattern_names(p.alts[0], out)
    return out


def assigned_vars(n, declared=frozenset(), out=None, fm=None):
    """Names assigned (`=`, `+=`, ...) inside n that are not declared by a `let` inside n."""
    out = [] if out is None else out
    if n is None:
        return out
    if n.k == 'block':
        decl = set(declared)
        for s in n.stmts:
            if s.k == 'let':
                if s.init is not None:
                    assigned_vars(s.init, frozenset(decl), out, fm)
                if s.els is not None:
                    assigned_vars(s.els, frozenset(decl), out, fm)
                decl.update(pattern_names(s.pat))
            else:
                assigned_vars(s.e, frozenset(decl), out, fm)
        if n.tail is not None:
            assigned_vars(n.tail, frozenset(decl), out, fm)
        return out
    if n.k == 'assign':
        tgt = n.l
        while tgt.k in ('paren',) or (tgt.k == 'unary' and tgt.op == '*'):
            tgt = tgt.e
        if tgt.k == 'path' and len(tgt.segs) == 1:
            if tgt.segs[0] not in declared and tgt.segs[0] not in out:
                out.append(tgt.segs[0])
        assigned_vars(n.r, declared, out, fm)
        return out
    if n.k == 'closure':
        return out
    if n.k == 'call' and fm and n.f.k == 'path' and len(n.f.segs) == 1 and n.f.segs[0] in fm \
            and n.f.segs[0] not in declared:
        for c in fm[n.f.segs[0]]:
            if c not in declared and c not in out:
                out.append(c)
    if n.k in ('iflet',):
        assigned_vars(n.scrut, declared, out, fm)
        d2 = frozenset(set(declared) | set(pattern_names(n.pat)))
        assigned_vars(n.then, d2, out, fm)
        assigned_vars(n.els, declared, out, fm)
        return out
    if n.k == 'match':
        assigned_vars(n.scrut, declared, out, fm)
        for pat, guard, body in n.arms:
            d2 = frozenset(set(declared) | set(pattern_names(pat)))
            assigned_vars(guard, d2, out, fm)
            assigned_vars(body, d2, out, fm)
        return out
    if n.k == 'for':
        assigned_vars(n.iter, declared, out, fm)
        d2 = frozenset(set(declared) | set(pattern_names(n.pat)))
        assigned_vars(n.body, d2, out, fm)
        return out
    for x in ast_children(n):
        assigned_vars(x, declared, out, fm)
    return out


LOG_MACROS = {'log_trace', 'log_debug', 'log_info', 'log_warn', 'log_error', 'log_gossip'}
ASSERT_MACROS = {'debug_assert', 'assert', 'debug_assert_eq', 'assert_eq', 'debug_assert_ne', 'assert_ne'}
PANIC_MACROS = {'unreachable', 'panic'}


class Ctx(object):
    def __init__(self, ret, kind):
        self.ret = ret          # declared/inferred return type
        self.kind = kind        # 'fn' | 'closure' | 'loop'
        self.on_return = None
        self.try_fail = None


class Lower(object):
    def __init__(self, G, cfg, where, idents, item_cfg=None, impl=None):
        self.G = G
        self.cfg = cfg
        self.where = where
        self.idents = set(idents)
        self.item_cfg = item_cfg or {}
        self.impl = impl
        self.counter = {}
        self.ctx = None
        self.self_mode = None
        self.self_fields = {}
        self.fnmut_caps = {}
        self.fnmut_rust = {}

    # -- utilities
    def err(self, node, msg):
        line = getattr(node, 'line', 0) if node is not None else 0
        raise Rs2vError('%s:%s: %s' % (self.where, line, msg))

    def wh(self, node):
        return '%s:%s' % (self.where, getattr(node, 'line', 0))

    def av(self, n, declared=frozenset()):
        return assigned_vars(n, declared, None, self.fnmut_rust)

    def fresh(self, base):
        while True:
            n = self.counter.get(base, 0) + 1
            self.counter[base] = n
            name = '%s_%d' % (base, n)
            if name not in self.idents:
                self.idents.add(name)
                return name

    def coq_name(self, name):
        if name in COQ_RESERVED or name.endswith('_safe'):
            return name + '_'
        return name

    def bind(self, env, name, ty, guard=None):
        """Bind Rust variable `name`.  guard = names whose outer bindings must not be captured
        (set when the continuation of an inner block is inlined after it)."""
        coq = self.coq_name(name)
        if name == '_':
            return env, '_'
        if guard is not None and (name in guard or self.G.is_global_name(name)):
            coq = self.fresh(name)
        env = dict(env)
        env[name] = (coq, ty)
        return env, coq

    # -- patterns
    def bind_pattern(self, p, ty, env, guard=None):
        k = p.k
        if k == 'pwild':
            return PWILD, env
        if k == 'pbind':
            env, coq = self.bind(env, p.name, ty, guard)
            return (PWILD if coq == '_' else PVar(coq)), env
        if k == 'ptuple':
            tys = [TV() for _ in p.elems]
            unify(ty, ('tuple', tuple(tys)), self.wh(p))
            pats = []
            for sub, t in zip(p.elems, tys):
                pi, env = self.bind_pattern(sub, t, env, guard)
                pats.append(pi)
            return I('ptuple', ps=pats), env
        if k == 'pbool':
            unify(ty, 'bool', self.wh(p))
            return I('pbool', value=p.value), env
        if k == 'pint':
            unify(ty, TV('int'), self.wh(p))
            return I('pint', value=p.value), env
        if k == 'ptstruct':
            name = p.segs[-1]
            if name == 'Some' and len(p.elems) == 1:
                inner = TV()
                unify(ty, ('option', inner), self.wh(p))
                pi, env = self.bind_pattern(p.elems[0], inner, env, guard)
                return PCtor('Some', [pi]), env
            if name == 'Ok' and len(p.elems) == 1:
                inner = TV()
                unify(ty, ('result', inner), self.wh(p))
                pi, env = self.bind_pattern(p.elems[0], inner, env, guard)
                return PCtor('ROk', [pi]), env
            if name == 'Err' and len(p.elems) == 1:
                unify(ty, ('result', TV()), self.wh(p))
                sub = p.elems[0]
                if sub.k == 'pbind':
                    env, coq = self.bind(env, sub.name, 'str', guard)
                    return PCtor('RErr', [PVar(coq)]), env
                if sub.k == 'pwild' or (sub.k == 'ptuple' and not sub.elems):
                    return PCtor('RErr', [PWILD]), env
                if sub.k == 'ppath':
                    self.err(p, 'matching on a specific error variant `Err(%s)` is not supported (errors are '
                                'strings; compare explicitly)' % '::'.join(sub.segs))
                self.err(p, 'unsupported pattern inside Err(..)')
            self.err(p, 'unsupported tuple-struct pattern `%s(..)`' % '::'.join(p.segs))
        if k == 'ppath':
            name = p.segs[-1]
            if name == 'None' and len(p.segs) == 1:
                unify(ty, ('option', TV()), self.wh(p))
                return PCtor('None'), env
            if len(p.segs) >= 2 and p.segs[-2] in self.G.enums:
                en = p.segs[-2]
                variants = dict(self.G.enums[en]['variants'])
                if name not in variants:
                    self.err(p, 'enum %s has no declared variant %s' % (en, name))
                if variants[name]:
                    self.err(p, 'variant %s::%s carries fields; use a struct pattern' % (en, name))
                unify(ty, ('enum', en), self.wh(p))
                return PCtor('%s_%s' % (en, name)), env
            self.err(p, 'unsupported path pattern `%s` (enum not declared in config "enums")' % '::'.join(p.segs))
        if k == 'pstruct':
            name = p.segs[-1]
            if len(p.segs) >= 2 and p.segs[-2] in self.G.enums:
                en = p.segs[-2]
                variants = dict(self.G.enums[en]['variants'])
                if name not in variants or not variants[name]:
                    self.err(p, 'enum %s has no declared struct-like variant %s' % (en, name))
                unify(ty, ('enum', en), self.wh(p))
                decl = variants[name]
                ctor = '%s_%s' % (en, name)
            elif name in self.G.records:
                unify(ty, ('record', name), self.wh(p))
                decl = self.G.records[name]['fields']
                ctor = self.G.records[name]['ctor']
            else:
                self.err(p, 'unsupported struct pattern `%s {..}` (type not declared in config)' % '::'.join(p.segs))
            given = dict(p.fields)
            for fname in given:
                if fname not in dict(decl):
                    self.err(p, 'pattern field `%s` is not a declared field of %s' % (fname, name))
            pats = []
            for fname, fty in decl:
                if fname in given:
                    pi, env = self.bind_pattern(given[fname], fty, env, guard)
                    pats.append(pi)
                elif p.rest:
                    pats.append(PWILD)
                else:
                    self.err(p, 'pattern for %s lacks field `%s` and has no `..`' % (name, fname))
            return PCtor(ctor, pats), env
        if k == 'por':
            names0 = sorted(pattern_names(p.alts[0]))
            alts = []
            env_out = env
            for idx, alt in enumerate(p.alts):
                if sorted(pattern_names(alt)) != names0:
                    self.err(p, 'alternatives of an or-pattern bind different names')
                pi, e2 = self.bind_pattern(alt, ty, env, guard if idx == 0 else None)
                if idx == 0:
                    env_out = e2
                else:
                    for nm in names0:
                        unify(e2[nm][1], env_out[nm][1], self.wh(p))
                        if e2[nm][0] != env_out[nm][0]:
                            self.err(p, 'or-pattern binder renaming conflict')
                alts.append(pi)
            return I('por', ps=alts), env_out
        self.err(p, 'unsupported pattern kind %s' % k)

    # -- pure (non-escaping) lowering helpers
    def pure(self, e, env):
        if has_escape(e):
            self.err(e, '`return`/`?` in a position where control flow cannot be translated '
                        '(operand of &&/||, closure passed to a method, guard, ...)')
        box = []

        def k(v, t):
            box.append(t)
            return v
        ir = self.lower(e, env, k)
        if len(box) != 1:
            self.err(e, 'internal: pure lowering saw %d continuations' % len(box))
        return ir, box[0]

    def lower_scoped(self, node, env, k, guard):
        if node.k == 'block':
            return self.lower_block(node, env, k, guard)
        return self.lower(node, env, k)

    # -- dispatcher
    def lower(self, e, env, k):
        m = getattr(self, 'lo_' + e.k, None)
        if m is None:
            self.err(e, 'unsupported expression kind `%s`' % e.k)
        return m(e, env, k)

    # -- simple expressions
    def lo_int(self, e, env, k):
        ty = e.suf if e.suf else TV('int')
        return k(Int(e.value), ty)

    def lo_bool(self, e, env, k):
        return k(Bool(e.value), 'bool')

    def lo_unit(self, e, env, k):
        return k(UNIT, 'unit')

    def lo_str(self, e, env, k):
        self.err(e, 'string literals are only supported inside dropped macros')

    def lo_paren(self, e, env, k):
        return self.lower(e.e, env, k)

    def lo_index(self, e, env, k):
        self.err(e, 'indexing (`a[i]`) is not supported')

    def lo_closure(self, e, env, k):
        self.err(e, 'closures are only supported when bound by `let` or passed to map/filter/and_then/...')

    def lo_path(self, e, env, k):
        segs = e.segs
        name = segs[-1]
        if len(segs) == 1:
            if name in env:
                coq, ty = env[name]
                return k(Var(coq), ty)
            if name == 'self':
                self.err(e, 'bare `self` is only supported when the config gives "self_record"')
            if name == 'None':
                return k(I('none'), ('option', TV()))
        if len(segs) >= 2 and segs[-2] in INT:
            w, signed = INT[segs[-2]]
            t = segs[-2]
            two = lambda n: Bin('^', Int(2), Int(n), t, checked=False)
            if name == 'MAX':
                return k(Bin('-', two(w - 1 if signed else w), Int(1), t, checked=False), t)
            if name == 'MIN':
                if signed:
                    return k(I('neg', a=two(w - 1)), t)
                return k(Int(0), t)
            if name == 'BITS':
                return k(Int(w), 'u32')
        if len(segs) >= 2 and segs[-2] in self.G.enums:
            en = segs[-2]
            variants = dict(self.G.enums[en]['variants'])
            if name not in variants:
                self.err(e, 'enum %s has no declared variant %s' % (en, name))
            if variants[name]:
                self.err(e, 'variant %s::%s carries fields' % (en, name))
            return k(Var('%s_%s' % (en, name)), ('enum', en))
        if name in self.G.consts:
            coq, ty = self.G.consts[name]
            return k(Var(coq), ty)
        self.err(e, 'unknown identifier `%s` (not a local, parameter, listed constant or declared enum variant)'
                 % '::'.join(segs))

    def lower_list(self, es, env, k):
        """Lower a list of expressions left to right; k receives ([ir], [type])."""
        def go(i, irs, tys):
            if i == len(es):
                return k(irs, tys)
            return self.lower(es[i], env, lambda v, t: go(i + 1, irs + [v], tys + [t]))
        return go(0, [], [])

    def lo_tuple(self, e, env, k):
        return self.lower_list(e.elems, env, lambda irs, tys: k(I('tuple', es=irs), ('tuple', tuple(tys))))

    def lo_unary(self, e, env, k):
        if e.op in ('&', '*'):
            return self.lower(e.e, env, k)
        if e.op == '!':
            def k2(v, t):
                tt = prune(t)
                if is_int(tt) or (isinstance(tt, TV) and tt.kind == 'int'):
                    self.err(e, 'bitwise `!` on integers is not supported')
                unify(t, 'bool', self.wh(e))
                return k(I('not', a=v), 'bool')
            return self.lower(e.e, env, k2)
        if e.op == '-':
            def k3(v, t):
                tt = prune(t)
                if v.k == 'int':
                    return k(Int(-v.value), t)
                if is_int(tt) and INT[tt][1]:
                    return k(I('neg', a=v, ty=t), t)
                self.err(e, 'unary minus on a non-literal / unsigned value is not supported')
            return self.lower(e.e, env, k3)
        self.err(e, 'unsupported unary operator %s' % e.op)

    def lo_binary(self, e, env, k):
        op = e.op
        if op in ('&&', '||'):
            def k2(a, ta):
                unify(ta, 'bool', self.wh(e))
                b, tb = self.pure(e.r, env)
                unify(tb, 'bool', self.wh(e))
                return k(Bin(op, a, b, 'bool'), 'bool')
            return self.lower(e.l, env, k2)

        def kl(a, ta):
            def kr(b, tb):
                if op in ('<<', '>>'):
                    return k(Bin(op, a, b, ta), ta)
                unify(ta, tb, self.wh(e))
                if op in ('==', '!=', '<', '<=', '>', '>='):
                    return k(Bin(op, a, b, ta), 'bool')
                return k(Bin(op, a, b, ta), ta)
            return self.lower(e.r, env, kr)
        return self.lower(e.l, env, kl)

    def lo_cast(self, e, env, k):
        dst = resolve_type(e.ty, self.G, self.wh(e), {}, None)
        if not is_int(dst):
            self.err(e, '`as %s`: only casts to integer types are supported' % show_type(dst))

        def k2(v, t):
            return k(I('cast', a=v, src=t, dst=dst, line=e.line), dst)
        return self.lower(e.e, env, k2)

    def assign_target(self, e, env):
        tgt = e.l
        while tgt.k == 'paren' or (tgt.k == 'unary' and tgt.op == '*'):
            tgt = tgt.e
        if tgt.k != 'path' or len(tgt.segs) != 1 or tgt.segs[0] not in env:
            self.err(e, 'assignment target must be a local variable (fields / out-parameters are not supported)')
        return tgt.segs[0]

    def lo_assign(self, e, env, k):
        name = self.assign_target(e, env)
        coq, ty = env[name]

        def k2(v, t):
            if e.op == '=':
                unify(ty, t, self.wh(e))
                val = v
            else:
                bop = e.op[:-1]
                if bop not in ('<<', '>>'):
                    unify(ty, t, self.wh(e))
                val = Bin(bop, Var(coq), v, ty)
            return Let(PVar(coq), val, k(UNIT, 'unit'))
        return self.lower(e.r, env, k2)

    def lo_field(self, e, env, k):
        base = e.e
        if base.k == 'path' and base.segs == ['self'] and self.self_mode == 'fields':
            if e.name not in self.self_fields:
                self.err(e, '`self.%s` is not listed in the config "self_fields"' % e.name)
            coq, ty = self.self_fields[e.name]
            return k(Var(coq), ty)

        def k2(v, t):
            tt = prune(t)
            if isinstance(tt, tuple) and tt[0] == 'record':
                rec = self.G.records[tt[1]]
                for fname, fty in rec['fields']:
                    if fname == e.name:
                        return k(App(rec['prefix'] + fname, [v]), fty)
                self.err(e, 'record %s has no declared field `%s`' % (tt[1], e.name))
            if isinstance(tt, tuple) and tt[0] == 'tuple' and e.name.isdigit():
                idx = int(e.name)
                n = len(tt[1])
                if idx >= n:
                    self.err(e, 'tuple index out of range')
                # (a, b, c) = ((a, b), c)
                cur = v
                for _ in range(n - 1 - idx):
                    cur = App('fst', [cur])
                if idx > 0:
                    cur = App('snd', [cur])
                return k(cur, tt[1][idx])
            self.err(e, 'field access `.%s` on a value of unsupported/unknown type %s' % (e.name, show_type(tt)))
        return self.lower(base, env, k2)

    def lo_struct(self, e, env, k):
        name = e.segs[-1]
        if name not in self.G.records:
            self.err(e, 'struct literal of `%s`, which is not declared in config "records"' % name)
        rec = self.G.records[name]
        decl = rec['fields']
        given = [n for n, _ in e.fields]
        if sorted(given) != sorted(n for n, _ in decl):
            self.err(e, 'struct literal %s {..}: fields %s differ from the declared record fields %s'
                     % (name, given, [n for n, _ in decl]))

        def k2(irs, tys):
            byname = {}
            for (fname, _), v, t in zip(e.fields, irs, tys):
                unify(t, dict(decl)[fname], self.wh(e))
                byname[fname] = v
            return k(App(rec['ctor'], [byname[n] for n, _ in decl]), ('record', name))
        return self.lower_list([v for _, v in e.fields], env, k2)

    def lo_return(self, e, env, k):
        if e.e is None:
            return self.ctx.on_return(UNIT, 'unit', e)
        return self.lower(e.e, env, lambda v, t: self.ctx.on_return(v, t, e))

    def lo_try(self, e, env, k):
        def k2(v, t):
            tt = prune(t)
            if isinstance(tt, TV):
                self.err(e, 'cannot infer the type of the operand of `?`')
            if tt[0] in ('option',):
                x = self.fresh('v')
                body = k(Var(x), tt[1])
                pat = PVar(x)
                if body.k == 'let' and body.e.k == 'var' and body.e.name == x:
                    pat = body.pat
                    body = body.body
                return Match(v, [(PCtor('Some', [pat]), body), (PCtor('None'), self.ctx.try_fail('option', None, e))])
            if tt[0] == 'result':
                x = self.fresh('v')
                er = self.fresh('err')
                body = k(Var(x), tt[1])
                pat = PVar(x)
                if body.k == 'let' and body.e.k == 'var' and body.e.name == x:
                    pat = body.pat
                    body = body.body
                return Match(v, [(PCtor('ROk', [pat]), body),
                                 (PCtor('RErr', [PVar(er)]), self.ctx.try_fail('result', Var(er), e))])
            self.err(e, '`?` on a value of type %s is not supported' % show_type(tt))
        return self.lower(e.e, env, k2)

    # -- macros
    def macro_args(self, e):
        """Split macro tokens at top-level commas and parse each piece as an expression (lazily)."""
        parts = [[]]
        depth = 0
        for t in e.toks:
            if t.k == 'p':
                if t.s in _OPEN:
                    depth += 1
                elif t.s in _CLOSE:
                    depth -= 1
                elif t.s == ',' and depth == 0:
                    parts.append([])
                    continue
            parts[-1].append(t)
        if parts and not parts[-1]:
            parts.pop()
        return parts

    def parse_tokens_expr(self, toks, e):
        if not toks:
            self.err(e, 'empty macro argument')
        eof = Tok('eof', '<eof>', toks[-1].end, toks[-1].end, toks[-1].line)
        return Parser(list(toks) + [eof], self.where, self.cfg).parse_whole_expr()

    def lo_macro(self, e, env, k):
        name = e.name
        if name in LOG_MACROS:
            return k(UNIT, 'unit')
        if name in PANIC_MACROS:
            tv = TV()
            return k(I('panic', ty=tv), tv)
        if name in ASSERT_MACROS:
            parts = self.macro_args(e)
            if name in ('debug_assert', 'assert'):
                if len(parts) < 1:
                    self.err(e, '%s! without condition' % name)
                c, tc = self.pure(self.parse_tokens_expr(parts[0], e), env)
                unify(tc, 'bool', self.wh(e))
            else:
                if len(parts) < 2:
                    self.err(e, '%s! needs two arguments' % name)
                a, ta = self.pure(self.parse_tokens_expr(parts[0], e), env)
                b, tb = self.pure(self.parse_tokens_expr(parts[1], e), env)
                unify(ta, tb, self.wh(e))
                c = Bin('!=' if name.endswith('_ne') else '==', a, b, ta)
            return k(I('checked', c=c, body=UNIT), 'unit')
        if name == 'matches':
            parts = self.macro_args(e)
            if len(parts) != 2:
                self.err(e, 'matches! with a guard is not supported')
            s, ts = self.pure(self.parse_tokens_expr(parts[0], e), env)
            eof = Tok('eof', '<eof>', 0, 0, e.line)
            pat = Parser(list(parts[1]) + [eof], self.where, self.cfg).parse_pattern()
            pi, _env = self.bind_pattern(pat, ts, env)
            return k(Match(s, [(pi, Bool(True)), (PWILD, Bool(False))]), 'bool')
        self.err(e, 'unsupported macro `%s!`' % name)

    # -- blocks and statements
    def lo_block(self, e, env, k):
        if not has_escape(e):
            outer = self.av(e)
            outer = [n for n in outer if n in env]
            if not outer:
                v, t = self.pure_block(e, env)
                return k(v, t)
        return self.lower_block(e, env, k, guard=set(env.keys()))

    def pure_block(self, b, env):
        box = []

        def k(v, t):
            box.append(t)
            return v
        ir = self.lower_block(b, env, k, None)
        if len(box) != 1:
            self.err(b, 'internal: pure block saw %d continuations' % len(box))
        return ir, box[0]

    def lower_block(self, b, env, k, guard):
        return self.lower_stmts(b.stmts, 0, b.tail, env, k, guard)

    def lower_stmts(self, stmts, i, tail, env, k, guard):
        if i == len(stmts):
            if tail is None:
                return k(UNIT, 'unit')
            return self.lower(tail, env, k)
        s = stmts[i]

        def rest(env2):
            return self.lower_stmts(stmts, i + 1, tail, env2, k, guard)

        if s.k == 'let':
            if s.init is None:
                # `let x;` / `let x: T;` -- declared, assigned later
                names = pattern_names(s.pat)
                if s.pat.k != 'pbind':
                    self.err(s, '`let` without initializer must bind a single variable')
                ty = resolve_type(s.ty, self.G, self.wh(s), {}, None) if s.ty is not None else TV()
                env2, _coq = self.bind(env, names[0], ty, guard)
                return rest(env2)
            if s.init.k == 'closure':
                if s.pat.k != 'pbind':
                    self.err(s, 'closure must be bound to a simple name')
                return self.lower_letfun(s, env, rest, guard)

            def k2(v, t):
                if s.ty is not None:
                    unify(t, resolve_type(s.ty, self.G, self.wh(s), {}, None), self.wh(s))
                if s.els is not None:
                    pi, env2 = self.bind_pattern(s.pat, t, env, guard)
                    if not has_escape(s.els):
                        self.err(s, '`let ... else` block must diverge with `return`')
                    els = self.lower_block(s.els, env, lambda v_, t_: self.err(s, 'let-else block does not diverge'),
                                           guard)
                    return Match(v, [(pi, rest(env2)), (PWILD, els)])
                pi, env2 = self.bind_pattern(s.pat, t, env, guard)
                return Let(pi, v, rest(env2))
            return self.lower(s.init, env, k2)
        # expression statement
        e = s.e

        def k3(v, t):
            r = rest(env)
            if v.k == 'unit':
                return r
            return I('seq', s=v, rest=r)
        return self.lower(e, env, k3)

    # -- closures bound by let
    def lower_lambda(self, c, ptypes, env, what):
        """Closure passed to a combinator.  Returns (pats, body_ir, body_type)."""
        if c.k != 'closure':
            self.err(c, '%s expects a closure literal' % what)
        if len(c.params) != len(ptypes):
            self.err(c, '%s: closure takes %d parameters, expected %d' % (what, len(c.params), len(ptypes)))
        if has_escape(c.body):
            self.err(c, '`return`/`?` inside a closure passed to %s is not supported' % what)
        captured = [n for n in self.av(c.body) if n in env and n not in
                    [x for p, _ in c.params for x in pattern_names(p)]]
        if captured:
            self.err(c, 'closure assigns to captured variable(s) %s (FnMut closures are not supported)' % captured)
        env2 = env
        pats = []
        for (pat, ty), pt in zip(c.params, ptypes):
            if ty is not None:
                unify(pt, resolve_type(ty, self.G, self.wh(c), {}, None), self.wh(c))
            pi, env2 = self.bind_pattern(pat, pt, env2)
            pats.append(pi)
        saved = self.ctx
        self.ctx = self.closure_ctx(TV(), c)
        try:
            body, bt = self.pure(c.body, env2)
        finally:
            self.ctx = saved
        if c.ret is not None:
            unify(bt, resolve_type(c.ret, self.G, self.wh(c), {}, None), self.wh(c))
        return pats, body, bt

    def closure_ctx(self, ret, node):
        ctx = Ctx(ret, 'closure')

        def on_return(v, t, n):
            unify(t, ctx.ret, self.wh(n))
            return v

        def try_fail(kind, ev, n):
            rt = prune(ctx.ret)
            if kind == 'option':
                unify(ctx.ret, ('option', TV()), self.wh(n))
                return I('none')
            unify(ctx.ret, ('result', TV()), self.wh(n))
            return I('err', e=ev)
        ctx.on_return = on_return
        ctx.try_fail = try_fail
        return ctx

    def lower_letfun(self, s, env, rest, guard):
        c = s.init
        name = s.pat.name
        pnames = [x for p, _ in c.params for x in pattern_names(p)]
        captured = [n for n in self.av(c.body) if n in env and n not in pnames]
        if captured and not self.item_cfg.get('allow_fnmut'):
            self.err(c, 'closure `%s` assigns to captured variable(s) %s (FnMut closure); set "allow_fnmut": true on '
                        'the item to translate it in state-passing style' % (name, captured))
        if captured and has_escape(c.body):
            self.err(c, 'FnMut closure `%s` containing `return`/`?` is not supported' % name)
        ptypes = []
        env2 = env
        pats = [PVar(env[n][0]) for n in captured]
        for pat, ty in c.params:
            pt = resolve_type(ty, self.G, self.wh(c), {}, None) if ty is not None else TV()
            ptypes.append(pt)
            pi, env2 = self.bind_pattern(pat, pt, env2)
            pats.append(pi)
        ret = resolve_type(c.ret, self.G, self.wh(c), {}, None) if c.ret is not None else TV()
        saved = self.ctx
        self.ctx = self.closure_ctx(ret, c)
        try:
            if captured:
                unify(ret, 'unit', self.wh(c))

                def kfm(v, t):
                    unify(t, 'unit', self.wh(c))
                    st = Tuple([Var(env2[n][0]) for n in captured])
                    return st if v.k == 'unit' else I('seq', s=v, rest=st)
                body = self.lower_scoped(c.body, env2, kfm, set(env2.keys()))
            else:
                body = self.lower_scoped(c.body, env2, lambda v, t: self.ctx.on_return(v, t, c), None)
        finally:
            self.ctx = saved
        env3, coq = self.bind(env, name, ('fn', tuple(ptypes), ret), guard)
        if captured:
            self.fnmut_caps[coq] = list(captured)
            self.fnmut_rust[name] = list(captured)
        return I('letfun', name=coq, pats=pats, body=body, rest=rest(env3))

    # -- branching constructs
    def branching(self, e, env, k, branches, build):
        """branches: [(env_i, node_i or None)]; build([ir_i]) -> IR.  Implements the three regimes:
        pure value, tuple of assigned variables, or continuation duplication when a branch escapes."""
        esc = any(has_escape(b) for _, b in branches)
        assigned = []
        for _, b in branches:
            for n in self.av(b):
                if n in env and n not in assigned:
                    assigned.append(n)
        if not esc and not assigned:
            shared = TV()
            irs = []
            for env_b, b in branches:
                if b is None:
                    unify(shared, 'unit', self.wh(e))
                    irs.append(UNIT)
                    continue
                if b.k == 'block':
                    v, t = self.pure_block(b, env_b)
                else:
                    v, t = self.pure(b, env_b)
                unify(shared, t, self.wh(b))
                irs.append(v)
            return k(build(irs), shared)
        if not esc:
            state = Tuple([Var(env[n][0]) for n in assigned])
            spat = PTuple([PVar(env[n][0]) for n in assigned])
            irs = []
            for env_b, b in branches:
                if b is None:
                    irs.append(state)
                    continue

                def kb(v, t, b=b, env_b=env_b):
                    tt = prune(t)
                    if not (tt == 'unit' or isinstance(tt, TV)):
                        self.err(b, 'a branch both yields a value and assigns outer variables %s' % assigned)
                    st = Tuple([Var(env_b[n][0]) for n in assigned])
                    if v.k != 'unit':
                        return I('seq', s=v, rest=st)
                    return st
                irs.append(self.lower_scoped(b, env_b, kb, set(env_b.keys())))
            return Let(spat, build(irs), k(UNIT, 'unit'))
        shared = TV()

        def kw(v, t):
            unify(shared, t, self.wh(e))
            return k(v, shared)
        irs = []
        for env_b, b in branches:
            if b is None:
                irs.append(kw(UNIT, 'unit'))
            else:
                irs.append(self.lower_scoped(b, env_b, kw, set(env_b.keys())))
        return build(irs)

    def lo_if(self, e, env, k):
        def kc(c, tc):
            unify(tc, 'bool', self.wh(e))
            return self.branching(e, env, k, [(env, e.then), (env, e.els)], lambda irs: If(c, irs[0], irs[1]))
        return self.lower(e.cond, env, kc)

    def lo_iflet(self, e, env, k):
        def ks(s, ts):
            # when a branch escapes, the continuation is inlined into the arms: pattern binders must
            # not capture outer variables of the same name there
            guard = set(env.keys()) if (has_escape(e.then) or has_escape(e.els)) else None
            pi, env_then = self.bind_pattern(e.pat, ts, env, guard)
            return self.branching(e, env, k, [(env_then, e.then), (env, e.els)],
                                  lambda irs: Match(s, [(pi, irs[0]), (PWILD, irs[1])]))
        return self.lower(e.scrut, env, ks)

    def lo_match(self, e, env, k):
        def ks(s, ts):
            arms = []
            any_guard = False
            pguard = set(env.keys()) if any(has_escape(b) for _p, _g, b in e.arms) else None
            for pat, guard, body in e.arms:
                pi, env_a = self.bind_pattern(pat, ts, env, pguard)
                g = None
                if guard is not None:
                    any_guard = True
                    g, tg = self.pure(guard, env_a)
                    unify(tg, 'bool', self.wh(guard))
                arms.append((pi, g, env_a, body))
            if any_guard and s.k != 'var':
                m = self.fresh('m')
                s_use = Var(m)
                wrap = lambda ir: Let(PVar(m), s, ir)
            else:
                s_use = s
                wrap = lambda ir: ir

            def build(irs):
                if not any_guard:
                    return Match(s_use, [(a[0], ir) for a, ir in zip(arms, irs)])

                def chain(i):
                    # maximal run of unguarded arms, then (optionally) one guarded arm whose failure
                    # falls through to the translation of the remaining arms
                    run = []
                    j = i
                    while j < len(arms) and arms[j][1] is None:
                        run.append((arms[j][0], irs[j]))
                        j += 1
                    if j == len(arms):
                        if not run:
                            self.err(e, 'last match arm has a guard (non-exhaustive match)')
                        if len(run) == 1 and run[0][0].k == 'pwild':
                            return run[0][1]
                        return Match(s_use, run)
                    pi, g, _env, _b = arms[j]
                    if j + 1 >= len(arms):
                        self.err(e, 'last match arm has a guard (non-exhaustive match)')
                    nxt = chain(j + 1)
                    run.append((pi, If(g, irs[j], nxt)))
                    if pi.k not in ('pwild', 'pvar'):
                        run.append((PWILD, nxt))
                    return Match(s_use, run)
                return chain(0)
            res = self.branching(e, env, k, [(a[2], a[3]) for a in arms], build)
            return wrap(res)
        return self.lower(e.scrut, env, ks)

    # -- for loops with accumulators
    def lo_for(self, e, env, k):
        state = [n for n in self.av(e.body, frozenset(pattern_names(e.pat))) if n in env]
        esc = has_escape(e.body)
        if not state:
            self.err(e, '`for` loop that assigns no outer variable (no accumulator) is not supported')

        def kl(l, tl):
            tt = prune(tl)
            if not (isinstance(tt, tuple) and tt[0] == 'list'):
                self.err(e, '`for` over a non-list value of type %s' % show_type(tt))
            spat = PTuple([PVar(env[n][0]) for n in state])
            init = Tuple([Var(env[n][0]) for n in state])
            xpat, env_b = self.bind_pattern(e.pat, tt[1], env)
            if not esc:
                def kb(v, t):
                    st = Tuple([Var(env_b[n][0]) for n in state])
                    return st if v.k == 'unit' else I('seq', s=v, rest=st)
                body = self.lower_block(e.body, env_b, kb, set(env_b.keys()))
                fold = I('lfold', spat=spat, xpat=xpat, body=body, l=l, init=init)
                return Let(spat, fold, k(UNIT, 'unit'))
            # early exit through `?` / `return None|Err(..)`: the fold state is option/rres of the state
            rt = prune(self.ctx.ret)
            if not (isinstance(rt, tuple) and rt[0] in ('option', 'result')):
                self.err(e, '`return`/`?` inside a `for` loop needs an Option/Result-returning function')
            mode = rt[0]
            saved = self.ctx
            lctx = Ctx(saved.ret, 'loop')

            def on_return(v, t, n):
                unify(t, saved.ret, self.wh(n))
                if v.k in ('none', 'err'):
                    return v
                self.err(n, '`return` of a non-failure value inside a `for` loop is not supported')

            def try_fail(kind, ev, n):
                if kind != mode:
                    self.err(n, '`?` kind does not match the function return type')
                return I('none') if mode == 'option' else I('err', e=ev)
            lctx.on_return = on_return
            lctx.try_fail = try_fail
            wrap_ok = (lambda x: I('some', e=x)) if mode == 'option' else (lambda x: I('ok', e=x))
            ok_ctor = 'Some' if mode == 'option' else 'ROk'
            self.ctx = lctx
            try:
                def kb2(v, t):
                    st = wrap_ok(Tuple([Var(env_b[n][0]) for n in state]))
                    return st if v.k == 'unit' else I('seq', s=v, rest=st)
                body = self.lower_block(e.body, env_b, kb2, set(env_b.keys()))
            finally:
                self.ctx = saved
            acc = self.fresh('st')
            er = self.fresh('err')
            if mode == 'option':
                fail_arm = (PCtor('None'), I('none'))
                fail_out = (PCtor('None'), saved.try_fail('option', None, e))
            else:
                fail_arm = (PCtor('RErr', [PVar(er)]), I('err', e=Var(er)))
                fail_out = (PCtor('RErr', [PVar(er)]), saved.try_fail('result', Var(er), e))
            step = Match(Var(acc), [(PCtor(ok_ctor, [spat]), body), fail_arm])
            fold = I('lfold', spat=PVar(acc), xpat=xpat, body=step, l=l, init=wrap_ok(init))
            return Match(fold, [(PCtor(ok_ctor, [spat]), k(UNIT, 'unit')), fail_out])
        return self.lower_iter(e.iter, env, kl)

    def lower_iter(self, it, env, k):
        """Iterable position of `for`: a list value, `&list`, `list.iter()`, `.rev()`..."""
        return self.lower(it, env, k)

    # -- calls
    def call_sig(self, sig, recv, args_ir, args_ty, env, node):
        """Build the application of a translated function from Rust-order arguments."""
        if len(args_ir) != len(sig.rust_params):
            self.err(node, 'call of `%s` with %d arguments, its definition has %d'
                     % (sig.name, len(args_ir), len(sig.rust_params)))
        out = []
        if sig.self_mode == 'record':
            if recv is None:
                self.err(node, 'method `%s` called without receiver' % sig.name)
            unify(recv[1], sig.self_type, self.wh(node))
            out.append(recv[0])
        elif sig.self_mode == 'fields':
            self.err(node, 'method `%s` is translated with flattened self fields and cannot be called from '
                           'translated code' % sig.name)
        for (pname, pty, dropped), v, t in zip(sig.rust_params, args_ir, args_ty):
            if dropped:
                continue
            unify(t, pty, self.wh(node) + ' (argument `%s` of %s)' % (pname, sig.name))
            out.append(v)
        for xname, xty in sig.extras:
            if xname not in env:
                self.err(node, 'callee `%s` has extra parameter `%s` (config "extra_params"); the caller must have a '
                               'variable of that name in scope' % (sig.name, xname))
            unify(env[xname][1], xty, self.wh(node))
            out.append(Var(env[xname][0]))
        return App(sig.coq, out, safe=sig.coq + '_safe'), sig.ret

    def lower_args_for_sig(self, sig, args, env, k):
        """Lower call arguments, but do not even look at arguments in dropped positions."""
        if len(args) != len(sig.rust_params):
            self.err(args[0] if args else None, 'call of `%s` with %d arguments, its definition has %d'
                     % (sig.name, len(args), len(sig.rust_params)))
        keep = [i for i, p in enumerate(sig.rust_params) if not p[2]]

        def k2(irs, tys):
            full_ir = [UNIT] * len(args)
            full_ty = ['unit'] * len(args)
            for i, v, t in zip(keep, irs, tys):
                full_ir[i] = v
                full_ty[i] = t
            return k(full_ir, full_ty)
        return self.lower_list([args[i] for i in keep], env, k2)

    def lo_call(self, e, env, k):
        f = e.f
        if f.k != 'path':
            self.err(e, 'call of a non-path expression is not supported')
        segs = f.segs
        name = segs[-1]
        wh = self.wh(e)
        if len(segs) == 1 and name in env:
            coq, ty = env[name]
            ty = prune(ty)
            if not (isinstance(ty, tuple) and ty[0] == 'fn'):
                self.err(e, '`%s` is not a closure' % name)
            if len(ty[1]) != len(e.args):
                self.err(e, 'closure `%s` called with wrong number of arguments' % name)

            def kc(irs, tys):
                for t, pt in zip(tys, ty[1]):
                    unify(t, pt, wh)
                caps = self.fnmut_caps.get(coq)
                if caps:
                    # FnMut closure in state-passing style: the captured variables go in and come out
                    for n in caps:
                        if n not in env:
                            self.err(e, 'captured variable `%s` of closure `%s` is not in scope at the call' % (n, name))
                    st_in = [Var(env[n][0]) for n in caps]
                    st_pat = PTuple([PVar(env[n][0]) for n in caps])
                    return Let(st_pat, I('applocal', name=coq, args=st_in + irs), k(UNIT, 'unit'))
                return k(I('applocal', name=coq, args=irs), ty[2])
            return self.lower_list(e.args, env, kc)
        if len(segs) == 1 and name in ('Some', 'Ok') and len(e.args) == 1:
            def ks(v, t):
                if name == 'Some':
                    return k(I('some', e=v), ('option', t))
                return k(I('ok', e=v), ('result', t))
            return self.lower(e.args[0], env, ks)
        if len(segs) == 1 and name == 'Err' and len(e.args) == 1:
            a = e.args[0]
            while a.k == 'paren':
                a = a.e
            cands = [a]
            if a.k == 'tuple':
                cands = [x for x in a.elems if x.k == 'path' and len(x.segs) >= 2]
                if len(cands) != 1:
                    self.err(e, 'Err((..)) tuple must contain exactly one enum-variant path')
            a = cands[0]
            if a.k == 'unit':
                return k(I('err', e=I('str', value='()')), ('result', TV()))
            if a.k == 'path' and len(a.segs) >= 2 and a.segs[-1][:1].isupper():
                return k(I('err', e=I('str', value=a.segs[-1])), ('result', TV()))
            if a.k == 'path' and len(a.segs) == 1 and a.segs[0] in env and prune(env[a.segs[0]][1]) == 'str':
                return k(I('err', e=Var(env[a.segs[0]][0])), ('result', TV()))
            self.err(e, 'Err(..) argument must be `()`, an enum variant path or an error variable')
        if len(segs) >= 2 and segs[-2] == 'cmp' and name in ('min', 'max') and len(e.args) == 2:
            def km(irs, tys):
                unify(tys[0], tys[1], wh)
                return k(App('Z.' + name, irs), tys[0])
            return self.lower_list(e.args, env, km)
        if len(segs) == 2 and segs[0] in INT and name == 'from' and len(e.args) == 1:
            return self.lower(e.args[0], env,
                              lambda v, t: k(I('widen', a=v, src=t, dst=segs[0], line=e.line), segs[0]))
        if len(segs) == 2 and segs[0] in INT and name == 'try_from' and len(e.args) == 1:
            return self.lower(e.args[0], env,
                              lambda v, t: k(I('tryinto', a=v, src=t, dst=segs[0], line=e.line), ('tryres', segs[0])))
        if len(segs) == 2 and segs[0] in INT and name in ('min', 'max') and len(e.args) == 2:
            def km2(irs, tys):
                unify(tys[0], segs[0], wh)
                unify(tys[1], segs[0], wh)
                return k(App('Z.' + name, irs), segs[0])
            return self.lower_list(e.args, env, km2)
        # translated functions
        sig = None
        if len(segs) >= 2 and (segs[-2], name) in self.G.fns:
            sig = self.G.fns[(segs[-2], name)]
        elif len(segs) >= 2 and segs[-2] == 'Self' and (self.impl, name) in self.G.fns:
            sig = self.G.fns[(self.impl, name)]
        elif (None, name) in self.G.fns and (len(segs) == 1 or not segs[-2][:1].isupper()):
            sig = self.G.fns[(None, name)]
        if sig is not None:
            if sig.self_mode is not None:
                self.err(e, 'path call of method `%s` is not supported' % name)

            def kf(irs, tys):
                v, t = self.call_sig(sig, None, irs, tys, env, e)
                return k(v, t)
            return self.lower_args_for_sig(sig, e.args, env, kf)
        self.err(e, 'call of unknown function `%s` (not in this config nor in "import_configs")' % '::'.join(segs))

    def lo_mcall(self, e, env, k):
        name = e.name
        wh = self.wh(e)
        # erased reference noise
        if name in ('clone', 'to_owned', 'borrow', 'as_ref', 'as_mut', 'deref', 'copied', 'cloned', 'iter',
                    'into_iter', 'iter_mut', 'by_ref') and not e.args:
            return self.lower(e.recv, env, k)

        def kr(r, tr):
            tt = prune(tr)
            nargs = len(e.args)

            def with_args(n, cont):
                if nargs != n:
                    self.err(e, 'method `%s` expects %d argument(s)' % (name, n))
                return self.lower_list(e.args, env, cont)
            # ----- integers
            if is_int(tt) or (isinstance(tt, TV) and tt.kind == 'int'):
                if isinstance(tt, TV) and name not in ('into',):
                    pass
                if name in ('saturating_sub', 'saturating_add', 'saturating_mul', 'wrapping_add', 'wrapping_sub',
                            'wrapping_mul', 'min', 'max', 'div_ceil', 'abs_diff'):
                    def c1(irs, tys):
                        unify(tr, tys[0], wh)
                        return k(I('intop', op=name, a=r, b=irs[0], ty=tr, line=e.line), tr)
                    return with_args(1, c1)
                if name in ('checked_sub', 'checked_add', 'checked_mul', 'checked_div'):
                    def c2(irs, tys):
                        unify(tr, tys[0], wh)
                        return k(I('intop', op=name, a=r, b=irs[0], ty=tr, line=e.line), ('option', tr))
                    return with_args(1, c2)
                if name == 'overflowing_div':
                    def c5(irs, tys):
                        unify(tr, tys[0], wh)
                        tt2 = prune(tr)
                        if is_int(tt2) and INT[tt2][1]:
                            self.err(e, 'overflowing_div on signed integers is not supported')
                        return k(I('tuple', es=[Bin('/', r, irs[0], tr), Bool(False)]), ('tuple', (tr, 'bool')))
                    return with_args(1, c5)
                if name in ('checked_shr', 'checked_shl'):
                    def c3(irs, tys):
                        unify(tys[0], 'u32', wh)
                        return k(I('intop', op=name, a=r, b=irs[0], ty=tr, line=e.line), ('option', tr))
                    return with_args(1, c3)
                if name == 'into' and nargs == 0:
                    dst = TV('int')
                    return k(I('widen', a=r, src=tr, dst=dst, line=e.line), dst)
                if name == 'try_into' and nargs == 0:
                    dst = TV('int')
                    return k(I('tryinto', a=r, src=tr, dst=dst, line=e.line), ('tryres', dst))
                self.err(e, 'unsupported integer method `.%s()`' % name)
            if isinstance(tt, TV):
                self.err(e, 'cannot infer the receiver type of `.%s()`' % name)
            # ----- bool
            if tt == 'bool':
                if name == 'then_some':
                    return with_args(1, lambda irs, tys: k(App('then_some', [r, irs[0]]), ('option', tys[0])))
                self.err(e, 'unsupported bool method `.%s()`' % name)
            kind = tt[0] if isinstance(tt, tuple) else None
            # ----- Option / try_from results
            if kind in ('option', 'tryres'):
                inner = tt[1]
                if name == 'ok' and kind == 'tryres' and nargs == 0:
                    return k(r, ('option', inner))
                if name in ('unwrap_or',):
                    def c4(irs, tys):
                        unify(inner, tys[0], wh)
                        return k(App('unwrap_or', [r, irs[0]]), inner)
                    return with_args(1, c4)
                if name in ('unwrap', 'expect'):
                    return k(I('unwrap', o=r, ty=inner, line=e.line), inner)
                if name in ('is_some', 'is_ok') and nargs == 0:
                    return k(App('is_some', [r]), 'bool')
                if name in ('is_none', 'is_err') and nargs == 0:
                    return k(App('is_none', [r]), 'bool')
                if kind == 'option' and name in ('map', 'and_then') and nargs == 1:
                    pats, body, bt = self.lower_lambda(e.args[0], [inner], env, '.%s()' % name)
                    if name == 'map':
                        return k(I('optmap', o=r, pat=pats[0], body=body), ('option', bt))
                    it = TV()
                    unify(bt, ('option', it), wh)
                    return k(I('optbind', o=r, pat=pats[0], body=body), ('option', it))
                if kind == 'option' and name == 'ok_or' and nargs == 1:
                    a = e.args[0]
                    if a.k == 'unit':
                        es = '()'
                    elif a.k == 'path' and len(a.segs) >= 2:
                        es = a.segs[-1]
                    else:
                        self.err(e, 'ok_or(..) argument must be `()` or an enum variant path')
                    return k(App('ok_or', [r, I('str', value=es)]), ('result', inner))
                self.err(e, 'unsupported Option method `.%s()`' % name)
            if kind == 'result':
                if name == 'is_ok' and nargs == 0:
                    return k(App('is_ok', [r]), 'bool')
                if name == 'is_err' and nargs == 0:
                    return k(App('is_err', [r]), 'bool')
                if name == 'ok' and nargs == 0:
                    return k(App('res_ok', [r]), ('option', tt[1]))
                if name in ('unwrap', 'expect'):
                    return k(I('unwrap', o=App('res_ok', [r]), ty=tt[1], line=e.line), tt[1])
                self.err(e, 'unsupported Result method `.%s()`' % name)
            # ----- lists / iterators
            if kind == 'list':
                el = tt[1]
                if name == 'rev' and nargs == 0:
                    return k(App('List.rev', [r]), tt)
                if name == 'len' and nargs == 0:
                    return k(I('llen', l=r), 'usize')
                if name == 'count' and nargs == 0:
                    return k(I('llen', l=r), 'usize')
                if name == 'is_empty' and nargs == 0:
                    return k(Bin('==', I('llen', l=r), Int(0), 'usize'), 'bool')
                if name == 'sum' and nargs == 0:
                    targs = [resolve_type(a, self.G, wh, {}, None) for a in e.targs if a.k != 'assoc']
                    if targs:
                        unify(el, targs[0], wh)
                    return k(I('lsum', l=r, ty=el, line=e.line), el)
                if name in ('map', 'filter', 'filter_map', 'any', 'all') and nargs == 1:
                    pats, body, bt = self.lower_lambda(e.args[0], [el], env, '.%s()' % name)
                    if name == 'map':
                        return k(I('lmap', pat=pats[0], body=body, l=r), ('list', bt))
                    if name == 'filter':
                        unify(bt, 'bool', wh)
                        return k(I('lfilter', pat=pats[0], body=body, l=r), tt)
                    if name == 'filter_map':
                        it = TV()
                        unify(bt, ('option', it), wh)
                        return k(I('lfiltermap', pat=pats[0], body=body, l=r), ('list', it))
                    unify(bt, 'bool', wh)
                    return k(I('lany' if name == 'any' else 'lall', pat=pats[0], body=body, l=r, line=e.line), 'bool')
                self.err(e, 'unsupported slice/iterator method `.%s()`' % name)
            # ----- records and enums: feature-style field queries and translated methods
            if kind in ('record', 'enum'):
                tname = tt[1]
                if (tname, name) in self.G.fns:
                    sig = self.G.fns[(tname, name)]

                    def cm(irs, tys):
                        v, t = self.call_sig(sig, (r, tr), irs, tys, env, e)
                        return k(v, t)
                    return self.lower_args_for_sig(sig, e.args, env, cm)
                if kind == 'record' and nargs == 0:
                    rec = self.G.records[tname]
                    for fname, fty in rec['fields']:
                        if fname == name:
                            return k(App(rec['prefix'] + fname, [r]), fty)
                self.err(e, 'unknown method `.%s()` on %s (neither a translated method nor a declared field)'
                         % (name, tname))
            self.err(e, 'unsupported method `.%s()` on a value of type %s' % (name, show_type(tt)))
        return self.lower(e.recv, env, kr)


# ---------------------------------------------------------------------------------------------
# 6. Desugaring of type-dependent nodes, `_safe` derivation, pretty printer
# ---------------------------------------------------------------------------------------------

def pow2(w):
    return Bin('^', Int(2), Int(w), None, checked=False)


def conj(parts):
    parts = [p for p in parts if p is not None]
    flat = []
    for p in parts:
        if p.k == 'and':
            flat.extend(p.parts)
        elif p.k == 'bool' and p.value is True:
            continue
        else:
            flat.append(p)
    if not flat:
        return None
    if len(flat) == 1:
        return flat[0]
    return I('and', parts=flat)


TRUE = Bool(True)


class Emitter(object):
    def __init__(self, where, G):
        self.where = where
        self.G = G
        self.local_safe = {}

    def err(self, node, msg):
        raise Rs2vError('%s:%s: %s' % (self.where, getattr(node, 'line', '?'), msg))

    def int_info(self, ty, node, what):
        t = prune(ty)
        if isinstance(t, str) and t in INT:
            return INT[t]
        self.err(node, 'cannot infer the integer type needed for %s (got %s)' % (what, show_type(t)))

    # -- desugar one node (children untouched)
    def d(self, t):
        c = getattr(t, '_d', None)
        if c is not None:
            return c
        r = self.d1(t)
        if not hasattr(r, 'own'):
            r.own = []
        t._d = r
        r._d = r
        return r

    def d1(self, t):
        k = t.k
        if k == 'cast':
            s = prune(t.src)
            wd, sd = INT[t.dst]
            if isinstance(s, TV):
                if s.kind == 'int' and t.a.k == 'int':
                    lo = -(2 ** (wd - 1)) if sd else 0
                    hi = 2 ** (wd - 1) if sd else 2 ** wd
                    if lo <= t.a.value < hi:
                        return self.d(t.a)
                self.err(t, 'cannot infer the source type of `as %s`' % t.dst)
            if s == 'bool':
                return App('Z.b2z', [t.a])
            ws, ss = self.int_info(s, t, 'the source of a cast')
            if not ss and not sd:
                return self.d(t.a) if ws <= wd else App('cast_u', [Int(wd), t.a])
            if not ss and sd:
                return self.d(t.a) if ws < wd else App('cast_i', [Int(wd), t.a])
            if ss and not sd:
                return App('cast_u', [Int(wd), t.a])
            return self.d(t.a) if ws <= wd else App('cast_i', [Int(wd), t.a])
        if k == 'widen':
            ws, ss = self.int_info(t.src, t, 'the source of from()/into()')
            wd, sd = self.int_info(t.dst, t, 'the target of from()/into()')
            ok = (ws <= wd) if ss == sd else ((not ss) and sd and ws < wd)
            if not ok:
                self.err(t, 'from()/into() between %s and %s is not a lossless widening'
                         % (show_type(t.src), show_type(t.dst)))
            return self.d(t.a)
        if k == 'tryinto':
            wd, sd = self.int_info(t.dst, t, 'the target of try_into()/try_from()')
            self.int_info(t.src, t, 'the source of try_into()/try_from()')
            return App('try_into_i' if sd else 'try_into_u', [Int(wd), t.a])
        if k == 'intop':
            w, signed = self.int_info(t.ty, t, 'the receiver of .%s()' % t.op)
            op = t.op
            if signed and op not in ('min', 'max'):
                self.err(t, '.%s() on signed integers is not supported' % op)
            W = Int(w)
            table = {
                'saturating_sub': ('sat_sub', False), 'saturating_add': ('sat_add', True),
                'saturating_mul': ('sat_mul', True), 'wrapping_add': ('wrap_add', True),
                'wrapping_sub': ('wrap_sub', True), 'wrapping_mul': ('wrap_mul', True),
                'min': ('Z.min', False), 'max': ('Z.max', False), 'abs_diff': ('abs_diff', False),
                'checked_sub': ('chk_sub', False), 'checked_add': ('chk_add', True),
                'checked_mul': ('chk_mul', True), 'checked_div': ('chk_div', False),
                'checked_shr': ('chk_shr', True), 'checked_shl': ('chk_shl', True),
                'div_ceil': ('div_ceil', False)}
            f, needs_w = table[op]
            r = App(f, ([W] if needs_w else []) + [t.a, t.b])
            if op == 'div_ceil' and not (t.b.k == 'int' and t.b.value != 0):
                r.own = [I('not', a=Bin('==', t.b, Int(0), t.ty))]
            return r
        if k == 'unwrap':
            ty = prune(t.ty)
            if not (is_int(ty) or (isinstance(ty, TV) and ty.kind == 'int')):
                self.err(t, '.unwrap() is only supported on Option<integer> (got Option<%s>)' % show_type(ty))
            r = App('unwrap_z', [t.o])
            r.own = [App('is_some', [t.o])]
            return r
        if k == 'lsum':
            w, signed = self.int_info(t.ty, t, 'the result of .sum()')
            if signed:
                self.err(t, '.sum() over signed integers is not supported')
            r = App('sum_z', [t.l])
            r.own = [App('sum_safe', [Int(w), t.l])]
            return r
        if k == 'llen':
            return App('Z.of_nat', [App('List.length', [t.l])])
        if k == 'bin':
            op = t.op
            if op in ('&&', '||') or not t.checked:
                return t
            ty = prune(t.ty)
            if op in ('==', '!='):
                if ty == 'bool':
                    r = App('Bool.eqb', [t.a, t.b])
                elif isinstance(ty, tuple) and ty[0] == 'enum':
                    if any(v[1] for v in self.G.enums[ty[1]]['variants']):
                        self.err(t, '`==` on enum %s with data-carrying variants is not supported' % ty[1])
                    r = App(ty[1] + '_eqb', [t.a, t.b])
                elif is_int(ty) or (isinstance(ty, TV) and ty.kind == 'int'):
                    r = I('bin', op='==', a=t.a, b=t.b, ty=ty, checked=False)
                else:
                    self.err(t, '`%s` on values of type %s is not supported' % (op, show_type(ty)))
                if op == '!=':
                    r.own = []
                    r._d = r
                    return I('not', a=r)
                return r
            if op in ('<', '<=', '>', '>='):
                if not (is_int(ty) or (isinstance(ty, TV) and ty.kind == 'int')):
                    self.err(t, 'ordering comparison on non-integer type %s' % show_type(ty))
                return I('bin', op=op, a=t.a, b=t.b, ty=ty, checked=False)
            if ty == 'bool' and op in ('&', '|', '^'):
                return App({'&': 'andb', '|': 'orb', '^': 'xorb'}[op], [t.a, t.b])
            w, signed = self.int_info(ty, t, 'operator `%s`' % op)
            plain = I('bin', op=op, a=t.a, b=t.b, ty=ty, checked=False)
            plain.own = []
            plain._d = plain
            if op in ('+', '*', '-'):
                r = I('bin', op=op, a=t.a, b=t.b, ty=ty, checked=False)
                if signed:
                    r.own = [App('in_i', [Int(w), plain])]
                elif op == '-':
                    r.own = [Bin('<=', Int(0), plain, ty, checked=False)]
                else:
                    r.own = [Bin('<', plain, pow2(w), ty, checked=False)]
                return r
            if op in ('/', '%'):
                if signed:
                    self.err(t, 'signed division/remainder is not supported')
                r = I('bin', op=op, a=t.a, b=t.b, ty=ty, checked=False)
                if t.b.k == 'int' and t.b.value != 0:
                    r.own = []      # literal non-zero divisor: statically fine
                else:
                    r.own = [I('not', a=Bin('==', t.b, Int(0), ty, checked=False))]
                return r
            if signed:
                self.err(t, 'bit operator `%s` on signed integers is not supported' % op)
            if op in ('<<', '>>'):
                if op == '<<':
                    r = App('cast_u', [Int(w), App('Z.shiftl', [t.a, t.b])])
                else:
                    r = App('Z.shiftr', [t.a, t.b])
                if t.b.k == 'int' and 0 <= t.b.value < w:
                    r.own = []      # literal in-range shift amount: statically fine
                else:
                    r.own = [Bin('<', t.b, Int(w), ty, checked=False)]
                return r
            if op in ('&', '|', '^'):
                return App({'&': 'Z.land', '|': 'Z.lor', '^': 'Z.lxor'}[op], [t.a, t.b])
            self.err(t, 'unsupported operator `%s`' % op)
        if k == 'neg':
            if getattr(t, 'ty', None) is not None:
                w, _s = self.int_info(t.ty, t, 'unary minus')
                r = I('neg', a=t.a)
                r.own = [App('in_i', [Int(w), I('neg', a=t.a)])]
                return r
            return t
        if k == 'panic':
            r = I('default', ty=t.ty)
            r.own = [Bool(False)]
            return r
        return t

    # -- `_safe`: IR -> bool IR (None = trivially true)
    def safe(self, t0):
        t = self.d(t0)
        k = t.k
        own = conj(list(t.own)) if t.own else None
        if k in ('var', 'int', 'bool', 'unit', 'str', 'none', 'default'):
            return own
        if k == 'tuple':
            return conj([self.safe(x) for x in t.es] + [own])
        if k == 'bin':
            if t.op == '&&':
                sb = self.safe(t.b)
                return conj([self.safe(t.a), App('implb', [t.a, sb]) if sb is not None else None])
            if t.op == '||':
                sb = self.safe(t.b)
                return conj([self.safe(t.a), I('bin', op='||', a=t.a, b=sb, ty='bool', checked=False)
                             if sb is not None else None])
            return conj([self.safe(t.a), self.safe(t.b), own])
        if k in ('not', 'neg'):
            return conj([self.safe(t.a), own])
        if k in ('some', 'ok', 'err'):
            return self.safe(t.e)
        if k == 'app':
            parts = [self.safe(x) for x in t.args]
            if t.safe:
                parts.append(App(t.safe, t.args))
            return conj(parts + [own])
        if k == 'applocal':
            parts = [self.safe(x) for x in t.args]
            if self.local_safe.get(t.name):
                parts.append(I('applocal', name=t.name + '_safe', args=t.args))
            return conj(parts)
        if k == 'checked':
            return conj([self.safe(t.c), t.c, self.safe(t.body)])
        if k == 'seq':
            return conj([self.safe(t.s), self.safe(t.rest)])
        if k == 'let':
            sb = self.safe(t.body)
            se = self.safe(t.e)
            if sb is None:
                return se
            return conj([se, Let(t.pat, t.e, sb)])
        if k == 'letfun':
            sf = self.safe(t.body)
            old = self.local_safe.get(t.name)
            self.local_safe[t.name] = sf is not None
            try:
                sr = self.safe(t.rest)
            finally:
                if old is None:
                    self.local_safe.pop(t.name, None)
                else:
                    self.local_safe[t.name] = old
            if sr is None:
                return None
            inner = sr
            if sf is not None:
                inner = I('letfun', name=t.name + '_safe', pats=t.pats, body=sf, rest=sr)
            return I('letfun', name=t.name, pats=t.pats, body=t.body, rest=inner)
        if k == 'if':
            sa, sb = self.safe(t.a), self.safe(t.b)
            sc = self.safe(t.c)
            if sa is None and sb is None:
                return sc
            return conj([sc, If(t.c, sa or TRUE, sb or TRUE)])
        if k == 'match':
            ss = self.safe(t.s)
            arms = [(p, self.safe(b)) for p, b in t.arms]
            if all(s is None for _, s in arms):
                return ss
            return conj([ss, Match(t.s, [(p, s or TRUE) for p, s in arms])])
        if k in ('optmap', 'optbind'):
            sb = self.safe(t.body)
            so = self.safe(t.o)
            if sb is None:
                return so
            return conj([so, Match(t.o, [(PCtor('Some', [t.pat]), sb), (PCtor('None'), TRUE)])])
        if k in ('lmap', 'lfilter', 'lfiltermap'):
            sb = self.safe(t.body)
            sl = self.safe(t.l)
            if sb is None:
                return sl
            return conj([sl, App('List.forallb', [Lam([t.pat], sb), t.l])])
        if k in ('lany', 'lall'):
            sb = self.safe(t.body)
            if sb is not None:
                self.err(t, '.any()/.all() with a predicate that can panic is not supported (short-circuit '
                            'evaluation makes the exact panic condition order-dependent)')
            return self.safe(t.l)
        if k == 'lfold':
            sb = self.safe(t.body)
            parts = [self.safe(t.l), self.safe(t.init)]
            if sb is not None:
                parts.append(App('fold_safe', [Lam([t.spat, t.xpat], t.body), Lam([t.spat, t.xpat], sb), t.l, t.init]))
            return conj(parts)
        if k == 'lam':
            return None
        if k == 'and':
            return conj([self.safe(p) for p in t.parts])
        self.err(t, 'internal: no safety rule for IR node %s' % k)

    # -- pretty printer
    WIDTH = 100
    BINOPS = {'+': (50, '+'), '-': (50, '-'), '*': (40, '*'), '/': (40, '/'), '%': (40, 'mod'), '^': (30, '^'),
              '==': (70, '=?'), '<': (70, '<?'), '<=': (70, '<=?'), '>': (70, '<?'), '>=': (70, '<=?'),
              '&&': (40, '&&'), '||': (50, '||')}

    def view(self, t0):
        """Desugar and map sugar nodes onto the core printing kinds."""
        t = self.d(t0)
        k = t.k
        if k == 'checked':
            return self.view(t.body)
        if k == 'seq':
            return self.view(t.rest)
        if k == 'not':
            return App('negb', [t.a])
        if k == 'some':
            return App('Some', [t.e])
        if k == 'ok':
            return App('ROk', [t.e])
        if k == 'err':
            return App('RErr', [t.e])
        if k == 'none':
            return Var('None')
        if k == 'optmap':
            return App('option_map', [Lam([t.pat], t.body), t.o])
        if k == 'optbind':
            return App('opt_bind', [t.o, Lam([t.pat], t.body)])
        if k == 'lmap':
            return App('List.map', [Lam([t.pat], t.body), t.l])
        if k == 'lfilter':
            return App('List.filter', [Lam([t.pat], t.body), t.l])
        if k == 'lfiltermap':
            return App('filter_map', [Lam([t.pat], t.body), t.l])
        if k == 'lany':
            return App('List.existsb', [Lam([t.pat], t.body), t.l])
        if k == 'lall':
            return App('List.forallb', [Lam([t.pat], t.body), t.l])
        if k == 'lfold':
            return App('List.fold_left', [Lam([t.spat, t.xpat], t.body), t.l, t.init])
        if k == 'applocal':
            return App(t.name, t.args)
        if k == 'default':
            return self.default_value(t.ty, t)
        if k == 'bin' and t.op in ('>', '>='):
            return I('bin', op={'>': '<', '>=': '<='}[t.op], a=t.b, b=t.a, ty=t.ty, checked=False, own=[])
        if k == 'and':
            r = t.parts[0]
            for p in t.parts[1:]:
                r = I('bin', op='&&', a=r, b=p, ty='bool', checked=False, own=[])
            r.is_chain = True
            r.parts = t.parts
            return r
        return t

    def default_value(self, ty, node):
        t = prune(ty)
        if isinstance(t, TV):
            if t.kind == 'int':
                return Int(0)
            self.err(node, 'cannot infer the type of a panicking expression')
        if isinstance(t, str):
            if t in INT:
                return Int(0)
            if t == 'bool':
                return Bool(False)
            if t == 'unit':
                return UNIT
        elif t[0] in ('option', 'tryres'):
            return Var('None')
        elif t[0] == 'result':
            return App('RErr', [I('str', value='panic')])
        elif t[0] == 'list':
            return Var('nil')
        elif t[0] == 'tuple':
            return I('tuple', es=[self.default_value(x, node) for x in t[1]])
        self.err(node, 'no placeholder value for a panicking expression of type %s' % show_type(t))

    def pat(self, p, top=True):
        k = p.k
        if k == 'pvar':
            return p.name
        if k == 'pwild':
            return '_'
        if k == 'ptuple':
            return '(' + ', '.join(self.pat(x, True) for x in p.ps) + ')'
        if k == 'pbool':
            return 'true' if p.value else 'false'
        if k == 'pint':
            return str(p.value) if p.value >= 0 else '(%d)' % p.value
        if k == 'pctor':
            if not p.ps:
                return p.c
            s = p.c + ' ' + ' '.join(self.pat(x, False) for x in p.ps)
            return s if top else '(' + s + ')'
        if k == 'por':
            s = ' | '.join(self.pat(x, True) for x in p.ps)
            return s if top else '(' + s + ')'
        self.err(p, 'internal: unknown pattern kind ' + k)

    def binder(self, p):
        if p.k == 'pvar':
            return p.name
        if p.k == 'pwild':
            return '_'
        return "'" + self.pat(p, False)

    def has_let(self, t0):
        t = self.view(t0)
        c = getattr(t, '_hl', None)
        if c is not None:
            return c
        k = t.k
        if k in ('let', 'letfun'):
            r = True
        elif k in ('var', 'int', 'bool', 'unit', 'str'):
            r = False
        elif k == 'tuple':
            r = any(self.has_let(x) for x in t.es)
        elif k == 'bin':
            r = self.has_let(t.a) or self.has_let(t.b)
        elif k == 'neg':
            r = self.has_let(t.a)
        elif k == 'app':
            r = any(self.has_let(x) for x in t.args)
        elif k == 'if':
            r = self.has_let(t.c) or self.has_let(t.a) or self.has_let(t.b)
        elif k == 'match':
            r = self.has_let(t.s) or any(self.has_let(b) for _, b in t.arms)
        elif k == 'lam':
            r = self.has_let(t.body)
        else:
            self.err(t, 'internal: has_let on ' + k)
        t._hl = r
        return r

    def flat(self, t0):
        """-> (text, level)"""
        t = self.view(t0)
        k = t.k
        if k == 'var':
            return t.name, 0
        if k == 'int':
            return (str(t.value), 0) if t.value >= 0 else ('(%d)' % t.value, 0)
        if k == 'bool':
            return ('true' if t.value else 'false'), 0
        if k == 'unit':
            return 'tt', 0
        if k == 'str':
            return '"%s"%%string' % t.value, 0
        if k == 'tuple':
            return '(' + ', '.join(self.P(x, 200) for x in t.es) + ')', 0
        if k == 'neg':
            return '(- ' + self.P(t.a, 34) + ')', 0
        if k == 'bin':
            lvl, sym = self.BINOPS[t.op]
            la, lb = self.child_levels(t)
            return '%s %s %s' % (self.P(t.a, la), sym, self.P(t.b, lb)), lvl
        if k == 'app':
            if not t.args:
                return t.f, 0
            return t.f + ' ' + ' '.join(self.P(x, 9) for x in t.args), 10
        if k == 'let':
            return 'let %s := %s in %s' % (self.binder(t.pat), self.P(t.e, 200), self.P(t.body, 200)), 200
        if k == 'letfun':
            return 'let %s := fun %s => %s in %s' % (t.name, ' '.join(self.binder(p) for p in t.pats),
                                                     self.P(t.body, 200), self.P(t.rest, 200)), 200
        if k == 'if':
            return 'if %s then %s else %s' % (self.P(t.c, 200), self.P(t.a, 200), self.P(t.b, 200)), 200
        if k == 'match':
            arms = ' '.join('| %s => %s' % (self.pat(p), self.P(b, 200)) for p, b in t.arms)
            return 'match %s with %s end' % (self.P(t.s, 200), arms), 0
        if k == 'lam':
            return 'fun %s => %s' % (' '.join(self.binder(p) for p in t.pats), self.P(t.body, 200)), 200
        self.err(t, 'internal: cannot print IR node ' + k)

    def child_levels(self, t):
        lvl, _ = self.BINOPS[t.op]
        if t.op == '^':
            return 29, 30
        if lvl == 70:
            return 69, 69
        if t.op == '||':
            a = self.view(t.a)
            return (50 if (a.k == 'bin' and a.op == '||') else 39), 39
        return lvl, lvl - 1

    def P(self, t, maxlvl):
        s, lvl = self.flat(t)
        return '(' + s + ')' if lvl > maxlvl else s

    def level(self, t0):
        t = self.view(t0)
        k = t.k
        if k in ('var', 'int', 'bool', 'unit', 'str', 'tuple', 'neg', 'match'):
            return 0
        if k == 'bin':
            return self.BINOPS[t.op][0]
        if k == 'app':
            return 10 if t.args else 0
        return 200

    def F(self, t0, ind, maxlvl):
        """Multi-line rendering; continuation lines are indented by `ind` columns."""
        t = self.view(t0)
        if not self.has_let(t):
            s = self.P(t, maxlvl)
            if ind + len(s) <= self.WIDTH:
                return s
        lvl = self.level(t)
        if lvl > maxlvl:
            return '(' + self.F1(t, ind + 1) + ')'
        return self.F1(t, ind)

    def F1(self, t, ind):
        k = t.k
        pad = ' ' * ind
        if k == 'let':
            prefix = 'let %s := ' % self.binder(t.pat)
            rhs = None
            if not self.has_let(t.e):
                s1 = self.P(t.e, 200)
                if ind + len(prefix) + len(s1) + 3 <= self.WIDTH:
                    rhs = prefix + s1
            if rhs is None:
                ev = self.view(t.e)
                cand = prefix + self.F(t.e, ind + 2, 200) if ev.k in ('match', 'if') else None
                if cand is not None and ind + len(cand.split('\n')[0]) <= self.WIDTH:
                    rhs = cand
                else:
                    rhs = prefix.rstrip() + '\n' + ' ' * (ind + 4) + self.F(t.e, ind + 4, 200)
            return '%s in\n%s%s' % (rhs, pad, self.F(t.body, ind, 200))
        if k == 'letfun':
            head = 'let %s := fun %s =>' % (t.name, ' '.join(self.binder(p) for p in t.pats))
            body = self.F(t.body, ind + 4, 200)
            if '\n' not in body and ind + len(head) + len(body) + 4 <= self.WIDTH:
                first = head + ' ' + body + ' in'
            else:
                first = head + '\n' + ' ' * (ind + 4) + body + ' in'
            return first + '\n' + pad + self.F(t.rest, ind, 200)
        if k == 'if':
            s = 'if %s then\n%s  %s\n%selse' % (self.F(t.c, ind + 3, 200), pad, self.F(t.a, ind + 2, 200), pad)
            b = self.view(t.b)
            if b.k == 'if':
                return s + ' ' + self.F(b, ind, 200)
            return s + '\n' + pad + '  ' + self.F(b, ind + 2, 200)
        if k == 'match':
            out = ['match %s with' % self.F(t.s, ind + 6, 200)]
            for p, b in t.arms:
                head = '| %s =>' % self.pat(p)
                body = self.F(b, ind + 4, 200)
                if '\n' not in body and ind + len(head) + 1 + len(body) <= self.WIDTH:
                    out.append(pad + head + ' ' + body)
                else:
                    out.append(pad + head + '\n' + ' ' * (ind + 4) + body)
            out.append(pad + 'end')
            return '\n'.join(out)
        if k == 'bin':
            if getattr(t, 'is_chain', False):
                return (' &&\n' + pad).join(self.F(p, ind, 39) for p in t.parts)
            la, lb = self.child_levels(t)
            sym = self.BINOPS[t.op][1]
            return '%s %s\n%s%s' % (self.F(t.a, ind, la), sym, pad, self.F(t.b, ind, lb))
        if k == 'app':
            lines = []
            cur = t.f
            curlen = ind + len(t.f)
            for a in t.args:
                s1 = None if self.has_let(a) else self.P(a, 9)
                if s1 is not None and curlen + 1 + len(s1) <= self.WIDTH:
                    cur += ' ' + s1
                    curlen += 1 + len(s1)
                    continue
                lines.append(cur)
                txt = self.F(a, ind + 2, 9)
                cur = ' ' * (ind + 2) + txt
                curlen = len(cur.split('\n')[-1])
            lines.append(cur)
            return '\n'.join(lines)
        if k == 'lam':
            return 'fun %s =>\n%s  %s' % (' '.join(self.binder(p) for p in t.pats), pad, self.F(t.body, ind + 2, 200))
        if k == 'tuple':
            return '(' + (',\n' + pad + ' ').join(self.F(x, ind + 1, 200) for x in t.es) + ')'
        if k == 'neg':
            return '(- ' + self.F(t.a, ind + 3, 34) + ')'
        return self.P(t, 200)


# ---------------------------------------------------------------------------------------------
# 7. Module driver
# ---------------------------------------------------------------------------------------------

_FILE_CACHE = {}
_MODULE_CACHE = {}


def file_index(repo, rel, cfg):
    key = (repo, rel, cfg.key())
    if key not in _FILE_CACHE:
        path = os.path.join(repo, rel)
        if not os.path.isfile(path):
            raise Rs2vError('source file not found: %s' % rel)
        _FILE_CACHE[key] = FileIndex(path, rel, cfg)
    return _FILE_CACHE[key]


def sanitize_comment(s):
    return s.replace('*)', '* )').replace('(*', '( *').replace('"', "'").replace('\n', ' ')


def apply_rewrites(text, rewrites, where):
    notes = []
    for rw in rewrites or []:
        if not (isinstance(rw, list) and len(rw) == 2):
            raise Rs2vError('%s: malformed rewrite %r (want [regex, replacement])' % (where, rw))
        try:
            text, n = re.subn(rw[0], rw[1], text)
        except re.error as ex:
            raise Rs2vError('%s: bad rewrite regex %r: %s' % (where, rw[0], ex))
        if n == 0:
            raise Rs2vError('%s: rewrite regex %r matches nothing (the source changed?)' % (where, rw[0]))
        notes.append('s/%s/%s/ x%d' % (rw[0], rw[1], n))
    return text, notes


def group_params(params):
    out = []
    for name, ty in params:
        if out and out[-1][1] == ty and sum(len(x) + 1 for x in out[-1][0]) + len(name) + len(ty) < 84:
            out[-1][0].append(name)
        else:
            out.append(([name], ty))
    return ' '.join('(%s : %s)' % (' '.join(ns), ty) for ns, ty in out)


class Unit(object):
    """One config item being translated."""
    pass


class Module(object):
    def __init__(self, config, repo, config_dir):
        self.config = config
        self.repo = repo
        self.config_dir = config_dir
        self.name = config.get('module')
        if not self.name:
            raise Rs2vError('config lacks "module"')
        self.cfg = Cfg(config.get('features', []), config.get('cfg_flags', []))
        self.G = Globals()
        self.exports = Globals()
        self.imports = list(config.get('imports', []))
        self.units = []
        self.meta = []

    # -- config pieces
    def load_imports(self):
        for rel in self.config.get('import_configs', []):
            path = os.path.join(self.config_dir, rel)
            key = (os.path.abspath(path), self.repo)
            if key not in _MODULE_CACHE:
                if not os.path.isfile(path):
                    raise Rs2vError('import_configs: %s not found' % path)
                with open(path) as f:
                    sub = json.load(f)
                m = Module(sub, self.repo, os.path.dirname(os.path.abspath(path)))
                m.run()
                _MODULE_CACHE[key] = m
            m = _MODULE_CACHE[key]
            if sorted(m.cfg.features) != sorted(self.cfg.features) or sorted(m.cfg.flags) != sorted(self.cfg.flags):
                raise Rs2vError('module %s: imported config %s uses different features/cfg_flags' % (self.name, rel))
            self.G.copy_from(m.exports)
            lib = 'LdkV.Gen.' + m.name
            if lib not in self.imports:
                self.imports.append(lib)

    def declare_types(self):
        wh = 'config %s' % self.name
        recs = self.config.get('records', {})
        enums = self.config.get('enums', {})
        # names first (records may mention each other)
        for rn in recs:
            self.G.records[rn] = dict(fields=[], prefix=None, ctor='mk' + rn, local=True)
        for en in enums:
            self.G.enums[en] = dict(variants=[], local=True)
        for en, vs in enums.items():
            variants = []
            for v in vs:
                if isinstance(v, str):
                    variants.append((v, None))
                elif isinstance(v, dict) and len(v) == 1:
                    (vn, fields), = v.items()
                    variants.append((vn, [(fn, type_from_string(ft, self.G, wh)) for fn, ft in fields.items()] or None))
                else:
                    raise Rs2vError('%s: malformed enum variant %r' % (wh, v))
            self.G.enums[en]['variants'] = variants
        for rn, fields in recs.items():
            prefix = fields.get('_prefix', rn.lower() + '_') if isinstance(fields, dict) else None
            fl = [(fn, type_from_string(ft, self.G, wh)) for fn, ft in fields.items() if not fn.startswith('_')]
            self.G.records[rn]['fields'] = fl
            self.G.records[rn]['prefix'] = prefix
        for rn, rel in self.config.get('record_sources', {}).items():
            self.check_record_source(rn, rel)
        for rn in recs:
            self.exports.records[rn] = dict(self.G.records[rn], local=False)
        for en in enums:
            self.exports.enums[en] = dict(self.G.enums[en], local=False)

    def check_record_source(self, rn, rel):
        if rn not in self.G.records:
            raise Rs2vError('record_sources: %s is not a declared record' % rn)
        fi = file_index(self.repo, rel, self.cfg)
        it = fi.find('struct', rn)
        toks = tokenize(fi.text[it.pos:it.end], rel, it.line_start)
        sd = Parser(toks, '%s:struct %s' % (rel, rn), self.cfg).parse_struct_item()
        actual = {}
        for fname, fty in sd.fields:
            actual[fname] = resolve_type(fty, self.G, rel, {}, None)
        for fname, fty in self.G.records[rn]['fields']:
            if fname not in actual:
                raise Rs2vError('%s: struct %s has no field `%s` (config record is stale)' % (rel, rn, fname))
            if show_type(actual[fname]) != show_type(fty):
                raise Rs2vError('%s: struct %s field `%s` has type %s, config says %s'
                                % (rel, rn, fname, show_type(actual[fname]), show_type(fty)))
        extra = [f for f in actual if f not in dict(self.G.records[rn]['fields'])]
        if extra and not self.config.get('record_partial', {}).get(rn):
            raise Rs2vError('%s: struct %s has fields %s not present in the config record (list them, or set '
                            '"record_partial": {"%s": true} to model only a projection)' % (rel, rn, extra, rn))

    # -- locating sources
    def locate(self, item):
        kind = item['kind']
        rel = item.get('file')
        if not rel:
            raise Rs2vError('item %r lacks "file"' % item.get('name'))
        fi = file_index(self.repo, rel, self.cfg)
        u = Unit()
        u.item = item
        u.kind = kind
        u.rel = rel
        u.fi = fi
        if kind in ('fn', 'method'):
            impl = item.get('impl')
            if kind == 'method' and not impl:
                raise Rs2vError('method item `%s` needs "impl"' % item.get('name'))
            it = fi.find('fn', item['name'], impl=impl, what='fn `%s`' % item['name'])
            u.pos, u.end, u.ls, u.le = it.pos, it.end, it.line_start, it.line_end
        elif kind == 'const' or (kind == 'assert_const' and 'anchor' not in item):
            it = fi.find('const', item['name'], impl=item.get('impl'), in_fn=item.get('in_fn'))
            u.pos, u.end, u.ls, u.le = it.pos, it.end, it.line_start, it.line_end
        elif kind == 'assert_const':
            m = self.unique_anchor(fi, item)
            cands = [it for it in fi.items if it.kind == 'const' and it.active and it.end > m.start()]
            cands.sort(key=lambda it: it.pos)
            if not cands:
                raise Rs2vError('%s: no const item at or after anchor %r' % (rel, item['anchor']))
            it = cands[0]
            u.pos, u.end, u.ls, u.le = it.pos, it.end, it.line_start, it.line_end
        elif kind == 'expr':
            m = self.unique_anchor(fi, item)
            sel = item.get('select', 'if_cond')
            toks = fi.toks
            # first token at or after the anchor start
            idx = self._tok_at(fi, m.start())
            kw = 'if' if sel == 'if_cond' else 'let' if sel == 'let_init' else None
            if kw is None:
                raise Rs2vError('expr item %s: unknown "select" %r' % (item.get('name'), sel))
            while idx < len(toks) and not (toks[idx].k == 'id' and toks[idx].s == kw):
                idx += 1
            if idx >= len(toks) - 1:
                raise Rs2vError('%s: no `%s` at or after anchor %r' % (rel, kw, item['anchor']))
            if sel == 'if_cond':
                if toks[idx + 1].s == 'let':
                    raise Rs2vError('%s: anchored `if` is an `if let`' % rel)
                j = idx + 1
                while j < len(toks) - 1:
                    t = toks[j]
                    if t.k == 'p' and t.s == '{':
                        break
                    if t.k == 'p' and t.s in ('(', '['):
                        j = match_delim(toks, j, rel)
                    j += 1
                first, last = idx + 1, j - 1
            else:
                j = idx + 1
                while j < len(toks) - 1 and not (toks[j].k == 'p' and toks[j].s == '='):
                    if toks[j].k == 'p' and toks[j].s in _OPEN:
                        j = match_delim(toks, j, rel)
                    j += 1
                first = j + 1
                j = first
                while j < len(toks) - 1:
                    t = toks[j]
                    if t.k == 'p' and t.s == ';':
                        break
                    if t.k == 'p' and t.s in _OPEN:
                        j = match_delim(toks, j, rel)
                    j += 1
                last = j - 1
            if last < first:
                raise Rs2vError('%s: empty anchored expression for %s' % (rel, item.get('name')))
            u.pos, u.end = toks[first].pos, toks[last].end
            u.ls, u.le = toks[first].line, toks[last].line
        else:
            raise Rs2vError('unknown item kind %r' % kind)
        u.src = fi.text[u.pos:u.end]
        u.sha = hashlib.sha256(u.src.encode('utf-8')).hexdigest()[:16]
        where = '%s:%s' % (rel, item.get('name'))
        u.where = where
        u.text, u.rw_notes = apply_rewrites(u.src, item.get('rewrites'), where)
        u.toks = tokenize(u.text, where, u.ls)
        u.idents = set(t.s for t in u.toks if t.k == 'id')
        u.rust_name = item.get('name')
        u.coq = item.get('as', item.get('name'))
        return u

    def _tok_at(self, fi, pos):
        if not hasattr(fi, '_tokpos'):
            fi._tokpos = [t.pos for t in fi.toks]
        return bisect.bisect_left(fi._tokpos, pos)

    def unique_anchor(self, fi, item):
        anchor = item.get('anchor')
        if not anchor:
            raise Rs2vError('item %s needs an "anchor" regex' % item.get('name'))
        ms = list(re.finditer(anchor, fi.text))
        if len(ms) != 1:
            raise Rs2vError('%s: anchor %r for `%s` matches %d times (must match exactly once)'
                            % (fi.rel, anchor, item.get('name'), len(ms)))
        return ms[0]

    # -- signatures
    def prepare(self, u):
        item = u.item
        kind = u.kind
        p = Parser(u.toks, u.where, self.cfg)
        wh = u.where
        if kind in ('fn', 'method'):
            ast = p.parse_fn_item()
            u.ast = ast
            sig = FnSig()
            sig.coq = u.coq
            sig.name = item['name']
            sig.impl = item.get('impl')
            self_type = None
            if sig.impl and sig.impl in self.G.records:
                self_type = ('record', sig.impl)
            elif sig.impl and sig.impl in self.G.enums:
                self_type = ('enum', sig.impl)
            if ast.has_self:
                if item.get('self_record'):
                    rn = item['self_record']
                    if rn not in self.G.records and rn not in self.G.enums:
                        raise Rs2vError('%s: self_record %s is not a declared record/enum' % (wh, rn))
                    sig.self_mode = 'record'
                    sig.self_type = ('record', rn) if rn in self.G.records else ('enum', rn)
                    self_type = sig.self_type
                elif 'self_fields' in item:
                    sig.self_mode = 'fields'
                    sig.self_fields = [(fn, type_from_string(ft, self.G, wh)) for fn, ft in item['self_fields'].items()]
                else:
                    sig.self_mode = 'unused'
            drops = set(item.get('drop_params', []))
            overrides = item.get('param_types', {})
            seen = set()
            for pat, tyast in ast.params:
                if pat.k == 'pbind':
                    pname = pat.name
                elif pat.k == 'pwild':
                    pname = '_'
                else:
                    raise Rs2vError('%s: destructuring parameter patterns are not supported' % wh)
                seen.add(pname)
                if pname in drops:
                    sig.rust_params.append((pname, None, True))
                    continue
                if pname in overrides:
                    ty = type_from_string(overrides[pname], self.G, wh)
                else:
                    ty = resolve_type(tyast, self.G, wh, ast.generics, self_type)
                if isinstance(ty, tuple) and ty[0] == 'opaque':
                    raise Rs2vError('%s: parameter `%s` has unsupported type `%s`; list it in "drop_params", declare '
                                    'the type in "records"/"enums", or give "param_types"' % (wh, pname, ty[1]))
                sig.rust_params.append((pname, ty, False))
            for d in drops:
                if d not in seen:
                    raise Rs2vError('%s: drop_params names `%s`, which is not a parameter' % (wh, d))
            sig.extras = [(n, type_from_string(t, self.G, wh)) for n, t in item.get('extra_params', [])]
            sig.ret = resolve_type(ast.ret, self.G, wh, ast.generics, self_type) if ast.ret is not None else 'unit'
            u.sig = sig
            key = (sig.impl, sig.name)
            if key in self.G.fns and getattr(self.G.fns[key], 'module', None) == self.name:
                raise Rs2vError('%s: duplicate item' % wh)
            sig.module = self.name
            self.G.fns[key] = sig
            self.exports.fns[key] = sig
        elif kind == 'const':
            ast = p.parse_const_item()
            u.ast = ast
            ty = resolve_type(ast.ty, self.G, wh, {}, None)
            if not (is_int(ty) or ty == 'bool'):
                raise Rs2vError('%s: only integer and bool constants are supported (type %s)' % (wh, show_type(ty)))
            u.ty = ty
            self.G.consts[item['name']] = (u.coq, ty)
            self.exports.consts[item['name']] = (u.coq, ty)
        elif kind == 'assert_const':
            ast = p.parse_const_item()
            u.ast = ast
            init = ast.init
            if not (init.k == 'macro' and init.name == 'assert'):
                raise Rs2vError('%s: assert_const item is not of the form `const _: () = assert!(..);`' % wh)
            if 'as' not in item and ast.name == '_':
                raise Rs2vError('%s: anonymous assert const needs "as"' % wh)
            u.coq = item.get('as', ast.name) + '_holds'
        elif kind == 'expr':
            u.ast = p.parse_whole_expr()
            u.coq = item.get('as', item['name'])

    # -- lowering + emission of one unit
    def emit_unit(self, u):
        item = u.item
        kind = u.kind
        wh = u.where
        lo = Lower(self.G, self.cfg, wh, u.idents, item, item.get('impl'))
        em = Emitter(wh, self.G)
        note = ''
        if u.rw_notes:
            note = ' rewrites: ' + ' ; '.join(u.rw_notes)
        extra_notes = []
        if item.get('drop_params'):
            extra_notes.append('dropped params: ' + ', '.join(item['drop_params']))
        if item.get('extra_params'):
            extra_notes.append('extra params: ' + ', '.join('%s: %s' % (n, t) for n, t in item['extra_params']))
        if item.get('param_types'):
            extra_notes.append('param types: ' + ', '.join('%s: %s' % kv for kv in sorted(item['param_types'].items())))
        if extra_notes:
            note += ' ' + ' ; '.join(extra_notes)
        comment = '(* rs2v: %s:%d-%d sha256:%s%s *)' % (u.rel, u.ls, u.le, u.sha, sanitize_comment(note))
        out = [comment]
        sigtext = None
        if kind == 'const':
            ctx = Ctx(u.ty, 'fn')
            ctx.on_return = lambda v, t, n: lo.err(n, '`return` in a const initializer')
            ctx.try_fail = lambda kind_, ev, n: lo.err(n, '`?` in a const initializer')
            lo.ctx = ctx

            def kc(v, t):
                unify(t, u.ty, wh)
                return v
            ir = lo.lower(u.ast.init, {}, kc)
            cty = coq_type(u.ty, wh)
            out.append('Definition %s : %s :=\n  %s.' % (u.coq, cty, em.F(ir, 2, 200)))
            if self.config.get('hint_db'):
                out.append('#[global] Hint Unfold %s : %s.' % (u.coq, self.config['hint_db']))
            sigtext = '%s : %s' % (u.coq, cty)
        elif kind == 'assert_const':
            ctx = Ctx('unit', 'fn')
            ctx.on_return = lambda v, t, n: lo.err(n, '`return` in a const initializer')
            ctx.try_fail = lambda kind_, ev, n: lo.err(n, '`?` in a const initializer')
            lo.ctx = ctx
            parts = lo.macro_args(u.ast.init)
            cond = lo.parse_tokens_expr(parts[0], u.ast.init)
            ir, t = lo.pure(cond, {})
            unify(t, 'bool', wh)
            out.append('Definition %s : bool :=\n  %s.' % (u.coq, em.F(ir, 2, 200)))
            sigtext = '%s : bool' % u.coq
        else:
            env = {}
            params = []   # (coq name, coq type)
            if kind == 'expr':
                body_ast = u.ast
                ptys = []
                for n, t in item.get('params', []):
                    ty = type_from_string(t, self.G, wh)
                    env, coq = lo.bind(env, n, ty)
                    params.append((coq, coq_type(ty, wh)))
                ret = type_from_string(item['result'], self.G, wh) if item.get('result') else TV()
                clos_params = []
                if body_ast.k == 'closure':
                    c = body_ast
                    for pat, tyast in c.params:
                        if pat.k != 'pbind':
                            raise Rs2vError('%s: closure parameter must be a simple name' % wh)
                        if tyast is not None:
                            ty = resolve_type(tyast, self.G, wh, {}, None)
                        elif pat.name in item.get('param_types', {}):
                            ty = type_from_string(item['param_types'][pat.name], self.G, wh)
                        else:
                            ty = TV()
                        env, coq = lo.bind(env, pat.name, ty)
                        clos_params.append((coq, ty))
                    if c.ret is not None:
                        unify(ret, resolve_type(c.ret, self.G, wh, {}, None), wh)
                    body_ast = c.body
            else:
                sig = u.sig
                ast = u.ast
                ret = sig.ret
                if sig.self_mode == 'record':
                    env, coq = lo.bind(env, 'self', sig.self_type)
                    params.append((coq, coq_type(sig.self_type, wh)))
                elif sig.self_mode == 'fields':
                    lo.self_mode = 'fields'
                    for fn, ty in sig.self_fields:
                        lo.self_fields[fn] = ('self_' + fn, ty)
                        params.append(('self_' + fn, coq_type(ty, wh)))
                for pname, ty, dropped in sig.rust_params:
                    if dropped:
                        continue
                    env, coq = lo.bind(env, pname, ty)
                    params.append((coq, coq_type(ty, wh)))
                for n, ty in sig.extras:
                    env, coq = lo.bind(env, n, ty)
                    params.append((coq, coq_type(ty, wh)))
                body_ast = ast.body
                clos_params = []
            ctx = Ctx(ret, 'fn')

            def on_return(v, t, n):
                unify(t, ret, lo.wh(n))
                return v

            def try_fail(kind_, ev, n):
                rt = prune(ret)
                if kind_ == 'option':
                    if not (isinstance(rt, tuple) and rt[0] == 'option'):
                        lo.err(n, '`?` on an Option in a function that does not return Option')
                    return I('none')
                if not (isinstance(rt, tuple) and rt[0] == 'result'):
                    lo.err(n, '`?` on a Result in a function that does not return Result')
                return I('err', e=ev)
            ctx.on_return = on_return
            ctx.try_fail = try_fail
            lo.ctx = ctx
            ir = lo.lower_scoped(body_ast, env, lambda v, t: on_return(v, t, body_ast), None)
            for coq, ty in clos_params:
                params.append((coq, coq_type(ty, wh)))
            rty = coq_type(ret, wh)
            ptxt = group_params(params)
            head = 'Definition %s%s : %s :=' % (u.coq, (' ' + ptxt) if ptxt else '', rty)
            if len(head) > 100:
                head = 'Definition %s\n    %s\n    : %s :=' % (u.coq, ptxt.replace(') (', ')\n    ('), rty)
            out.append('%s\n  %s.' % (head, em.F(ir, 2, 200)))
            sf = em.safe(ir)
            if sf is None:
                sf = TRUE
            head2 = 'Definition %s_safe%s : bool :=' % (u.coq, (' ' + ptxt) if ptxt else '')
            if len(head2) > 100:
                head2 = 'Definition %s_safe\n    %s\n    : bool :=' % (u.coq, ptxt.replace(') (', ')\n    ('))
            out.append('')
            out.append('%s\n  %s.' % (head2, em.F(sf, 2, 200)))
            sigtext = '%s %s : %s' % (u.coq, ptxt, rty)
        self.meta.append(dict(name=u.coq, kind=kind, file=u.rel, line_start=u.ls, line_end=u.le, sha=u.sha,
                              signature=sigtext, rewrites=list(u.rw_notes)))
        return '\n'.join(out)

    def type_decls(self):
        out = []
        for en, vs in self.config.get('enums', {}).items():
            info = self.G.enums[en]
            ctors = []
            for vn, fields in info['variants']:
                if fields:
                    ctors.append('| %s_%s %s' % (en, vn, ' '.join('(%s : %s)' % (fn, coq_type(ft, en)) for fn, ft in fields)))
                else:
                    ctors.append('| %s_%s' % (en, vn))
            out.append('(* rs2v: enum %s declared by the config (abstraction of the Rust enum) *)' % en)
            out.append('Inductive %s : Type :=\n%s.' % (en, '\n'.join(ctors)))
            if not any(f for _, f in info['variants']):
                arms = ['  | %s_%s, %s_%s => true' % (en, vn, en, vn) for vn, _ in info['variants']]
                if len(info['variants']) > 1:
                    arms.append('  | _, _ => false')
                out.append('Definition %s_eqb (a b : %s) : bool :=\n  match a, b with\n%s\n  end.'
                           % (en, en, '\n'.join(arms)))
            out.append('')
        for rn in self.config.get('records', {}):
            info = self.G.records[rn]
            fields = ';\n'.join('  %s%s : %s' % (info['prefix'], fn, coq_type(ft, rn)) for fn, ft in info['fields'])
            src = self.config.get('record_sources', {}).get(rn)
            out.append('(* rs2v: record %s declared by the config%s *)'
                       % (rn, (', checked against struct in %s' % src) if src else ' (abstraction; not checked against a struct)'))
            out.append('Record %s : Type := %s {\n%s\n}.' % (rn, info['ctor'], fields))
            out.append('')
        return out

    def run(self):
        self.load_imports()
        self.declare_types()
        items = self.config.get('items', [])
        units = [self.locate(it) for it in items]
        names = {}
        for u in units:
            if u.coq in names:
                raise Rs2vError('module %s: two items would be emitted as `%s`' % (self.name, u.coq))
            names[u.coq] = u
        for u in units:
            self.prepare(u)
        # dependency order (stable w.r.t. config order)
        by_rust = {}
        for u in units:
            if u.kind in ('fn', 'method', 'const'):
                by_rust.setdefault(u.rust_name, []).append(u)
        order = []
        state = {}

        def visit(u, stack):
            st = state.get(id(u))
            if st == 2:
                return
            if st == 1:
                raise Rs2vError('module %s: cyclic dependency through %s' % (self.name, ' -> '.join(x.coq for x in stack + [u])))
            state[id(u)] = 1
            for ident in sorted(u.idents):
                for d in by_rust.get(ident, []):
                    if d is not u:
                        visit(d, stack + [u])
            state[id(u)] = 2
            order.append(u)
        for u in units:
            visit(u, [])
        chunks = [self.emit_unit(u) for u in order]
        cfg_hash = hashlib.sha256(json.dumps(self.config, sort_keys=True).encode('utf-8')).hexdigest()[:16]
        hdr = ['(* GENERATED by tools/rs2v/rs2v.py -- DO NOT EDIT.  Regenerated from the Rust sources on every run.',
               '   module: %s   config sha256: %s   features: %s   cfg_flags: %s *)'
               % (self.name, cfg_hash, ','.join(self.cfg.features and sorted(self.cfg.features)) or '-',
                  ','.join(sorted(self.cfg.flags)) or '-'),
               'From Coq Require Import ZArith Bool List String.',
               'Require Import LdkV.Prim.U64 LdkV.Prim.Rs2vLib.']
        for lib in self.imports:
            hdr.append('Require Import %s.' % lib)
        hdr.append('Open Scope Z_scope.')
        if self.config.get('hint_db'):
            hdr.append('Create HintDb %s.' % self.config['hint_db'])
        hdr.append('')
        body = self.type_decls() + ['\n\n'.join(chunks)]
        self.text = '\n'.join(hdr) + '\n' + '\n'.join(body) + '\n'
        return self.text


def translate_with_meta(config, repo='/repo', config_dir=None):
    if config_dir is None:
        config_dir = config.get('config_dir') or os.path.join(os.path.dirname(os.path.abspath(__file__)), 'configs')
    m = Module(config, repo, config_dir)
    text = m.run()
    return text, m.meta


def translate(config, repo='/repo'):
    return translate_with_meta(config, repo)[0]


def write_if_changed(path, text):
    try:
        with open(path, 'r') as f:
            if f.read() == text:
                return False
    except IOError:
        pass
    d = os.path.dirname(path)
    if d and not os.path.isdir(d):
        os.makedirs(d)
    with open(path, 'w') as f:
        f.write(text)
    return True


def main(argv=None):
    argv = list(sys.argv[1:] if argv is None else argv)
    repo = '/repo'
    meta_out = None
    while argv and argv[0].startswith('--') and argv[0] not in ('--all',):
        if argv[0] == '--repo':
            repo = argv[1]
            argv = argv[2:]
        elif argv[0] == '--meta':
            meta_out = argv[1]
            argv = argv[2:]
        else:
            sys.stderr.write('unknown option %s\n' % argv[0])
            return 64
    try:
        if argv and argv[0] == '--all':
            cdir, odir = argv[1], argv[2]
            allmeta = {}
            for fn in sorted(os.listdir(cdir)):
                if not fn.endswith('.json'):
                    continue
                with open(os.path.join(cdir, fn)) as f:
                    cfg = json.load(f)
                try:
                    text, meta = translate_with_meta(cfg, repo, os.path.abspath(cdir))
                except Rs2vError as ex:
                    raise Rs2vError('[%s] %s' % (fn, ex))
                allmeta[cfg['module']] = meta
                changed = write_if_changed(os.path.join(odir, cfg['module'] + '.v'), text)
                print('%s -> %s%s' % (fn, os.path.join(odir, cfg['module'] + '.v'), '' if changed else ' (unchanged)'))
            if meta_out:
                write_if_changed(meta_out, json.dumps(allmeta, indent=1, sort_keys=True) + '\n')
            return 0
        if len(argv) != 2:
            sys.stderr.write('usage: rs2v.py [--repo DIR] [--meta META.json] CONFIG.json OUT.v\n'
                             '       rs2v.py [--repo DIR] [--meta META.json] --all CONFIG_DIR OUT_DIR\n')
            return 64
        with open(argv[0]) as f:
            cfg = json.load(f)
        text, meta = translate_with_meta(cfg, repo, os.path.dirname(os.path.abspath(argv[0])))
        write_if_changed(argv[1], text)
        if meta_out:
            write_if_changed(meta_out, json.dumps({cfg['module']: meta}, indent=1, sort_keys=True) + '\n')
        return 0
    except Rs2vError as ex:
        print('RS2V-REFUSED: %s' % ex)
        return 2


if __name__ == '__main__':
    sys.exit(main())
