#!/usr/bin/env python3
"""rs2v -- translate a small, pure subset of Rust into Gallina (Coq 8.16).

Layout of this file
  1. errors, tokenizer
  2. cfg evaluation, item scanner (locates fn/const/struct items in a whole file)
  3. parser (Pratt) to a small AST
  4. types + unification (integer-width inference)
  5. lowering AST -> IR (CPS, so that `return` / `?` duplicate the continuation)
  6. `_safe` derivation (IR -> IR) and pretty printer (IR -> Gallina text)
  7. module driver (config handling, comments/hashes, CLI)

See README.md for the accepted subset, the abstractions (rewrites, dropped parameters, records, enums)
and the refusal behaviour.  Anything outside the subset raises Rs2vError; nothing is skipped silently.
"""
import bisect
import hashlib
import json
import os
import re
import sys

sys.setrecursionlimit(20000)


class Rs2vError(Exception):
    pass


# ---------------------------------------------------------------------------------------------
# 1. Tokenizer
# ---------------------------------------------------------------------------------------------

class Tok(object):
    __slots__ = ('k', 's', 'pos', 'end', 'line', 'suf')

    def __init__(self, k, s, pos, end, line, suf=None):
        self.k = k          # 'id' 'int' 'str' 'char' 'life' 'float' 'p' 'eof'
        self.s = s
        self.pos = pos
        self.end = end
        self.line = line
        self.suf = suf

    def __repr__(self):
        return 'Tok(%s,%r,l%d)' % (self.k, self.s, self.line)


_TOKEN_RE = re.compile(r'''
 (?P<ws>\s+)
|(?P<lcomment>//[^\n]*)
|(?P<bcomment>/\*)
|(?P<rawstr>b?r\#*")
|(?P<str>b?"(?:\\.|[^"\\])*")
|(?P<char>b?'(?:\\(?:x[0-9a-fA-F]{2}|u\{[0-9a-fA-F_]+\}|.)|[^\\'\n])')
|(?P<life>'[A-Za-z_]\w*)
|(?P<float>\d[\d_]*\.\d[\d_]*(?:[eE][+-]?\d+)?(?:f32|f64)?|\d[\d_]*(?:f32|f64))
|(?P<int>0x[0-9a-fA-F_]+|0o[0-7_]+|0b[01_]+|\d[\d_]*)(?P<suf>(?:u|i)(?:8|16|32|64|128|size))?
|(?P<id>(?:r\#)?[A-Za-z_]\w*)
|(?P<p><<=|>>=|\.\.\.|\.\.=|::|->|=>|==|!=|<=|>=|&&|\|\||\+=|-=|\*=|/=|%=|\^=|&=|\|=|<<|>>|\.\.|[-+*/%^!&|=<>@.,;:\#$?~(){}\[\]])
''', re.X | re.S)


def tokenize(text, where='<text>', line0=1):
    """Tokenize Rust source.  Comments are dropped.  line0 = line number of the first character."""
    starts = [0]
    for m in re.finditer(r'\n', text):
        starts.append(m.end())

    def line_of(p):
        return bisect.bisect_right(starts, p) - 1 + line0

    toks = []
    n = len(text)
    i = 0
    match = _TOKEN_RE.match
    while i < n:
        m = match(text, i)
        if m is None:
            raise Rs2vError('%s:%d: cannot tokenize near %r' % (where, line_of(i), text[i:i + 20]))
        kind = m.lastgroup
        if kind == 'suf':
            kind = 'int'
        j = m.end()
        if kind == 'ws' or kind == 'lcomment':
            i = j
            continue
        if kind == 'bcomment':
            depth = 1
            while depth and j < n:
                a = text.find('/*', j)
                b = text.find('*/', j)
                if b < 0:
                    raise Rs2vError('%s:%d: unterminated block comment' % (where, line_of(i)))
                if 0 <= a < b:
                    depth += 1
                    j = a + 2
                else:
                    depth -= 1
                    j = b + 2
            i = j
            continue
        if kind == 'rawstr':
            hashes = m.group('rawstr').count('#')
            close = '"' + '#' * hashes
            e = text.find(close, j)
            if e < 0:
                raise Rs2vError('%s:%d: unterminated raw string' % (where, line_of(i)))
            toks.append(Tok('str', text[i:e + len(close)], i, e + len(close), line_of(i)))
            i = e + len(close)
            continue
        if kind == 'float' and toks and toks[-1].s == '.' and toks[-1].k == 'p':
            # `x.0.1` : tuple field access, not a float
            m2 = re.compile(r'\d+').match(text, i)
            toks.append(Tok('int', m2.group(0), i, m2.end(), line_of(i)))
            i = m2.end()
            continue
        if kind == 'int':
            toks.append(Tok('int', m.group('int'), i, j, line_of(i), m.group('suf')))
        else:
            toks.append(Tok(kind, m.group(0), i, j, line_of(i)))
        i = j
    toks.append(Tok('eof', '<eof>', n, n, line_of(n)))
    return toks


_OPEN = {'(': ')', '[': ']', '{': '}'}
_CLOSE = {')', ']', '}'}


def match_delim(toks, i, where='?'):
    """toks[i] is an opening delimiter; return index of the matching closer."""
    depth = 0
    j = i
    n = len(toks)
    while j < n:
        t = toks[j]
        if t.k == 'p':
            if t.s in _OPEN:
                depth += 1
            elif t.s in _CLOSE:
                depth -= 1
                if depth == 0:
                    return j
        j += 1
    raise Rs2vError('%s:%d: unbalanced delimiter %s' % (where, toks[i].line, toks[i].s))


# ---------------------------------------------------------------------------------------------
# 2. cfg evaluation and item scanner
# ---------------------------------------------------------------------------------------------

class Cfg(object):
    """Evaluates #[cfg(...)] predicates.  `test` and `fuzzing` are false unless listed in cfg_flags;
    `debug_assertions` is true (the model is the debug build) unless 'no_debug_assertions' is listed."""

    def __init__(self, features, flags):
        self.features = set(features)
        self.flags = set(flags)

    def key(self):
        return (tuple(sorted(self.features)), tuple(sorted(self.flags)))

    def eval_tokens(self, toks, where):
        # toks: the tokens inside cfg( ... )
        pos = [0]

        def peek():
            return toks[pos[0]] if pos[0] < len(toks) else None

        def nxt():
            t = toks[pos[0]]
            pos[0] += 1
            return t

        def pred():
            t = nxt()
            if t.k != 'id':
                raise Rs2vError('%s:%d: unsupported cfg predicate token %r' % (where, t.line, t.s))
            name = t.s
            p = peek()
            if p is not None and p.s == '(':
                nxt()
                args = []
                while peek() is not None and peek().s != ')':
                    args.append(pred())
                    if peek() is not None and peek().s == ',':
                        nxt()
                if peek() is None:
                    raise Rs2vError('%s:%d: malformed cfg' % (where, t.line))
                nxt()
                if name == 'any':
                    return any(args)
                if name == 'all':
                    return all(args)
                if name == 'not':
                    if len(args) != 1:
                        raise Rs2vError('%s:%d: cfg not() needs one argument' % (where, t.line))
                    return not args[0]
                raise Rs2vError('%s:%d: unsupported cfg combinator %s' % (where, t.line, name))
            if p is not None and p.s == '=':
                nxt()
                v = nxt()
                if v.k != 'str':
                    raise Rs2vError('%s:%d: malformed cfg key=value' % (where, t.line))
                val = v.s.strip('"')
                if name == 'feature':
                    return val in self.features
                return ('%s=%s' % (name, val)) in self.flags
            if name == 'debug_assertions':
                return 'no_debug_assertions' not in self.flags
            return name in self.flags

        r = pred()
        if pos[0] != len(toks):
            raise Rs2vError('%s: trailing tokens in cfg' % where)
        return r


def read_attrs(toks, i, cfg, where):
    """Read a run of outer/inner attributes starting at toks[i]; return (next_index, active)."""
    active = True
    while toks[i].k == 'p' and toks[i].s == '#':
        j = i + 1
        if toks[j].s == '!':
            j += 1
        if toks[j].s != '[':
            break
        close = match_delim(toks, j, where)
        if toks[j + 1].k == 'id' and toks[j + 1].s == 'cfg' and toks[j + 2].s == '(':
            inner_close = match_delim(toks, j + 2, where)
            if not cfg.eval_tokens(toks[j + 3:inner_close], where):
                active = False
        i = close + 1
    return i, active


class Item(object):
    __slots__ = ('kind', 'name', 'impl', 'trait', 'in_fn', 'mods', 'active', 'pos', 'end',
                 'line_start', 'line_end')

    def __repr__(self):
        return 'Item(%s %s impl=%s in_fn=%s mods=%s active=%s l%d-%d)' % (
            self.kind, self.name, self.impl, self.in_fn, '::'.join(self.mods), self.active,
            self.line_start, self.line_end)


class FileIndex(object):
    """All fn / const / struct items of one source file, with cfg activity, found by a light scan."""

    def __init__(self, path, rel, cfg):
        self.path = path
        self.rel = rel
        with open(path, 'r', encoding='utf-8') as f:
            self.text = f.read()
        self.cfg = cfg
        self.toks = tokenize(self.text, rel)
        self.items = []
        self._scan(0, len(self.toks) - 1, dict(active=True, impl=None, trait=None, in_fn=None, mods=()))

    def _add(self, kind, name, ctx, active, first, last):
        it = Item()
        it.kind = kind
        it.name = name
        it.impl = ctx['impl']
        it.trait = ctx['trait']
        it.in_fn = ctx['in_fn']
        it.mods = ctx['mods']
        it.active = active
        it.pos = self.toks[first].pos
        it.end = self.toks[last].end
        it.line_start = self.toks[first].line
        it.line_end = self.toks[last].line
        self.items.append(it)
        return it

    def _skip_item(self, i, end):
        """Skip a generic item: up to the first `;` or balanced `{...}` at delimiter depth 0."""
        toks = self.toks
        while i < end:
            t = toks[i]
            if t.k == 'p':
                if t.s == ';':
                    return i + 1
                if t.s == '{':
                    return match_delim(toks, i, self.rel) + 1
                if t.s in _OPEN:
                    i = match_delim(toks, i, self.rel) + 1
                    continue
            i += 1
        return end

    def _impl_names(self, i, body):
        """toks[i] is `impl`/`trait`; body is index of `{`.  Return (type_name, trait_name)."""
        toks = self.toks
        hdr = toks[i + 1:body]
        # strip leading generics
        k = 0
        if hdr and hdr[0].s == '<':
            depth = 0
            while k < len(hdr):
                s = hdr[k].s
                if hdr[k].k == 'p':
                    if s == '<':
                        depth += 1
                    elif s == '>':
                        depth -= 1
                    elif s == '>>':
                        depth -= 2
                    if depth <= 0:
                        k += 1
                        break
                k += 1
        hdr = hdr[k:]
        depth = 0
        parts = [[]]
        for t in hdr:
            if t.k == 'p':
                if t.s == '<':
                    depth += 1
                elif t.s == '>':
                    depth -= 1
                elif t.s == '>>':
                    depth -= 2
            if depth == 0 and t.k == 'id' and t.s == 'for':
                parts.append([])
                continue
            if depth == 0 and t.k == 'id' and t.s == 'where':
                break
            if depth == 0 and t.k == 'id':
                parts[-1].append(t.s)
        def last_name(names):
            names = [x for x in names if x not in ('dyn', 'mut', 'const', 'unsafe', 'crate', 'super', 'self')]
            return names[-1] if names else None
        if len(parts) >= 2:
            return last_name(parts[1]), last_name(parts[0])
        return last_name(parts[0]), None

    def _scan(self, i, end, ctx):
        toks = self.toks
        cfg = self.cfg
        rel = self.rel
        while i < end:
            first = i
            i, act = read_attrs(toks, i, cfg, rel)
            active = ctx['active'] and act
            if i >= end:
                break
            t = toks[i]
            if t.k == 'p' and t.s == ';':
                i += 1
                continue
            if t.k == 'id' and t.s == 'pub':
                i += 1
                if toks[i].s == '(':
                    i = match_delim(toks, i, rel) + 1
                t = toks[i]
            while t.k == 'id' and t.s in ('default', 'unsafe', 'async', 'extern') and toks[i + 1].k in ('id', 'str'):
                i += 1
                if toks[i].k == 'str':
                    i += 1
                t = toks[i]
            if t.k != 'id':
                i = self._skip_item(i, end)
                continue
            kw = t.s
            if kw == 'const' and toks[i + 1].k == 'id' and toks[i + 1].s not in ('fn', 'unsafe', 'async', 'extern') \
                    and toks[i + 2].s == ':':
                j = i
                depth = 0
                while j < end:
                    s = toks[j]
                    if s.k == 'p':
                        if s.s in _OPEN:
                            j = match_delim(toks, j, rel)
                        elif s.s == ';':
                            break
                    j += 1
                self._add('const', toks[i + 1].s, ctx, active, first, j)
                i = j + 1
                continue
            if kw == 'const' and toks[i + 1].k == 'id' and toks[i + 1].s in ('fn', 'unsafe', 'async', 'extern'):
                i += 1
                while toks[i].s != 'fn' and i < end:
                    i += 1
                kw = 'fn'
            if kw == 'fn':
                name = toks[i + 1].s
                j = i + 2
                body = None
                while j < end:
                    s = toks[j]
                    if s.k == 'p':
                        if s.s == '{':
                            body = j
                            break
                        if s.s == ';':
                            break
                        if s.s in ('(', '['):
                            j = match_delim(toks, j, rel)
                    j += 1
                if body is None:
                    i = j + 1
                    continue
                close = match_delim(toks, body, rel)
                self._add('fn', name, ctx, active, first, close)
                self._scan_fn_body(body + 1, close, dict(ctx, active=active, in_fn=name))
                i = close + 1
                continue
            if kw in ('impl', 'trait'):
                j = i + 1
                body = None
                while j < end:
                    s = toks[j]
                    if s.k == 'p':
                        if s.s == '{':
                            body = j
                            break
                        if s.s == ';':
                            break
                        if s.s in ('(', '['):
                            j = match_delim(toks, j, rel)
                    j += 1
                if body is None:
                    i = j + 1
                    continue
                close = match_delim(toks, body, rel)
                if kw == 'impl':
                    ty, tr = self._impl_names(i, body)
                else:
                    ty, tr = toks[i + 1].s, toks[i + 1].s
                self._scan(body + 1, close, dict(ctx, active=active, impl=ty, trait=tr))
                i = close + 1
                continue
            if kw == 'mod' and toks[i + 1].k == 'id':
                if toks[i + 2].s == '{':
                    close = match_delim(toks, i + 2, rel)
                    self._scan(i + 3, close, dict(ctx, active=active, mods=ctx['mods'] + (toks[i + 1].s,)))
                    i = close + 1
                else:
                    i = self._skip_item(i, end)
                continue
            if kw == 'struct' and toks[i + 1].k == 'id':
                j = self._skip_item(i, end)
                self._add('struct', toks[i + 1].s, ctx, active, first, j - 1)
                i = j
                continue
            i = self._skip_item(i, end)

    def _scan_fn_body(self, i, end, ctx):
        """Inside a fn body only nested `const NAME: T = ...;` items are indexed."""
        toks = self.toks
        rel = self.rel
        while i < end:
            t = toks[i]
            if t.k == 'id' and t.s == 'const' and toks[i + 1].k == 'id' and toks[i + 2].s == ':' \
                    and toks[i - 1].s not in ('<', ',', '*'):
                # find attributes immediately before
                first = i
                active = ctx['active']
                k = i - 1
                while toks[k].s == ']':
                    d = 0
                    o = k
                    while o >= 0:
                        if toks[o].s == ']':
                            d += 1
                        elif toks[o].s == '[':
                            d -= 1
                            if d == 0:
                                break
                        o -= 1
                    if o >= 1 and toks[o - 1].s == '#':
                        _, act = read_attrs(toks, o - 1, self.cfg, rel)
                        active = active and act
                        first = o - 1
                        k = o - 2
                    else:
                        break
                j = i
                while j < end:
                    s = toks[j]
                    if s.k == 'p':
                        if s.s in _OPEN:
                            j = match_delim(toks, j, rel)
                        elif s.s == ';':
                            break
                    j += 1
                self._add('const', toks[i + 1].s, ctx, active, first, j)
                i = j + 1
                continue
            i += 1

    def find(self, kind, name, impl=None, in_fn=None, what=None):
        cands = [it for it in self.items if it.kind == kind and it.name == name]
        if kind in ('fn', 'const'):
            if impl is not None:
                cands = [it for it in cands if it.impl == impl]
            elif kind == 'fn':
                cands = [it for it in cands if it.impl is None]
            if in_fn is not None:
                cands = [it for it in cands if it.in_fn == in_fn]
        allc = cands
        cands = [it for it in cands if it.active]
        what = what or ('%s `%s`' % (kind, name))
        if len(cands) == 0:
            if allc:
                raise Rs2vError('%s: %s exists but no definition is active under the configured cfg' % (self.rel, what))
            raise Rs2vError('%s: %s not found%s' % (self.rel, what, (' in impl %s' % impl) if impl else ''))
        if len(cands) > 1:
            raise Rs2vError('%s: %s is ambiguous: %d active definitions (lines %s); use "impl"/"in_fn" to select'
                            % (self.rel, what, len(cands), ', '.join(str(c.line_start) for c in cands)))
        return cands[0]


# ---------------------------------------------------------------------------------------------
# 3. Parser
# ---------------------------------------------------------------------------------------------

class A(object):
    """AST node: kind + arbitrary attributes."""

    def __init__(self, k, line=0, **kw):
        self.k = k
        self.line = line
        self.__dict__.update(kw)

    def __repr__(self):
        d = dict(self.__dict__)
        d.pop('line', None)
        k = d.pop('k')
        return '%s(%s)' % (k, ', '.join('%s=%r' % kv for kv in d.items()))


BINOPS = {'||': 3, '&&': 4, '==': 5, '!=': 5, '<': 5, '>': 5, '<=': 5, '>=': 5, '|': 6, '^': 7, '&': 8,
          '<<': 9, '>>': 9, '+': 10, '-': 10, '*': 11, '/': 11, '%': 11}
ASSIGN_OPS = {'=', '+=', '-=', '*=', '/=', '%=', '^=', '&=', '|=', '<<=', '>>='}
ITEM_KWS = {'fn', 'use', 'struct', 'enum', 'impl', 'static', 'type', 'mod', 'trait', 'extern', 'union'}


class Parser(object):
    def __init__(self, toks, where, cfg):
        self.toks = toks
        self.i = 0
        self.where = where
        self.cfg = cfg

    # -- helpers
    def peek(self, o=0):
        j = self.i + o
        if j >= len(self.toks):
            return self.toks[-1]
        return self.toks[j]

    def next(self):
        t = self.toks[self.i]
        if t.k != 'eof':
            self.i += 1
        return t

    def at(self, s, o=0):
        t = self.peek(o)
        return t.s == s and t.k in ('p', 'id')

    def accept(self, s):
        if self.at(s):
            self.i += 1
            return True
        return False

    def err(self, msg, tok=None):
        tok = tok or self.peek()
        raise Rs2vError('%s:%d: %s' % (self.where, tok.line, msg))

    def expect(self, s):
        if not self.accept(s):
            self.err('expected `%s`, found `%s`' % (s, self.peek().s))

    def ident(self):
        t = self.next()
        if t.k != 'id':
            self.err('expected identifier, found `%s`' % t.s, t)
        return t.s[2:] if t.s.startswith('r#') else t.s

    def attrs(self):
        i, active = read_attrs(self.toks, self.i, self.cfg, self.where)
        self.i = i
        return active

    def close_angle(self):
        t = self.peek()
        if t.k == 'p' and t.s == '>':
            self.i += 1
        elif t.k == 'p' and t.s in ('>>', '>=', '>>='):
            t.s = t.s[1:]
        else:
            self.err('expected `>`, found `%s`' % t.s)

    # -- types
    def parse_type(self):
        t = self.peek()
        if t.k == 'p' and t.s in ('&', '&&'):
            self.next()
            if self.peek().k == 'life':
                self.next()
            self.accept('mut')
            return self.parse_type()
        if self.accept('('):
            elems = []
            trailing = False
            while not self.at(')'):
                elems.append(self.parse_type())
                trailing = self.accept(',')
                if not trailing:
                    break
            self.expect(')')
            if len(elems) == 1 and not trailing:
                return elems[0]
            return A('tuple', t.line, elems=elems)
        if self.accept('['):
            el = self.parse_type()
            if self.accept(';'):
                depth = 0
                while not (self.at(']') and depth == 0):
                    if self.peek().k == 'eof':
                        self.err('unterminated array type')
                    s = self.next().s
                    if s in _OPEN:
                        depth += 1
                    elif s in _CLOSE:
                        depth -= 1
            self.expect(']')
            return A('slice', t.line, elem=el)
        if t.k == 'id' and t.s in ('impl', 'dyn'):
            self.next()
            return A('impl', t.line, bounds=self.parse_bounds())
        if self.accept('!'):
            return A('never', t.line)
        if t.k == 'p' and t.s == '*':
            self.err('raw pointer types are not supported')
        if t.k == 'id' and t.s in ('fn', 'unsafe', 'extern', 'for'):
            self.err('function pointer / higher-ranked types are not supported')
        if t.k == 'p' and t.s == '<':
            self.err('qualified path types (`<T as Trait>::X`) are not supported')
        return self.parse_type_path()

    def parse_type_path(self):
        t = self.peek()
        segs = []
        args = []
        self.accept('::')
        while True:
            segs.append(self.ident())
            args = []
            if self.at('<') or (self.at('::') and self.at('<', 1)):
                self.accept('::')
                args = self.parse_generic_args()
            elif self.at('(') and segs[-1] in ('Fn', 'FnMut', 'FnOnce'):
                close = match_delim(self.toks, self.i, self.where)
                self.i = close + 1
                if self.accept('->'):
                    self.parse_type()
                return A('opaque', t.line, text='Fn')
            if self.at('::') and self.peek(1).k == 'id':
                self.next()
                continue
            break
        return A('tpath', t.line, segs=segs, args=args)

    def parse_generic_args(self):
        self.expect('<')
        args = []
        while not (self.peek().k == 'p' and self.peek().s in ('>', '>>', '>=', '>>=')):
            t = self.peek()
            if t.k == 'life':
                self.next()
            elif t.k == 'id' and self.at('=', 1):
                name = self.ident()
                self.next()
                args.append(A('assoc', t.line, name=name, ty=self.parse_type()))
            elif t.k in ('int', 'str', 'char') or t.s in ('{', '-'):
                if t.s == '{':
                    self.i = match_delim(self.toks, self.i, self.where) + 1
                else:
                    self.next()
                    if t.s == '-':
                        self.next()
                args.append(A('opaque', t.line, text='const-arg'))
            else:
                args.append(self.parse_type())
            if not self.accept(','):
                break
        self.close_angle()
        return args

    def parse_bounds(self):
        bounds = []
        while True:
            t = self.peek()
            if t.k == 'life':
                self.next()
            elif self.accept('?'):
                self.parse_type_path()
            elif self.accept('('):
                bounds.append(self.parse_type())
                self.expect(')')
            elif t.k == 'id' and t.s == 'for':
                self.err('higher-ranked bounds are not supported')
            else:
                bounds.append(self.parse_type_path())
            if not self.accept('+'):
                break
        return bounds

    def parse_generic_params(self):
        """<...> after fn name.  Returns dict name -> list of bound types."""
        res = {}
        if not self.at('<'):
            return res
        self.next()
        while not self.at('>'):
            t = self.peek()
            if t.k == 'life':
                self.next()
                if self.accept(':'):
                    while self.peek().k == 'life':
                        self.next()
                        if not self.accept('+'):
                            break
            elif self.accept('const'):
                self.ident()
                self.expect(':')
                self.parse_type()
            else:
                name = self.ident()
                res[name] = []
                if self.accept(':'):
                    if not (self.at(',') or self.at('>') or self.at('=')):
                        res[name] = self.parse_bounds()
                if self.accept('='):
                    self.parse_type()
            if not self.accept(','):
                break
        self.close_angle()
        return res

    def parse_where(self, generics):
        if not self.accept('where'):
            return
        while not (self.at('{') or self.at(';') or self.peek().k == 'eof'):
            t = self.peek()
            if t.k == 'life':
                self.next()
                self.expect(':')
                while self.peek().k == 'life':
                    self.next()
                    if not self.accept('+'):
                        break
            else:
                lhs = self.parse_type()
                self.expect(':')
                bounds = self.parse_bounds() if not (self.at(',') or self.at('{')) else []
                if lhs.k == 'tpath' and len(lhs.segs) == 1 and not lhs.args:
                    generics.setdefault(lhs.segs[0], []).extend(bounds)
            if not self.accept(','):
                break

    # -- patterns
    def parse_pattern(self, allow_or=True):
        t = self.peek()
        self.accept('|') if allow_or else None
        p = self.parse_pattern1()
        if allow_or and self.at('|'):
            alts = [p]
            while self.accept('|'):
                alts.append(self.parse_pattern1())
            return A('por', t.line, alts=alts)
        return p

    def parse_pattern1(self):
        t = self.peek()
        if t.k == 'p' and t.s in ('&', '&&'):
            self.next()
            self.accept('mut')
            return self.parse_pattern1()
        if t.k == 'id' and t.s == '_':
            self.next()
            return A('pwild', t.line)
        if t.k == 'id' and t.s in ('ref', 'mut'):
            self.next()
            if t.s == 'ref':
                self.accept('mut')
            name = self.ident()
            if self.at('@'):
                self.err('`@` patterns are not supported')
            return A('pbind', t.line, name=name)
        if t.k == 'id' and t.s in ('true', 'false'):
            self.next()
            return A('pbool', t.line, value=(t.s == 'true'))
        if t.k == 'int' or (t.s == '-' and self.peek(1).k == 'int'):
            neg = self.accept('-')
            it = self.next()
            v = parse_int(it.s)
            if self.at('..') or self.at('..=') or self.at('...'):
                self.err('range patterns are not supported')
            return A('pint', t.line, value=-v if neg else v)
        if t.k in ('str', 'char', 'float'):
            self.err('string/char/float literal patterns are not supported')
        if self.accept('('):
            elems = []
            trailing = False
            while not self.at(')'):
                if self.at('..'):
                    self.err('`..` in tuple patterns is not supported')
                elems.append(self.parse_pattern())
                trailing = self.accept(',')
                if not trailing:
                    break
            self.expect(')')
            if len(elems) == 1 and not trailing:
                return elems[0]
            return A('ptuple', t.line, elems=elems)
        if t.k == 'p' and t.s == '[':
            self.err('slice patterns are not supported')
        if t.k != 'id':
            self.err('unsupported pattern starting with `%s`' % t.s)
        segs = [self.ident()]
        while self.at('::'):
            self.next()
            if self.at('<'):
                self.parse_generic_args()
                continue
            segs.append(self.ident())
        if self.at('('):
            self.next()
            elems = []
            while not self.at(')'):
                if self.at('..'):
                    self.err('`..` in tuple-struct patterns is not supported')
                elems.append(self.parse_pattern())
                if not self.accept(','):
                    break
            self.expect(')')
            return A('ptstruct', t.line, segs=segs, elems=elems)
        if self.at('{'):
            self.next()
            fields = []
            rest = False
            while not self.at('}'):
                if self.accept('..'):
                    rest = True
                    break
                active = self.attrs()
                ft = self.peek()
                byref = False
                while self.peek().k == 'id' and self.peek().s in ('ref', 'mut'):
                    self.next()
                    byref = True
                fname = self.ident()
                if self.accept(':'):
                    if byref:
                        self.err('malformed struct pattern field')
                    fp = self.parse_pattern()
                else:
                    fp = A('pbind', ft.line, name=fname)
                if active:
                    fields.append((fname, fp))
                if not self.accept(','):
                    break
            self.expect('}')
            return A('pstruct', t.line, segs=segs, fields=fields, rest=rest)
        if self.at('@'):
            self.err('`@` patterns are not supported')
        if self.at('..') or self.at('..='):
            self.err('range patterns are not supported')
        if len(segs) == 1 and not segs[0][0].isupper():
            return A('pbind', t.line, name=segs[0])
        return A('ppath', t.line, segs=segs)

    # -- expressions
    def parse_expr(self, min_prec=0, no_struct=False):
        lhs = self.parse_unary(no_struct)
        while True:
            t = self.peek()
            if t.k == 'id' and t.s == 'as' and 12 >= min_prec:
                self.next()
                ty = self.parse_type()
                lhs = A('cast', t.line, e=lhs, ty=ty)
                continue
            if t.k == 'p' and t.s in BINOPS and BINOPS[t.s] >= min_prec:
                prec = BINOPS[t.s]
                self.next()
                rhs = self.parse_expr(prec + 1, no_struct)
                if prec == 5 and self.peek().k == 'p' and self.peek().s in BINOPS and BINOPS[self.peek().s] == 5:
                    self.err('chained comparison operators')
                lhs = A('binary', t.line, op=t.s, l=lhs, r=rhs)
                continue
            if t.k == 'p' and t.s in ASSIGN_OPS and 1 >= min_prec:
                self.next()
                rhs = self.parse_expr(1, no_struct)
                lhs = A('assign', t.line, op=t.s, l=lhs, r=rhs)
                continue
            if t.k == 'p' and t.s in ('..', '..=') and 2 >= min_prec:
                self.err('range expressions are not supported')
            break
        return lhs

    def parse_unary(self, no_struct):
        t = self.peek()
        if t.k == 'p' and t.s in ('-', '!', '*'):
            self.next()
            e = self.parse_unary(no_struct)
            return A('unary', t.line, op=t.s, e=e)
        if t.k == 'p' and t.s in ('&', '&&'):
            self.next()
            self.accept('mut')
            e = self.parse_unary(no_struct)
            return A('unary', t.line, op='&', e=e)
        return self.parse_postfix(self.parse_primary(no_struct), no_struct)

    def parse_postfix(self, e, no_struct):
        while True:
            t = self.peek()
            if t.k != 'p':
                break
            if t.s == '?':
                self.next()
                e = A('try', t.line, e=e)
            elif t.s == '.':
                self.next()
                n = self.peek()
                if n.k == 'int':
                    self.next()
                    e = A('field', t.line, e=e, name=n.s)
                elif n.k == 'id':
                    name = self.ident()
                    if name == 'await':
                        self.err('`.await` is not supported')
                    targs = []
                    if self.at('::') and self.at('<', 1):
                        self.next()
                        targs = self.parse_generic_args()
                    if self.at('('):
                        args = self.parse_call_args()
                        e = A('mcall', t.line, recv=e, name=name, targs=targs, args=args)
                    else:
                        e = A('field', t.line, e=e, name=name)
                else:
                    self.err('unexpected token after `.`: `%s`' % n.s)
            elif t.s == '(':
                args = self.parse_call_args()
                e = A('call', t.line, f=e, args=args)
            elif t.s == '[':
                self.next()
                idx = self.parse_expr()
                self.expect(']')
                e = A('index', t.line, e=e, idx=idx)
            else:
                break
        return e

    def parse_call_args(self):
        self.expect('(')
        args = []
        while not self.at(')'):
            args.append(self.parse_expr())
            if not self.accept(','):
                break
        self.expect(')')
        return args

    def parse_primary(self, no_struct):
        t = self.peek()
        if t.k == 'int':
            self.next()
            return A('int', t.line, value=parse_int(t.s), suf=t.suf)
        if t.k == 'float':
            self.err('floating point literals are not supported')
        if t.k == 'str':
            self.next()
            return A('str', t.line, value=t.s)
        if t.k == 'char':
            self.err('char literals are not supported')
        if t.k == 'life':
            self.err('loop labels are not supported')
        if t.k == 'p':
            if t.s == '(':
                self.next()
                elems = []
                trailing = False
                while not self.at(')'):
                    elems.append(self.parse_expr())
                    trailing = self.accept(',')
                    if not trailing:
                        break
                self.expect(')')
                if not elems:
                    return A('unit', t.line)
                if len(elems) == 1 and not trailing:
                    return A('paren', t.line, e=elems[0])
                return A('tuple', t.line, elems=elems)
            if t.s == '{':
                return self.parse_block()
            if t.s == '[':
                self.err('array literals are not supported')
            if t.s in ('|', '||'):
                return self.parse_closure()
            if t.s == '<':
                self.err('qualified paths (`<T as Trait>::f`) are not supported')
            if t.s in ('..', '..='):
                self.err('range expressions are not supported')
            self.err('unexpected token `%s` in expression' % t.s)
        if t.k != 'id':
            self.err('unexpected token `%s` in expression' % t.s)
        s = t.s
        if s in ('true', 'false'):
            self.next()
            return A('bool', t.line, value=(s == 'true'))
        if s == 'if':
            return self.parse_if()
        if s == 'match':
            return self.parse_match()
        if s == 'for':
            self.next()
            pat = self.parse_pattern()
            self.expect('in')
            it = self.parse_expr(0, True)
            body = self.parse_block()
            return A('for', t.line, pat=pat, iter=it, body=body)
        if s == 'while':
            self.err('`while` loops are not supported')
        if s == 'loop':
            self.err('`loop` is not supported')
        if s == 'unsafe':
            self.err('`unsafe` blocks are not supported')
        if s in ('async', 'await', 'yield'):
            self.err('`%s` is not supported' % s)
        if s in ('break', 'continue'):
            self.err('`%s` is not supported' % s)
        if s == 'return':
            self.next()
            n = self.peek()
            if n.k == 'p' and n.s in (';', '}', ',', ')'):
                return A('return', t.line, e=None)
            return A('return', t.line, e=self.parse_expr())
        if s == 'move':
            self.next()
            return self.parse_closure()
        if s == 'let':
            self.err('`let` in expression position (let-chains) is not supported')
        # path
        segs = [self.ident()]
        targs = []
        while self.at('::'):
            self.next()
            if self.at('<'):
                targs = self.parse_generic_args()
                continue
            segs.append(self.ident())
        if self.at('!') and not self.at('=', 1) and self.peek(1).s in _OPEN:
            self.next()
            close = match_delim(self.toks, self.i, self.where)
            inner = self.toks[self.i + 1:close]
            self.i = close + 1
            return A('macro', t.line, name=segs[-1], toks=inner)
        if self.at('{') and not no_struct and segs[-1][:1].isupper():
            n1, n2 = self.peek(1), self.peek(2)
            if (n1.s == '}' and n1.k == 'p') or (n1.k == 'id' and n2.k == 'p' and n2.s in (':', ',', '}')) \
                    or (n1.k == 'p' and n1.s in ('..', '#')):
                return self.parse_struct_lit(segs, t)
        return A('path', t.line, segs=segs, targs=targs)

    def parse_struct_lit(self, segs, t):
        self.expect('{')
        fields = []
        while not self.at('}'):
            if self.at('..'):
                self.err('struct update syntax (`..base`) is not supported')
            active = self.attrs()
            ft = self.peek()
            name = self.ident()
            if self.accept(':'):
                val = self.parse_expr()
            else:
                val = A('path', ft.line, segs=[name], targs=[])
            if active:
                fields.append((name, val))
            if not self.accept(','):
                break
        self.expect('}')
        return A('struct', t.line, segs=segs, fields=fields)

    def parse_closure(self):
        t = self.peek()
        params = []
        if self.accept('||'):
            pass
        else:
            self.expect('|')
            while not self.at('|'):
                pat = self.parse_pattern(allow_or=False)
                ty = None
                if self.accept(':'):
                    ty = self.parse_type()
                params.append((pat, ty))
                if not self.accept(','):
                    break
            self.expect('|')
        ret = None
        if self.accept('->'):
            ret = self.parse_type()
            body = self.parse_block()
        else:
            body = self.parse_expr()
        return A('closure', t.line, params=params, ret=ret, body=body)

    def parse_if(self):
        t = self.next()
        if self.accept('let'):
            pat = self.parse_pattern()
            self.expect('=')
            scrut = self.parse_expr(5, True)
            if self.at('&&') or self.at('||'):
                self.err('let-chains are not supported')
            then = self.parse_block()
            els = self.parse_else()
            return A('iflet', t.line, pat=pat, scrut=scrut, then=then, els=els)
        cond = self.parse_expr(0, True)
        then = self.parse_block()
        els = self.parse_else()
        return A('if', t.line, cond=cond, then=then, els=els)

    def parse_else(self):
        if self.accept('else'):
            if self.at('if'):
                return self.parse_if()
            return self.parse_block()
        return None

    def parse_match(self):
        t = self.next()
        scrut = self.parse_expr(0, True)
        self.expect('{')
        arms = []
        while not self.at('}'):
            active = self.attrs()
            pat = self.parse_pattern()
            guard = None
            if self.accept('if'):
                guard = self.parse_expr()
            self.expect('=>')
            if self.peek().k == 'id' and self.peek().s in ('if', 'match') or self.at('{'):
                body = self.parse_expr_stmt()
                self.accept(',')
            else:
                body = self.parse_expr()
                if not self.at('}'):
                    self.expect(',')
            if active:
                arms.append((pat, guard, body))
        self.expect('}')
        return A('match', t.line, scrut=scrut, arms=arms)

    def is_blocklike_start(self):
        t = self.peek()
        return (t.k == 'p' and t.s == '{') or (t.k == 'id' and t.s in ('if', 'match', 'for', 'while', 'loop', 'unsafe'))

    def parse_expr_stmt(self):
        """Expression in statement position: a block-like expression ends at its closing brace,
        unless it is continued by `.`/`?` (method call on the block value) or a binary operator is
        impossible there anyway."""
        if self.is_blocklike_start():
            e = self.parse_primary(False)
            if self.at('.') or self.at('?'):
                e = self.parse_postfix(e, False)
                # allow `if ... {} else {}.foo() + 1`-style continuation only through full re-parse
            e.blocklike = True
            return e
        return self.parse_expr()

    def parse_block(self):
        t = self.peek()
        self.expect('{')
        stmts = []
        tail = None
        while not self.at('}'):
            if self.peek().k == 'eof':
                self.err('unterminated block')
            if self.accept(';'):
                continue
            active = self.attrs()
            st = self.peek()
            if st.k == 'id' and st.s == 'let':
                self.next()
                pat = self.parse_pattern()
                ty = None
                if self.accept(':'):
                    ty = self.parse_type()
                init = None
                els = None
                if self.accept('='):
                    init = self.parse_expr()
                    if self.accept('else'):
                        els = self.parse_block()
                self.expect(';')
                if active:
                    stmts.append(A('let', st.line, pat=pat, ty=ty, init=init, els=els))
                continue
            if st.k == 'id' and st.s == 'const' and self.peek(1).k == 'id' and self.at(':', 2):
                self.next()
                name = self.ident()
                self.expect(':')
                ty = self.parse_type()
                self.expect('=')
                init = self.parse_expr()
                self.expect(';')
                if active:
                    stmts.append(A('let', st.line, pat=A('pbind', st.line, name=name), ty=ty, init=init, els=None,
                                   is_const=True))
                continue
            if st.k == 'id' and st.s == 'macro_rules' and self.at('!', 1):
                self.err('`macro_rules!` definitions inside a function are not supported')
            if st.k == 'id' and (st.s in ITEM_KWS or (st.s == 'pub')) and self.peek(1).k == 'id':
                self.err('nested item (`%s`) inside a function is not supported' % st.s)
            e = self.parse_expr_stmt()
            if self.accept(';'):
                if active:
                    stmts.append(A('expr', st.line, e=e))
            elif self.at('}'):
                if active:
                    tail = e
                # an inactive tail leaves the block without value
            elif getattr(e, 'blocklike', False):
                if active:
                    stmts.append(A('expr', st.line, e=e))
            else:
                self.err('expected `;` or `}` after expression, found `%s`' % self.peek().s)
        self.expect('}')
        return A('block', t.line, stmts=stmts, tail=tail)

    # -- items
    def skip_vis_and_quals(self):
        if self.accept('pub'):
            if self.at('('):
                self.i = match_delim(self.toks, self.i, self.where) + 1
        while self.peek().k == 'id' and self.peek().s in ('default', 'const', 'unsafe', 'async', 'extern') \
                and not (self.peek().s == 'const' and self.at(':', 2)):
            if self.peek().s in ('unsafe', 'async'):
                self.err('`%s fn` is not supported' % self.peek().s)
            self.next()
            if self.peek().k == 'str':
                self.next()

    def parse_fn_item(self):
        self.attrs()
        self.skip_vis_and_quals()
        t = self.peek()
        self.expect('fn')
        name = self.ident()
        generics = self.parse_generic_params()
        self.expect('(')
        params = []
        has_self = False
        while not self.at(')'):
            active = self.attrs()
            # self forms
            j = self.i
            k = j
            if self.toks[k].s in ('&', '&&'):
                k += 1
                if self.toks[k].k == 'life':
                    k += 1
            if self.toks[k].s == 'mut':
                k += 1
            if self.toks[k].k == 'id' and self.toks[k].s == 'self':
                self.i = k + 1
                if self.accept(':'):
                    self.parse_type()
                has_self = True
            else:
                pat = self.parse_pattern(allow_or=False)
                self.expect(':')
                ty = self.parse_type()
                if active:
                    params.append((pat, ty))
            if not self.accept(','):
                break
        self.expect(')')
        ret = None
        if self.accept('->'):
            ret = self.parse_type()
        self.parse_where(generics)
        body = self.parse_block()
        if self.peek().k != 'eof':
            self.err('trailing tokens after function body')
        return A('fn', t.line, name=name, generics=generics, params=params, has_self=has_self, ret=ret, body=body)

    def parse_const_item(self):
        self.attrs()
        if self.accept('pub'):
            if self.at('('):
                self.i = match_delim(self.toks, self.i, self.where) + 1
        t = self.peek()
        self.expect('const')
        name = self.ident()
        self.expect(':')
        ty = self.parse_type()
        self.expect('=')
        init = self.parse_expr()
        self.expect(';')
        if self.peek().k != 'eof':
            self.err('trailing tokens after const item')
        return A('const', t.line, name=name, ty=ty, init=init)

    def parse_struct_item(self):
        self.attrs()
        if self.accept('pub'):
            if self.at('('):
                self.i = match_delim(self.toks, self.i, self.where) + 1
        self.expect('struct')
        name = self.ident()
        self.parse_generic_params()
        gen = {}
        self.parse_where(gen)
        if not self.at('{'):
            self.err('only structs with named fields can be checked against a record')
        self.next()
        fields = []
        while not self.at('}'):
            active = self.attrs()
            if self.accept('pub'):
                if self.at('('):
                    self.i = match_delim(self.toks, self.i, self.where) + 1
            fname = self.ident()
            self.expect(':')
            fty = self.parse_type()
            if active:
                fields.append((fname, fty))
            if not self.accept(','):
                break
        self.expect('}')
        return A('structdef', 0, name=name, fields=fields)

    def parse_whole_expr(self):
        e = self.parse_expr()
        if self.peek().k != 'eof':
            self.err('trailing tokens after expression: `%s`' % self.peek().s)
        return e


def parse_int(s):
    s = s.replace('_', '')
    if s.startswith('0x'):
        return int(s[2:], 16)
    if s.startswith('0o'):
        return int(s[2:], 8)
    if s.startswith('0b'):
        return int(s[2:], 2)
    return int(s, 10)
