// Positive fixture for rs2v: constructs of the accepted subset that the LDK targets do not all exercise.
use core::cmp;

pub struct Item {
	pub outbound: bool,
	pub amount_msat: u64,
}

pub enum Mode {
	Fast,
	Slow,
	Off,
}

const LIMIT: u64 = 1_000;
#[cfg(feature = "big")]
const STEP: u32 = 10;
#[cfg(not(feature = "big"))]
const STEP: u32 = 2;

impl Item {
	fn is_small(&self, limit: u64) -> bool {
		self.amount_msat / 1000 < limit
	}
}

fn sum_amounts(items: &[Item]) -> u64 {
	items.iter().map(|i| i.amount_msat).sum::<u64>()
}

fn count_outbound(items: &[Item], limit: u64) -> usize {
	items.iter().filter(|i| i.outbound && !i.is_small(limit)).count()
}

fn sum_outbound(items: &[Item]) -> u64 {
	let total: u64 = items.iter().filter_map(|i| i.outbound.then_some(i.amount_msat)).sum();
	total
}

fn any_big(items: &Vec<Item>) -> bool {
	items.iter().any(|i| i.amount_msat > LIMIT) && !items.iter().all(|i| i.outbound) || items.len() == 0
}

fn loop_acc(xs: &[u32], start: u32) -> u32 {
	let mut acc = start;
	let mut n: u32 = 0;
	for x in xs.iter() {
		acc += *x * STEP;
		n += 1;
	}
	acc - n
}

fn loop_try(xs: &[u64]) -> Option<u64> {
	let mut acc: u64 = 0;
	for x in xs {
		acc = acc.checked_add(*x)?;
	}
	Some(acc)
}

fn shadow_guard(a: u64, c: bool, d: bool) -> u64 {
	let x = a;
	if c {
		let x = 7;
		if d {
			return x;
		}
	}
	x + 1
}

fn early(a: u32, b: u32) -> Result<u32, ()> {
	let mut r = a;
	if b == 0 {
		return Err(());
	} else if b == 1 {
		r += 1;
	} else {
		r = r / b;
	}
	debug_assert!(r <= a + 1);
	Ok(r)
}

fn iflet_stmt(o: Option<u64>, base: u64) -> u64 {
	let mut v = base;
	if let Some(x) = o {
		v = v.saturating_add(x);
	}
	let Some(y) = o else { return v; };
	cmp::max(v, y)
}

fn guards(m: &Mode, n: u32) -> u32 {
	match m {
		Mode::Fast if n > 10 => n - 10,
		Mode::Fast => 0,
		Mode::Slow | Mode::Off => n.wrapping_add(1),
	}
}

fn bits(a: u64, s: u32) -> u64 {
	let t = (a, a >> s);
	(t.0 << 1) | (t.1 & 0xff)
}

fn signed(a: u64, b: u64) -> bool {
	a as i64 + b as i64 * 1000 - 1 > b.try_into().unwrap_or(i64::MAX)
}

fn mk(a: u64) -> Item {
	Item { amount_msat: a + 1, outbound: a == 0 }
}

fn tuple_ret(i: &Item) -> (bool, u64) {
	let Item { outbound, amount_msat } = i;
	(*outbound, u64::from(7u32) + *amount_msat)
}

fn unreach(m: Mode) -> u8 {
	match m {
		Mode::Fast => 1,
		Mode::Slow => 2,
		Mode::Off => unreachable!(),
	}
}

fn unwraps(o: Option<u32>, r: Option<u32>) -> u32 {
	let a = o.unwrap();
	let b = r.map(|x| x + 1).unwrap_or(0);
	if r.is_some() { a.abs_diff(b) } else { a.div_ceil(3) }
}

fn shadow_guard2(o: Option<u64>, x: u64, c: bool) -> u64 {
	if let Some(x) = o {
		if c {
			return x;
		}
	}
	match o {
		Some(x) if c => { return x + 1; },
		_ => {},
	}
	x + 100
}
