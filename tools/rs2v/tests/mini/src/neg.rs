// Negative fixture: every function here must be REFUSED by rs2v (see tests/negative.py).
pub struct S { pub a: u32 }

fn n_macro(a: u64) -> u64 { let v = vec![a, a]; a }
fn n_while(a: u64) -> u64 { let mut x = a; while x > 10 { x -= 1; } x }
fn n_method(a: u64) -> u64 { a.rotate_left(3) }
fn n_anchor_1(a: u32) -> bool { if a > 3 { true } else { false } }
fn n_anchor_2(a: u32) -> bool { if a > 3 { false } else { true } }
fn n_infer(a: u64) -> u64 { let t = (1 + 2) as u64; a + t }
fn n_rewrite(a: u64) -> u64 { a + 1 }
impl S {
	fn n_self(&self) -> u32 { self.a + self.b }
}
fn n_fnmut(a: u64) -> u64 { let mut x = a; let mut f = |d| { x += d; }; f(1); x }
#[cfg(feature = "std")]
fn n_dup(a: u64) -> u64 { a }
#[cfg(not(feature = "nope"))]
fn n_dup(a: u64) -> u64 { a + 1 }
fn n_try_in_and(a: Option<bool>, b: bool) -> Option<bool> { Some(b && a?) }
fn n_param(a: u64, l: &Logger) -> u64 { a }
fn n_unknown_ident(a: u64) -> u64 { a + SOME_CONST }
fn n_loop_break(xs: &[u64]) -> u64 { let mut s = 0; for x in xs { if *x == 0 { break; } s += *x; } s }
fn n_float(a: u64) -> u64 { (a as f64 * 1.5) as u64 }
fn n_mixed(a: u32, b: u64) -> u64 { a + b }
fn n_any_panics(xs: &[u64], k: u64) -> bool { xs.iter().any(|x| *x + k > 5) }
#[cfg(test)]
fn n_inactive(a: u64) -> u64 { a }
