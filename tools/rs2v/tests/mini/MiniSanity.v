(** Expected values computed by hand from tests/mini/src/pos.rs. *)
From Coq Require Import ZArith Bool List String.
Require Import LdkV.Prim.U64 LdkV.Prim.Rs2vLib LdkV.Gen.Mini.
Import ListNotations.
Open Scope Z_scope.
Ltac t := vm_compute; reflexivity.
Definition its := [mkItem true 5000; mkItem false 700; mkItem true 2000000].
Example m1 : sum_amounts its = 2005700 /\ sum_amounts_safe its = true. Proof. split; t. Qed.
Example m2 : sum_amounts_safe [mkItem true (2 ^ 63); mkItem true (2 ^ 63)] = false. Proof. t. Qed.
Example m3 : count_outbound its 10 = 1 /\ count_outbound its 5 = 2. Proof. split; t. Qed.
Example m4 : sum_outbound its = 2005000. Proof. t. Qed.
Example m5 : any_big its = true /\ any_big [] = true /\ any_big [mkItem true 5000] = false. Proof. repeat split; t. Qed.
Example m6 : loop_acc [1; 2; 3] 10 = 19 /\ loop_acc_safe [1; 2; 3] 10 = true. Proof. split; t. Qed.
Example m7 : loop_acc_safe [2 ^ 31] 0 = false /\ loop_acc_safe [] 0 = true. Proof. split; t. Qed.
Example m8 : loop_try [1; 2; 3] = Some 6 /\ loop_try [2 ^ 63; 2 ^ 63; 1] = None. Proof. split; t. Qed.
Example m9 : shadow_guard 5 true true = 7 /\ shadow_guard 5 true false = 6 /\ shadow_guard 5 false true = 6.
Proof. repeat split; t. Qed.
Example m10 : early 10 0 = RErr "()"%string /\ early 10 1 = ROk 11 /\ early 10 3 = ROk 3. Proof. repeat split; t. Qed.
Example m11 : early_safe 4294967295 1 = false /\ early_safe 4294967295 0 = true. Proof. split; t. Qed.
Example m12 : iflet_stmt (Some 5) 3 = 8 /\ iflet_stmt None 3 = 3 /\ iflet_stmt (Some (2 ^ 64 - 1)) 3 = 2 ^ 64 - 1.
Proof. repeat split; t. Qed.
Example m13 : guards Mode_Fast 15 = 5 /\ guards Mode_Fast 10 = 0 /\ guards Mode_Off 4294967295 = 0 /\ guards Mode_Slow 1 = 2.
Proof. repeat split; t. Qed.
Example m14 : bits (2 ^ 63 + 5) 0 = 10 + 5 /\ bits 768 8 = 1536 + 3. Proof. split; t. Qed.
Example m15 : bits_safe 1 64 = false /\ bits_safe 1 63 = true. Proof. split; t. Qed.
Example m16 : signed 10 0 = true /\ signed 0 1 = true /\ signed 1 0 = false. Proof. repeat split; t. Qed.
Example m17 : signed_safe (2 ^ 63) 0 = false (* a as i64 = i64::MIN, then - 1 underflows *). Proof. t. Qed.
Example m18 : mk 0 = mkItem true 1 /\ mk 4 = mkItem false 5. Proof. split; t. Qed.
Example m19 : tuple_ret (mkItem true 3) = (true, 10). Proof. t. Qed.
Example m20 : unreach Mode_Slow = 2 /\ unreach_safe Mode_Off = false /\ unreach_safe Mode_Fast = true. Proof. repeat split; t. Qed.
Example m21 : unwraps (Some 10) (Some 3) = 6 /\ unwraps (Some 10) None = 4 /\ unwraps_safe None None = false
              /\ unwraps_safe (Some 1) (Some 4294967295) = false. Proof. repeat split; t. Qed.
Example m22 : STEP = 2 /\ is_small (mkItem true 5999) 6 = true /\ is_small (mkItem true 6000) 6 = false. Proof. repeat split; t. Qed.
Example m23 : shadow_guard2 (Some 5) 1 true = 5 /\ shadow_guard2 (Some 5) 1 false = 101 /\ shadow_guard2 None 1 true = 101.
Proof. repeat split; t. Qed.
