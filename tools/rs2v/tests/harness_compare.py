#!/usr/bin/env python3
"""Differential check of generated Gallina against the real Rust code.

Feeds boundary-heavy inputs to the harness binary h_cltv (which calls the real
`check_incoming_htlc_cltv`, `MppPart::check_onchain_timeout` and
`OnchainEventEntry::confirmation_threshold`, printing PANIC when the debug build panics) and checks,
inside Coq with vm_compute, that  (a) f_safe = false exactly on the PANIC lines and (b) the value of f
equals the printed result on all other lines.

usage: harness_compare.py SCRATCH_ROOT [H_CLTV_BINARY]
  SCRATCH_ROOT must contain compiled Prim/ and Gen/CltvChecks.vo (logical root LdkV).
exit 0 = all agree, 1 = disagreement, 3 = harness binary missing (skipped).
"""
import os
import random
import subprocess
import sys

U32 = 2 ** 32 - 1


def inputs():
    rnd = random.Random(20260925)
    edge32 = [0, 1, 2, 3, 38, 39, 40, 41, 42, 43, 100, 2015, 2016, 2017, 800000, U32 - 2017, U32 - 2016, U32 - 40,
              U32 - 39, U32 - 38, U32 - 3, U32 - 1, U32]
    edge16 = [0, 1, 6, 39, 40, 48, 144, 2016, 65534, 65535]
    tests = []
    for _ in range(400):
        h = rnd.choice(edge32 + [rnd.randrange(0, U32 + 1)])
        base = rnd.choice([h, h, rnd.choice(edge32)])
        def near(x):
            return max(0, min(U32, x + rnd.choice([-2017, -2016, -42, -40, -39, -38, -4, -3, -2, -1, 0, 1, 2, 3, 4, 38, 39,
                                                  40, 41, 42, 2015, 2016, 2017, 2018, rnd.randrange(-5000, 5000)])))
        out = near(base)
        exp = near(out + rnd.choice([0, 40, 48, 144]))
        delta = rnd.choice(edge16 + [rnd.randrange(0, 65536)])
        tests.append(('fwd', [h, out, exp, delta]))
    for _ in range(200):
        e = rnd.choice(edge32 + [rnd.randrange(0, U32 + 1)])
        h = max(0, min(U32, e + rnd.choice([-40, -39, -38, 0, 38, 39, 40, rnd.randrange(-100, 100)])))
        tests.append(('mpp', [e, h]))
    for _ in range(300):
        h = rnd.choice(edge32 + [rnd.randrange(0, U32 + 1)])
        kind = rnd.choice([0, 1, 2])
        csv = rnd.choice([-1] + edge16 + [rnd.randrange(0, 65536)])
        tests.append(('thr', [h, kind, csv]))
    return tests


def coq_check(kind, args, res):
    a = ' '.join(str(x) if x >= 0 else '(%d)' % x for x in args)
    if kind == 'fwd':
        f, fs = 'check_incoming_htlc_cltv ' + a, 'check_incoming_htlc_cltv_safe ' + a
        if res == 'PANIC':
            return 'negb (%s)' % fs
        if res == 'Ok':
            return '(%s) && match %s with ROk _ => true | RErr _ => false end' % (fs, f)
        assert res.startswith('Err ')
        return '(%s) && match %s with ROk _ => false | RErr s => String.eqb s "%s"%%string end' % (fs, f, res[4:])
    if kind == 'mpp':
        f, fs = 'check_onchain_timeout ' + a, 'check_onchain_timeout_safe ' + a
        if res == 'PANIC':
            return 'negb (%s)' % fs
        return '(%s) && Bool.eqb (%s) %s' % (fs, f, res)
    if kind == 'thr':
        h, k, csv = args
        ek = 'OnchainEventKind_SpendConfirmation' if k in (1, 2) else 'OnchainEventKind_Other'
        if k == 0:
            opt = 'None'       # the harness ignores csv for kind 0
        else:
            opt = 'None' if csv < 0 else '(Some %d)' % csv
        a2 = '%d %s 0 %s' % (h, ek, opt)
        f, fs = 'confirmation_threshold ' + a2, 'confirmation_threshold_safe ' + a2
        if res == 'PANIC':
            return 'negb (%s)' % fs
        return '(%s) && (%s =? %s)' % (fs, f, res)
    raise ValueError(kind)


def main():
    root = sys.argv[1]
    binary = sys.argv[2] if len(sys.argv) > 2 else '/verif/.cache/target/debug/h_cltv'
    if not os.path.isfile(binary):
        print('harness_compare: %s not found, SKIPPED' % binary)
        return 3
    tests = inputs()
    stdin = ''.join('%s %s\n' % (k, ' '.join(str(x) for x in a)) for k, a in tests)
    out = subprocess.run([binary], input=stdin, capture_output=True, text=True).stdout.split('\n')
    out = [l.strip() for l in out if l.strip() != '']
    if len(out) != len(tests):
        print('harness_compare: harness printed %d lines for %d inputs' % (len(out), len(tests)))
        return 1
    lines = ['From Coq Require Import ZArith Bool List String.',
             'Require Import LdkV.Prim.U64 LdkV.Prim.Rs2vLib LdkV.Gen.Consts LdkV.Gen.CltvChecks.',
             'Import ListNotations. Open Scope Z_scope.',
             'Definition results : list (Z * bool) := [']
    rows = []
    for i, ((k, a), r) in enumerate(zip(tests, out)):
        rows.append('  (%d, %s)' % (i, coq_check(k, a, r)))
    lines.append(';\n'.join(rows))
    lines.append('].')
    lines.append('Eval vm_compute in (List.map fst (List.filter (fun p => negb (snd p)) results)).')
    path = os.path.join(root, 'HarnessCompare.v')
    with open(path, 'w') as f:
        f.write('\n'.join(lines) + '\n')
    p = subprocess.run(['coqc', '-Q', root, 'LdkV', path], capture_output=True, text=True)
    if p.returncode != 0:
        print(p.stdout + p.stderr)
        return 1
    txt = ' '.join(p.stdout.split())
    npanic = sum(1 for r in out if r == 'PANIC')
    if '= [] : list Z' in txt or '= nil : list Z' in txt:
        print('harness_compare: %d inputs (%d PANIC lines) agree with the real code' % (len(tests), npanic))
        return 0
    print('harness_compare: DISAGREEMENT on input indices: ' + txt)
    for i, ((k, a), r) in enumerate(zip(tests, out)):
        if (' %d;' % i) in txt or ('[%d;' % i) in txt or ('%d]' % i) in txt:
            print('  #%d %s %s -> %s' % (i, k, a, r))
    return 1


if __name__ == '__main__':
    sys.exit(main())
