#!/usr/bin/env python3
"""Negative tests: rs2v must refuse each of these with an Rs2vError mentioning the construct."""
import os
import sys

HERE = os.path.dirname(os.path.abspath(__file__))
sys.path.insert(0, os.path.dirname(HERE))
import rs2v  # noqa: E402

REPO = os.path.join(HERE, 'mini')
F = 'src/neg.rs'


def cfg(items, **kw):
    c = {"module": "Neg", "imports": [], "features": ["std"], "cfg_flags": [],
         "records": {"S": {"a": "u32"}}, "items": items}
    c.update(kw)
    return c


CASES = [
    ("unsupported macro", cfg([{"kind": "fn", "file": F, "name": "n_macro"}]), "unsupported macro `vec!`"),
    ("while loop", cfg([{"kind": "fn", "file": F, "name": "n_while"}]), "`while` loops are not supported"),
    ("unknown method", cfg([{"kind": "fn", "file": F, "name": "n_method"}]), "unsupported integer method `.rotate_left\\(\\)`"),
    ("ambiguous anchor", cfg([{"kind": "expr", "file": F, "name": "x", "select": "if_cond", "anchor": "if a > 3",
                               "params": [["a", "u32"]]}]), "matches 2 times"),
    ("anchor matching nothing", cfg([{"kind": "expr", "file": F, "name": "x", "select": "if_cond", "anchor": "if a > 33",
                                      "params": [["a", "u32"]]}]), "matches 0 times"),
    ("width cannot be inferred", cfg([{"kind": "fn", "file": F, "name": "n_infer"}]), "cannot infer"),
    ("rewrite matches nothing", cfg([{"kind": "fn", "file": F, "name": "n_rewrite", "rewrites": [["a \\+ 2", "a"]]}]),
     "matches nothing"),
    ("unknown self field", cfg([{"kind": "method", "file": F, "impl": "S", "name": "n_self", "self_fields": {"a": "u32"}}]),
     "`self.b` is not listed"),
    ("FnMut closure", cfg([{"kind": "fn", "file": F, "name": "n_fnmut"}]), "FnMut"),
    ("two active definitions", cfg([{"kind": "fn", "file": F, "name": "n_dup"}]), "ambiguous: 2 active definitions"),
    ("no active definition", cfg([{"kind": "fn", "file": F, "name": "n_inactive"}]), "no definition is active"),
    ("`?` inside && operand", cfg([{"kind": "fn", "file": F, "name": "n_try_in_and"}]), "`return`/`\\?` in a position"),
    ("unsupported parameter type", cfg([{"kind": "fn", "file": F, "name": "n_param"}]), "parameter `l` has unsupported type"),
    ("unknown identifier", cfg([{"kind": "fn", "file": F, "name": "n_unknown_ident"}]), "unknown identifier `SOME_CONST`"),
    ("break in loop", cfg([{"kind": "fn", "file": F, "name": "n_loop_break"}]), "`break` is not supported"),
    ("floats", cfg([{"kind": "fn", "file": F, "name": "n_float"}]), "only casts to integer types|floating point"),
    ("mixed integer types", cfg([{"kind": "fn", "file": F, "name": "n_mixed"}]), "type mismatch: u32 vs u64"),
    ("any() with panicking predicate", cfg([{"kind": "fn", "file": F, "name": "n_any_panics"}]), "predicate that can panic"),
    ("missing function", cfg([{"kind": "fn", "file": F, "name": "does_not_exist"}]), "not found"),
    ("stale record", cfg([{"kind": "fn", "file": F, "name": "n_rewrite"}], records={"S": {"a": "u64"}},
                         record_sources={"S": F}), "field `a` has type u32, config says u64"),
]


def main():
    import re
    bad = 0
    for name, config, expect in CASES:
        try:
            rs2v.translate(config, repo=REPO)
        except rs2v.Rs2vError as ex:
            if re.search(expect, str(ex)):
                print('refused ok   : %-32s %s' % (name, str(ex)[:110]))
            else:
                bad += 1
                print('WRONG MESSAGE: %-32s %s   (expected /%s/)' % (name, ex, expect))
            continue
        except Exception as ex:  # a crash is not a refusal
            bad += 1
            print('CRASH        : %-32s %r' % (name, ex))
            continue
        bad += 1
        print('NOT REFUSED  : %s' % name)
    # CLI contract: exit code 2 and RS2V-REFUSED
    import json
    import subprocess
    import tempfile
    with tempfile.TemporaryDirectory() as d:
        p = os.path.join(d, 'c.json')
        with open(p, 'w') as f:
            json.dump(CASES[0][1], f)
        r = subprocess.run([sys.executable, os.path.join(os.path.dirname(HERE), 'rs2v.py'), '--repo', REPO, p,
                            os.path.join(d, 'o.v')], capture_output=True, text=True)
        if r.returncode != 2 or not r.stdout.startswith('RS2V-REFUSED: ') or os.path.exists(os.path.join(d, 'o.v')):
            bad += 1
            print('CLI contract violated: rc=%d out=%r' % (r.returncode, r.stdout[:80]))
        else:
            print('cli ok       : exit 2, RS2V-REFUSED, no output file')
    print('negative tests: %d cases, %d failures' % (len(CASES) + 1, bad))
    return 1 if bad else 0


if __name__ == '__main__':
    sys.exit(main())
