(** Numeric sanity tests for Gen/TxBuilder.v; expected values computed by hand from
    lightning/src/sign/tx_builder.rs. *)
From Coq Require Import ZArith Bool List String.
Require Import LdkV.Prim.U64 LdkV.Prim.Rs2vLib.
Require Import LdkV.Gen.Consts LdkV.Gen.ChanUtilsFees LdkV.Gen.TxBuilder.
Import ListNotations.
Open Scope Z_scope.
Ltac t := vm_compute; reflexivity.
Definition legacy := mkChannelTypeFeatures false false.
Definition anchors := mkChannelTypeFeatures true false.

Example d1 : is_dust (mkHTLCAmountDirection true 1208000) true 1000 546 legacy = true
          /\ is_dust (mkHTLCAmountDirection true 1209000) true 1000 546 legacy = false
          /\ is_dust (mkHTLCAmountDirection false 1248999) true 1000 546 legacy = true
          /\ is_dust (mkHTLCAmountDirection false 1249000) true 1000 546 legacy = false
          /\ is_dust (mkHTLCAmountDirection false 546000) true 1000 546 anchors = false.
Proof. repeat split; t. Qed.
Example d2 : get_dust_buffer_feerate 253 = 2783 /\ get_dust_buffer_feerate 20000 = 25000
          /\ get_dust_buffer_feerate 4294967295 = 4294967295. Proof. repeat split; t. Qed.
Example d3 : total_anchors_sat anchors = 660 /\ total_anchors_sat legacy = 0. Proof. split; t. Qed.
Example d4 : checked_sub_from_funder true 100 50 30 = ROk (70, 50)
          /\ checked_sub_from_funder true 10 50 30 = RErr "()"%string
          /\ checked_sub_from_funder false 100 50 60 = RErr "()"%string
          /\ checked_sub_from_funder false 100 50 20 = ROk (100, 30). Proof. repeat split; t. Qed.
Example d5 : saturating_sub_from_funder false 100 50 60 = (100, 0). Proof. t. Qed.
Definition hs := [mkHTLCAmountDirection true 2000000; mkHTLCAmountDirection false 1000000; mkHTLCAmountDirection false 5000000].
Example d6 : commit_plus_htlc_tx_fees_msat true hs 1000 1000 546 legacy = (2434000, 3309000). Proof. t. Qed.
Example d7 : commit_plus_htlc_tx_fees_msat_safe true hs 1000 1000 546 legacy = true. Proof. t. Qed.
Example d8 : has_output true 1000000 0 1000 0 546 legacy = false /\ has_output true 2000000 0 1000 0 546 legacy = true
          /\ has_output true 1000000 0 1000 1 546 legacy = true. Proof. repeat split; t. Qed.
Example d9 : get_v2_channel_reserve_satoshis 100000 546 false = ROk 1000
          /\ get_v2_channel_reserve_satoshis 100 546 false = RErr "()"%string
          /\ get_v2_channel_reserve_satoshis 10000 546 false = ROk 546
          /\ get_v2_channel_reserve_satoshis 10000 546 true = ROk 0. Proof. repeat split; t. Qed.
Example d10 : get_next_commitment_stats true true 1000000 600000000 [] 0 1000 false None 546 legacy
              = ROk (mkNextCommitmentStats 599276000 400000000 0). Proof. t. Qed.
Example d11 : get_next_commitment_stats true true 1000000 1000000001 [] 0 1000 false None 546 legacy = RErr "()"%string.
Proof. t. Qed.
Example d12 : (* buffer feerate 3530: limits 2886 (offered) and 3027 (accepted) sat *)
  get_dust_exposure_stats true hs 1000 None 546 legacy = (3000000, None). Proof. t. Qed.
Definition cst := mkChannelConstraints 546 10000 546 10000 1000 500000000 483.
Example d13 : get_next_splice_out_maximum_sat true 1000000 600000000 400000000 0 0 1000 2000 cst legacy = 594150. Proof. t. Qed.
Example d14 : get_next_splice_out_maximum_sat_safe true 1000000 600000000 400000000 0 0 1000 2000 cst legacy = true. Proof. t. Qed.
Example d15 : adjust_capacity_for_holder_reserved_fee 590000000 0 0 1000 2000 cst legacy = 587864000. Proof. t. Qed.
Example d16 : adjust_min_max_htlc_for_dust_exposure [] 1000 None 5000000 cst legacy 587864000 = (1000, 587864000, 0). Proof. t. Qed.
Example d17 : get_available_balances true 1000000 600000000 [] 1000 None 5000000 cst legacy
              = mkAvailableBalances 390000000 590000000 500000000 1000 0 594150. Proof. t. Qed.
Example d18 : get_available_balances_safe true 1000000 600000000 [] 1000 None 5000000 cst legacy = true
           /\ get_available_balances_safe true 1000000 1000000001 [] 1000 None 5000000 cst legacy = false.
Proof. split; t. Qed.
Example d19 : get_channel_stats true true 1000000 600000000 [] 0 1000 false None 5000000 cst legacy
              = ROk (mkChannelStats (mkNextCommitmentStats 599276000 400000000 0)
                                    (mkAvailableBalances 390000000 590000000 500000000 1000 0 594150)). Proof. t. Qed.
