(** Numeric sanity tests for the rs2v output: every expected value below was computed by hand from the
    Rust source (not from the Coq output).  Compiled by selftest.sh after regeneration; a mismatch is a
    compile error.  (check_incoming_htlc_cltv / check_onchain_timeout / confirmation_threshold are
    additionally compared against the real code by tests/harness_compare.py.) *)
From Coq Require Import ZArith Bool List String.
Require Import LdkV.Prim.U64 LdkV.Prim.Rs2vLib.
Require Import LdkV.Gen.Consts LdkV.Gen.CltvChecks LdkV.Gen.ChanUtilsFees LdkV.Gen.Package
               LdkV.Gen.RouterFees LdkV.Gen.CfgChecks.
Import ListNotations.
Open Scope Z_scope.

Ltac t := vm_compute; reflexivity.

(** Consts *)
Example c1 : CLTV_CLAIM_BUFFER = 36. Proof. t. Qed.
Example c2 : HTLC_FAIL_BACK_BUFFER = 39. Proof. t. Qed.
Example c3 : MIN_FINAL_CLTV_EXPIRY_DELTA = 42. Proof. t. Qed.
Example c4 : MIN_CLTV_EXPIRY_DELTA = 48. Proof. t. Qed.
Example c5 : CLTV_FAR_FAR_AWAY = 2016. Proof. t. Qed.
Example c6 : MPP_TIMEOUT_TICKS = 1. Proof. t. Qed.   (* _test_utils reading *)
Example c7 : _CHECK_CLTV_EXPIRY_SANITY_holds = true. Proof. t. Qed.
Example c8 : _CHECK_COUNTERPARTY_REALISTIC_holds = true. Proof. t. Qed.
Example c9 : _CHECK_CLTV_EXPIRY_OFFCHAIN_holds = true. Proof. t. Qed.
Example c10 : _CHECK_MAX_BLOCKS_FOR_CONF_GT_PINNABLE_holds = true. Proof. t. Qed.
Example c11 : WEIGHT_REVOKED_OFFERED_HTLC_ANCHORS = 246. Proof. t. Qed.
Example c12 : MAX_VALUE_MSAT = 2100000000000000000. Proof. t. Qed.
Example c13 : UNKNOWN_CHANNEL_CAPACITY_MSAT = 250000000. Proof. t. Qed.

(** CltvChecks *)
Example k1 : check_incoming_htlc_cltv 100 200 300 40 = ROk tt. Proof. t. Qed.
Example k2 : check_incoming_htlc_cltv 100 200 239 40 = RErr "IncorrectCLTVExpiry"%string. Proof. t. Qed.
Example k3 : check_incoming_htlc_cltv 100 90 139 40 = RErr "CLTVExpiryTooSoon"%string. Proof. t. Qed.
Example k4 : check_incoming_htlc_cltv 100 200 2117 40 = RErr "CLTVExpiryTooFar"%string. Proof. t. Qed.
Example k5 : check_incoming_htlc_cltv 100 103 300 40 = RErr "OutgoingCLTVTooSoon"%string. Proof. t. Qed.
Example k6 : check_incoming_htlc_cltv_safe 4294967290 1 4294967295 0 = false. Proof. t. Qed.
Example k7 : check_onchain_timeout 139 100 = true /\ check_onchain_timeout 140 100 = false. Proof. split; t. Qed.
Example k8 : check_onchain_timeout_safe 38 100 = false /\ check_onchain_timeout_safe 39 0 = true. Proof. split; t. Qed.
Example k9 : final_hop_cltv_too_soon 140 100 = true /\ final_hop_cltv_too_soon 141 100 = false. Proof. split; t. Qed.
Example k10 : final_hop_cltv_too_soon_safe 0 4294967255 = true /\ final_hop_cltv_too_soon_safe 0 4294967256 = false.
Proof. split; t. Qed.
Example k11 : should_broadcast_htlc_timeout true 97 100 false = true /\ should_broadcast_htlc_timeout true 98 100 true = false.
Proof. split; t. Qed.
Example k12 : should_broadcast_htlc_timeout false 136 100 true = true /\ should_broadcast_htlc_timeout false 136 100 false = false
              /\ should_broadcast_htlc_timeout false 137 100 true = false.
Proof. repeat split; t. Qed.
Example k13 : confirmation_threshold 100 OnchainEventKind_Other 0 None = 105. Proof. t. Qed.
Example k14 : confirmation_threshold 100 OnchainEventKind_SpendConfirmation 0 (Some 144) = 243. Proof. t. Qed.
Example k15 : confirmation_threshold 100 OnchainEventKind_MaturingDelayedPaymentOutput 3 None = 105. Proof. t. Qed.
Example k16 : confirmation_threshold 100 OnchainEventKind_MaturingDelayedPaymentOutput 1008 (Some 5) = 1107. Proof. t. Qed.
Example k17 : confirmation_threshold_safe 4294967295 OnchainEventKind_Other 0 None = false. Proof. t. Qed.

(** ChanUtilsFees *)
Definition legacy := mkChannelTypeFeatures false false.
Definition anchors := mkChannelTypeFeatures true false.
Definition zfc := mkChannelTypeFeatures false true.
Example u1 : htlc_success_tx_weight legacy = 703 /\ htlc_success_tx_weight anchors = 706. Proof. split; t. Qed.
Example u2 : htlc_timeout_tx_weight legacy = 663 /\ htlc_timeout_tx_weight anchors = 666. Proof. split; t. Qed.
Example u3 : commitment_tx_base_weight legacy = 724 /\ commitment_tx_base_weight anchors = 1124. Proof. split; t. Qed.
Example u4 : commit_tx_fee_sat 253 0 legacy = 183. Proof. t. Qed.
Example u5 : commit_tx_fee_sat 1000 2 legacy = 1068. Proof. t. Qed.
Example u6 : commit_tx_fee_sat 2500 3 anchors = 4100. Proof. t. Qed.
Example u7 : commit_tx_fee_sat_safe 4294967295 (2 ^ 63) legacy = false /\ commit_tx_fee_sat_safe 4294967295 1000 legacy = true.
Proof. split; t. Qed.
Example u8 : second_stage_tx_fees_sat legacy 1000 = (703, 663). Proof. t. Qed.
Example u9 : second_stage_tx_fees_sat legacy 253 = (177, 167). Proof. t. Qed.
Example u10 : second_stage_tx_fees_sat anchors 5000 = (0, 0) /\ second_stage_tx_fees_sat zfc 5000 = (0, 0). Proof. split; t. Qed.
Example u11 : htlc_tx_fees_sat 1000 2 3 legacy = 3395. Proof. t. Qed.
Example u12 : htlc_tx_fees_sat 1000 2 3 anchors = 0. Proof. t. Qed.

(** Package *)
Example p1 : compute_feerate_sat_per_1000_weight 1000 500 = 2000. Proof. t. Qed.
Example p2 : compute_feerate_sat_per_1000_weight (2 ^ 40) 1 = 4294967295. Proof. t. Qed.
Example p3 : compute_feerate_sat_per_1000_weight_safe 1000 0 = false
             /\ compute_feerate_sat_per_1000_weight_safe (2 ^ 60) 1 = false
             /\ compute_feerate_sat_per_1000_weight_safe 1000 1 = true. Proof. repeat split; t. Qed.
Example p4 : fee_for_weight 253 1000 = 253 /\ fee_for_weight 253 1001 = 254. Proof. split; t. Qed.
Example p5 : compute_fee_from_spent_amounts 100000 1000 5000 = Some (5000, 5000). Proof. t. Qed.
Example p6 : compute_fee_from_spent_amounts 400 1000 5000 = None. Proof. t. Qed.
Example p7 : feerate_bump 1000 100000 546 1000 FeerateStrategy_ForceBump 5000 = Some (5000, 5000). Proof. t. Qed.
Example p8 : feerate_bump 1000 100000 546 1000 FeerateStrategy_ForceBump 500 = Some (1253, 1253). Proof. t. Qed.
Example p9 : feerate_bump 1000 100000 546 1000 FeerateStrategy_RetryPrevious 5000 = Some (1000, 1000). Proof. t. Qed.
Example p10 : feerate_bump 1000 100000 546 1000 FeerateStrategy_ForceBump 100 = None. Proof. t. Qed.
Example p11 : feerate_bump 1000 100000 546 1000 FeerateStrategy_HighestOfPreviousOrNew 500 = Some (1000, 1000). Proof. t. Qed.
Example p12 : feerate_bump 1000 6000 5000 1000 FeerateStrategy_ForceBump 5000 = None. Proof. t. Qed.
Example p13 : feerate_bump_safe 1000 100000 546 1000 FeerateStrategy_ForceBump 500 = true
              /\ feerate_bump_safe 0 100000 546 1000 FeerateStrategy_ForceBump 500 = false
              /\ feerate_bump_safe 4 100000 546 (2 ^ 63) FeerateStrategy_ForceBump 500 = false. Proof. repeat split; t. Qed.
Example p14 : timer_for_target_conf 100 103 = 101 /\ timer_for_target_conf 100 104 = 103
              /\ timer_for_target_conf 100 115 = 103 /\ timer_for_target_conf 100 116 = 115. Proof. repeat split; t. Qed.

(** RouterFees *)
Example r1 : compute_fees 1000000 (mkRoutingFees 1000 100) = Some 1100. Proof. t. Qed.
Example r2 : compute_fees (2 ^ 63) (mkRoutingFees 1000 2) = None. Proof. t. Qed.
Example r3 : compute_fees (2 ^ 64 - 1) (mkRoutingFees 4294967295 1) = Some (18446744073709 + 4294967295). Proof. t. Qed.
Example r4 : compute_fees_saturating 1000000 (mkRoutingFees 1000 100) = 1100. Proof. t. Qed.
Example r5 : compute_fees_saturating (2 ^ 63) (mkRoutingFees 1000 2) = 2 ^ 64 - 1. Proof. t. Qed.
Example r6 : max_htlc_from_capacity (EffectiveCapacity_Total 1000 400) 1 = 400. Proof. t. Qed.
Example r7 : max_htlc_from_capacity (EffectiveCapacity_AdvertisedMaxHTLC 1000) 2 = 250. Proof. t. Qed.
Example r8 : max_htlc_from_capacity (EffectiveCapacity_AdvertisedMaxHTLC 1000) 64 = 0. Proof. t. Qed.
Example r9 : max_htlc_from_capacity EffectiveCapacity_Infinite 3 = 18446744073709551615. Proof. t. Qed.
Example r10 : max_htlc_from_capacity EffectiveCapacity_Unknown 3 = 250000000. Proof. t. Qed.

(** CfgChecks *)
Definition cc := mkChannelConfig 100 1000 72.
Example g1 : internal_htlc_satisfies_config 1001100 200 1000000 100 cc = ROk tt. Proof. t. Qed.
Example g2 : internal_htlc_satisfies_config 1001099 200 1000000 100 cc = RErr "FeeInsufficient"%string. Proof. t. Qed.
Example g3 : internal_htlc_satisfies_config 1001100 171 1000000 100 cc = RErr "IncorrectCLTVExpiry"%string. Proof. t. Qed.
Example g4 : internal_htlc_satisfies_config 5 200 (2 ^ 63) 100 cc = RErr "FeeInsufficient"%string
             /\ internal_htlc_satisfies_config_safe 5 200 (2 ^ 63) 100 cc = true. Proof. split; t. Qed.
Example g5 : amt_to_forward_msat 2 (mkPaymentRelay 0 4294967295 1) = None. Proof. t. Qed.
Example g6 : amt_to_forward_msat 1000000 (mkPaymentRelay 0 1500000 0) = Some 400000. Proof. t. Qed.
Example g7 : amt_to_forward_msat 10100 (mkPaymentRelay 0 10000 100) = Some 9901. Proof. t. Qed.
Example g8 : amt_to_forward_msat 50 (mkPaymentRelay 0 10000 100) = None. Proof. t. Qed.
Example g9 : amt_to_forward_msat_safe 10100 (mkPaymentRelay 0 10000 100) = true
             /\ amt_to_forward_msat_safe (2 ^ 64 - 1) (mkPaymentRelay 0 4294967295 0) = true. Proof. split; t. Qed.
Example g10 : compute_aggregated_base_prop_fee [] = ROk (0, 0). Proof. t. Qed.
Example g11 : compute_aggregated_base_prop_fee [mkRoutingFees 100 1000] = ROk (100, 1000). Proof. t. Qed.
Example g12 : compute_aggregated_base_prop_fee [mkRoutingFees 100 1000; mkRoutingFees 200 2000] = ROk (301, 3002). Proof. t. Qed.
Example g13 : compute_aggregated_base_prop_fee_safe [mkRoutingFees 100 1000; mkRoutingFees 200 2000] = true. Proof. t. Qed.
