#!/bin/sh
# rs2v self test: regenerate every config into a scratch tree, compile Prim + Gen with coqc, run the
# numeric sanity tests, the differential test against the real code, the fixture tests and the
# negative (refusal) tests.  Leaves nothing behind unless KEEP=1.
set -eu
HERE=$(cd "$(dirname "$0")" && pwd)
COQROOT=${COQROOT:-/verif/coq}
REPO=${REPO:-/repo}
S=${SCRATCH:-/tmp/rs2v-scratch}
rm -rf "$S"
mkdir -p "$S/Prim" "$S/Gen"
cp "$COQROOT/Prim/U64.v" "$COQROOT/Prim/Rs2vLib.v" "$S/Prim/"

now() { date +%s.%N; }
T0=$(now)
python3 "$HERE/rs2v.py" --repo "$REPO" --meta "$S/meta.json" --all "$HERE/configs" "$S/Gen"
T1=$(now)
echo "regeneration of all configs: $(echo "$T1 - $T0" | bc) s"

# determinism: a second run must produce byte-identical files
mkdir -p "$S/Gen2"
python3 "$HERE/rs2v.py" --repo "$REPO" --all "$HERE/configs" "$S/Gen2" >/dev/null
for f in "$S"/Gen/*.v; do cmp "$f" "$S/Gen2/$(basename "$f")"; done
rm -rf "$S/Gen2"
echo "determinism: ok"

if grep -nE '\b(Axiom|Admitted|Parameter|admit)\b' "$S"/Gen/*.v "$S/Prim/Rs2vLib.v"; then
  echo "FAIL: axiom/admit in generated code"; exit 1
fi

cd "$S"
T2=$(now)
coqc -Q "$S" LdkV Prim/U64.v
coqc -Q "$S" LdkV Prim/Rs2vLib.v
# dependency order of the generated modules
for m in Consts ConstsProd CltvChecks ChanUtilsFees Package RouterFees CfgChecks TxBuilder; do
  coqc -Q "$S" LdkV "Gen/$m.v"
done
T3=$(now)
echo "coqc Prim + Gen: $(echo "$T3 - $T2" | bc) s"

cp "$HERE/tests/sanity/Sanity.v" "$HERE/tests/sanity/SanityTxBuilder.v" "$S/"
coqc -Q "$S" LdkV Sanity.v
coqc -Q "$S" LdkV SanityTxBuilder.v
echo "numeric sanity tests: ok"

rc=0
python3 "$HERE/tests/harness_compare.py" "$S" || rc=$?
if [ "$rc" != 0 ] && [ "$rc" != 3 ]; then echo "FAIL: harness comparison"; exit 1; fi

# fixture with the constructs the LDK targets do not exercise
python3 "$HERE/rs2v.py" --repo "$HERE/tests/mini" "$HERE/tests/mini/configs/Mini.json" "$S/Gen/Mini.v"
coqc -Q "$S" LdkV Gen/Mini.v
cp "$HERE/tests/mini/MiniSanity.v" "$S/"
coqc -Q "$S" LdkV MiniSanity.v
echo "fixture tests: ok"

python3 "$HERE/tests/negative.py"

[ "${KEEP:-0}" = 1 ] || rm -rf "$S"
echo "rs2v selftest: ALL OK"
