#!/usr/bin/env python3
"""Correspondence check of the Gallina crypto primitives (coq/Crypto/*.v) against the real Rust
primitives rust-lightning uses (harness binary h_crypto).

    python3 /verif/tools/corr_crypto.py [n_cases] [seed]

Generates random inputs of boundary-heavy lengths, evaluates both sides, diffs, prints a summary and
exits non-zero on any disagreement.  Other properties' checks call `run(ctx, n)` as a sub-step
(put "h_crypto" into their BINS, or leave `build=True`).

A small pure-Python ChaCha20/Poly1305 is included only to manufacture *valid* ciphertexts for the
decryption cases (and is reported as a third opinion in a disagreement record); the verdict is
always Rust vs. Coq.
"""
import hashlib
import hmac as pyhmac
import os
import struct
import sys

sys.path.insert(0, os.path.dirname(os.path.abspath(__file__)))
from vlib import core  # noqa: E402

LENS = [0, 1, 31, 32, 33, 55, 56, 63, 64, 65, 119, 120, 127, 128, 1300]
IMPORTS = ["Coq.ZArith.ZArith", "Coq.Strings.String", "Coq.Lists.List", "LdkV.Crypto.Bytes", "LdkV.Crypto.Sha256", "LdkV.Crypto.Hmac",
           "LdkV.Crypto.ChaCha20", "LdkV.Crypto.Poly1305", "LdkV.Crypto.ChaChaPoly", "LdkV.Crypto.Hkdf"]
PRELUDE = """
Definition oh (o : option bytes) : string := match o with Some p => hex_of_bytes p | None => "ERR"%string end.
Definition sp (a b : string) : string := String.append a (String.append " "%string b).
Definition otri (o : option (bytes * Z)) : string :=
  match o with
  | Some (p, w) => sp (match w with 0 => "0" | 1 => "1" | _ => "2" end)%string
                      (match p with nil => "-"%string | _ => hex_of_bytes p end)
  | None => "ERR"%string end.
Fixpoint joinsp (l : list bytes) : string :=
  match l with nil => ""%string | cons a nil => hex_of_bytes a | cons a r => sp (hex_of_bytes a) (joinsp r) end.
"""
COQ_TARGETS = ["Crypto/Hkdf.vo", "Crypto/ChaChaPoly.vo"]


# ---------------------------------------------------------------- pure-Python reference (generation aid)
def _rotl(x, n):
    return ((x << n) & 0xFFFFFFFF) | (x >> (32 - n))


def _qr(s, a, b, c, d):
    s[a] = (s[a] + s[b]) & 0xFFFFFFFF; s[d] = _rotl(s[d] ^ s[a], 16)
    s[c] = (s[c] + s[d]) & 0xFFFFFFFF; s[b] = _rotl(s[b] ^ s[c], 12)
    s[a] = (s[a] + s[b]) & 0xFFFFFFFF; s[d] = _rotl(s[d] ^ s[a], 8)
    s[c] = (s[c] + s[d]) & 0xFFFFFFFF; s[b] = _rotl(s[b] ^ s[c], 7)


def py_chacha_block(key, counter, nonce):
    init = [0x61707865, 0x3320646E, 0x79622D32, 0x6B206574] + list(struct.unpack("<8I", key)) + \
        [counter & 0xFFFFFFFF] + list(struct.unpack("<3I", nonce))
    s = list(init)
    for _ in range(10):
        _qr(s, 0, 4, 8, 12); _qr(s, 1, 5, 9, 13); _qr(s, 2, 6, 10, 14); _qr(s, 3, 7, 11, 15)
        _qr(s, 0, 5, 10, 15); _qr(s, 1, 6, 11, 12); _qr(s, 2, 7, 8, 13); _qr(s, 3, 4, 9, 14)
    return struct.pack("<16I", *[(a + b) & 0xFFFFFFFF for a, b in zip(s, init)])


def py_stream(key, nonce, counter, n):
    out = b""
    while len(out) < n:
        out += py_chacha_block(key, counter, nonce)
        counter += 1
    return out[:n]


def py_xor(a, b):
    return bytes(x ^ y for x, y in zip(a, b))


def py_poly1305(key, msg):
    r = int.from_bytes(key[:16], "little") & 0x0FFFFFFC0FFFFFFC0FFFFFFC0FFFFFFF
    s = int.from_bytes(key[16:32], "little")
    p = (1 << 130) - 5
    acc = 0
    for i in range(0, len(msg), 16):
        acc = ((acc + int.from_bytes(msg[i:i + 16] + b"\x01", "little")) * r) % p
    return ((acc + s) & ((1 << 128) - 1)).to_bytes(16, "little")


def _pad16(b):
    return b"\x00" * ((-len(b)) % 16)


def py_aead(key, nonce, ad, pt):
    otk = py_chacha_block(key, 0, nonce)[:32]
    ct = py_xor(pt, py_stream(key, nonce, 1, len(pt)))
    mac = ad + _pad16(ad) + ct + _pad16(ct) + struct.pack("<QQ", len(ad), len(ct))
    return ct + py_poly1305(otk, mac)


def py_swapped(key, aad, pt):
    nonce = b"\x00" * 12
    otk = py_chacha_block(key, 0, nonce)[:32]
    ct = py_xor(pt, py_stream(key, nonce, 1, len(pt)))
    mac = ct + _pad16(ct) + aad + struct.pack("<QQ", len(ct), 32)
    return ct + py_poly1305(otk, mac)


def py_hkdf(salt, ikm, n):
    prk = pyhmac.new(salt, ikm, hashlib.sha256).digest()
    t, out = b"", []
    for i in range(1, n + 1):
        t = pyhmac.new(prk, t + bytes([i]), hashlib.sha256).digest()
        out.append(t)
    return out


# ---------------------------------------------------------------- case generation
def hx(b):
    return b.hex() if b else "-"


def cq(b):
    return 'bytes_of_hex "%s"' % b.hex()


def rbytes(rng, n):
    style = rng.below(10)
    if style == 0:
        return b"\xff" * n
    if style == 1:
        return b"\x00" * n
    out = bytearray()
    while len(out) < n:
        out += rng.next().to_bytes(8, "little")
    return bytes(out[:n])


def rlen(rng):
    if rng.chance(1, 25):
        return 1300
    if rng.chance(1, 6):
        return rng.range(0, 300)
    return rng.choice(LENS[:-1])


def corrupt(rng, b):
    """A mutated copy of a non-empty byte string (bit flip, truncation or extension)."""
    k = rng.below(4)
    if k == 0 and len(b) > 0:
        i = rng.below(len(b))
        return b[:i] + bytes([b[i] ^ (1 << rng.below(8))]) + b[i + 1:]
    if k == 1 and len(b) > 0:
        return b[:-1]
    if k == 2:
        return b + b"\x00"
    i = len(b) - 1 - rng.below(min(16, len(b))) if b else 0
    return b[:i] + bytes([b[i] ^ 0x80]) + b[i + 1:] if b else b"\x01"


KINDS = ["sha256", "hmac", "chacha20", "chacha20seek", "applychacha", "poly1305", "aead_enc", "aead_dec",
         "hkdf2", "hkdf8", "cpw", "cpr", "swapped", "tripoly"]


def gen_case(rng, kind):
    """-> dict(kind, rust=<harness line>, coq=<Gallina expr of type string>, py=<expected or None>, size)"""
    key = rbytes(rng, 32)
    n = rlen(rng)
    if kind == "sha256":
        m = rbytes(rng, n)
        return dict(rust="sha256 %s" % hx(m), coq="hex_of_bytes (sha256 (%s))" % cq(m),
                    py=hashlib.sha256(m).hexdigest(), size=n)
    if kind == "hmac":
        k = rbytes(rng, rng.choice([0, 1, 20, 32, 63, 64, 65, 128, 131]))
        m = rbytes(rng, n)
        return dict(rust="hmac %s %s" % (hx(k), hx(m)), coq="hex_of_bytes (hmac_sha256 (%s) (%s))" % (cq(k), cq(m)),
                    py=pyhmac.new(k, m, hashlib.sha256).hexdigest(), size=n)
    if kind == "chacha20":
        nonce = rng.choice([b"\x00" * 12, rbytes(rng, 12)])
        ctr = rng.choice([0, 1, 2, 255, 256, 65535, 1 << 31, (1 << 32) - 40, rng.below(1 << 32)])
        if rng.chance(1, 10):
            ctr, n = (1 << 32) - 1, min(n, 63)  # the last block: no increment happens for a partial block
        if ctr + (n + 63) // 64 >= (1 << 32):
            ctr = 7
        return dict(rust="chacha20 %s %s %d %d" % (hx(key), hx(nonce), ctr, n),
                    coq="hex_of_bytes (chacha20_stream (%s) (%s) %d %d%%nat)" % (cq(key), cq(nonce), ctr, n),
                    py=hx(py_stream(key, nonce, ctr, n)), size=n)
    if kind == "chacha20seek":
        nonce = rng.choice([b"\x00" * 12, rbytes(rng, 12)])
        seek = rng.choice([0, 1, 31, 32, 63, 64, 65, 127, 128, 1000, 1300, 65536 + 5, (1 << 32) - 4000, rng.below(1 << 31)])
        chunk = rng.choice([0, 1, 7, 63, 64, 65, 100])
        ks = py_stream(key, nonce, seek // 64, seek % 64 + n)[seek % 64:]
        return dict(rust="chacha20seek %s %s %d %d %d" % (hx(key), hx(nonce), seek, n, chunk),
                    coq="hex_of_bytes (chacha20_stream_seek (%s) (%s) %d %d%%nat)" % (cq(key), cq(nonce), seek, n),
                    py=hx(ks), size=n)
    if kind == "applychacha":
        nonce16 = bytearray(rbytes(rng, 16))
        nonce16[3] &= 0x7F  # keep the block counter away from the u32 overflow panic
        nonce16 = bytes(nonce16)
        d = rbytes(rng, n)
        ctr = int.from_bytes(nonce16[:4], "little")
        return dict(rust="applychacha %s %s %s" % (hx(key), hx(nonce16), hx(d)),
                    coq="hex_of_bytes (ldk_apply_chacha20 (%s) (%s) (%s))" % (cq(key), cq(nonce16), cq(d)),
                    py=hx(py_xor(d, py_stream(key, nonce16[4:], ctr, n))), size=n)
    if kind == "poly1305":
        m = rbytes(rng, n)
        chunk = rng.choice([0, 1, 5, 15, 16, 17, 100])
        return dict(rust="poly1305 %s %s %d" % (hx(key), hx(m), chunk),
                    coq="hex_of_bytes (poly1305 (%s) (%s))" % (cq(key), cq(m)),
                    py=py_poly1305(key, m).hex(), size=n)
    if kind in ("aead_enc", "aead_dec"):
        nonce = rng.choice([b"\x00" * 12, rbytes(rng, 12), b"\x00" * 4 + struct.pack("<Q", rng.below(1000))])
        ad = rbytes(rng, rng.choice([0, 0, 1, 12, 15, 16, 17, 32, 64]))
        pt = rbytes(rng, n)
        if kind == "aead_enc":
            return dict(rust="aead_enc %s %s %s %s" % (hx(key), hx(nonce), hx(ad), hx(pt)),
                        coq="hex_of_bytes (aead_encrypt (%s) (%s) (%s) (%s))" % (cq(key), cq(nonce), cq(ad), cq(pt)),
                        py=hx(py_aead(key, nonce, ad, pt)), size=n)
        c = py_aead(key, nonce, ad, pt)
        exp = hx(pt)
        mode = rng.below(5)
        if mode == 1:
            c, exp = corrupt(rng, c), None
        elif mode == 2:
            ad, exp = corrupt(rng, ad), "ERR"
        elif mode == 3:
            c, exp = rbytes(rng, rng.below(20)), None
        return dict(rust="aead_dec %s %s %s %s" % (hx(key), hx(nonce), hx(ad), hx(c)),
                    coq="oh (aead_decrypt (%s) (%s) (%s) (%s))" % (cq(key), cq(nonce), cq(ad), cq(c)),
                    py=exp, size=n, sub="valid" if mode in (0, 4) else "invalid")
    if kind in ("hkdf2", "hkdf8"):
        salt = rbytes(rng, rng.choice([0, 13, 32, 32, 64, 65, 100]))
        ikm = rbytes(rng, rng.choice([0, 1, 22, 32, 32, 33, 64, 65, 80, 200]))
        if kind == "hkdf2":
            return dict(rust="hkdf2 %s %s" % (hx(salt), hx(ikm)),
                        coq="let '(a, b) := hkdf_extract_expand_twice (%s) (%s) in sp (hex_of_bytes a) (hex_of_bytes b)" % (cq(salt), cq(ikm)),
                        py=" ".join(t.hex() for t in py_hkdf(salt, ikm, 2)), size=len(ikm))
        return dict(rust="hkdf8 %s %s" % (hx(salt), hx(ikm)),
                    coq="joinsp (hkdf_extract_expand_8x (%s) (%s))" % (cq(salt), cq(ikm)),
                    py=" ".join(t.hex() for t in py_hkdf(salt, ikm, 8)), size=len(ikm))
    if kind == "cpw":
        pt = rbytes(rng, n)
        return dict(rust="cpw %s %s" % (hx(key), hx(pt)),
                    coq="hex_of_bytes (ldk_chachapoly_encrypt (%s) (%s))" % (cq(key), cq(pt)),
                    py=hx(py_aead(key, b"\x00" * 12, b"", pt)), size=n)
    if kind == "cpr":
        pt = rbytes(rng, n)
        c = py_aead(key, b"\x00" * 12, b"", pt)
        exp = hx(pt)
        mode = rng.below(4)
        if mode == 1:
            c, exp = corrupt(rng, c), None
        elif mode == 2:
            c, exp = rbytes(rng, rng.below(20)), None
        return dict(rust="cpr %s %s" % (hx(key), hx(c)),
                    coq="oh (ldk_chachapoly_decrypt (%s) (%s))" % (cq(key), cq(c)),
                    py=exp, size=n, sub="valid" if mode in (0, 3) else "invalid")
    if kind == "swapped":
        aad = rbytes(rng, 32)
        pt = rbytes(rng, n)
        return dict(rust="swapped %s %s %s" % (hx(key), hx(aad), hx(pt)),
                    coq="hex_of_bytes (ldk_chachapoly_encrypt_swapped_aad (%s) (%s) (%s))" % (cq(key), cq(aad), cq(pt)),
                    py=hx(py_swapped(key, aad, pt)), size=n)
    if kind == "tripoly":
        a, b, other = rbytes(rng, 32), rbytes(rng, 32), rbytes(rng, 32)
        if a == b:
            b = bytes([a[0] ^ 1]) + a[1:]
        pt = rbytes(rng, n)
        mode = rng.below(5)
        if mode == 0:
            c, exp = py_aead(key, b"\x00" * 12, b"", pt), "0 " + hx(pt)
        elif mode == 1:
            c, exp = py_swapped(key, a, pt), "1 " + hx(pt)
        elif mode == 2:
            c, exp = py_swapped(key, b, pt), "2 " + hx(pt)
        elif mode == 3:
            c, exp = py_swapped(key, other, pt), None
        else:
            c, exp = corrupt(rng, py_swapped(key, a, pt)), None
        return dict(rust="tripoly %s %s %s %s" % (hx(key), hx(a), hx(b), hx(c)),
                    coq="otri (ldk_tripoly_decrypt (%s) (%s) (%s) (%s))" % (cq(key), cq(a), cq(b), cq(c)),
                    py=exp, size=n, sub=["noaad", "first", "second", "other", "corrupt"][mode])
    raise ValueError(kind)


def gen_cases(rng, n):
    cases = []
    for i in range(n):
        kind = KINDS[i % len(KINDS)]
        c = gen_case(rng, kind)
        c["kind"] = kind
        cases.append(c)
    return cases


def canon_coq(v):
    v = v.strip()
    if v.endswith("%string"):
        v = v[: -len("%string")]
    v = v.strip()
    if len(v) >= 2 and v[0] == '"' and v[-1] == '"':
        v = v[1:-1]
    return v if v else "-"


# ---------------------------------------------------------------- entry points
def run(ctx, n, build=True, rng=None):
    """Run `n` random cases through the Rust primitives and the Gallina models.
    Returns the list of disagreements (dicts with kind, rust_line, coq_expr, rust, coq, py)."""
    rng = rng or ctx.rng.fork("corr_crypto")
    if build:
        ok, out = ctx.build_harness(["h_crypto"])
        if not ok:
            return [dict(kind="build", rust_line="", coq_expr="", rust="harness build failed", coq="", py=out[-2000:])]
    ok, out = ctx.coq_make(COQ_TARGETS)
    if not ok:
        return [dict(kind="build", rust_line="", coq_expr="", rust="", coq="coq build failed", py=out[-2000:])]
    cases = gen_cases(rng, n)
    rc, lines = ctx.run_bin("h_crypto", "\n".join(c["rust"] for c in cases) + "\n")
    lines = [l for l in lines if l != ""]
    if rc != 0 or len(lines) != len(cases):
        return [dict(kind="harness", rust_line="", coq_expr="", rust="exit %d, %d lines for %d cases" % (rc, len(lines), len(cases)),
                     coq="", py="\n".join(lines[-5:]))]
    vals = ctx.coq_eval("corr_crypto", IMPORTS, [c["coq"] for c in cases], prelude=PRELUDE)
    bad = []
    stats = {}
    for c, r, v in zip(cases, lines, vals):
        v = canon_coq(v)
        k = c["kind"] + ("/" + c["sub"] if "sub" in c else "")
        st = stats.setdefault(k, {"cases": 0, "max_len": 0, "agree": 0, "err_results": 0})
        st["cases"] += 1
        st["max_len"] = max(st["max_len"], c["size"])
        st["err_results"] += 1 if r == "ERR" else 0
        if r == v:
            st["agree"] += 1
        else:
            bad.append(dict(kind=c["kind"], rust_line=c["rust"], coq_expr=c["coq"], rust=r, coq=v, py=c["py"]))
        # the Python helper is only a generation aid, but a three-way difference is worth a log line
        if c["py"] is not None and r == v and r != c["py"]:
            ctx.log("note: corr_crypto python helper differs from both on %s" % c["rust"][:120])
    ctx.coverage["corr_crypto"] = stats
    return bad


def main(argv):
    n = int(argv[1]) if len(argv) > 1 else 280
    seed = int(argv[2]) if len(argv) > 2 else int(os.environ.get("VERIF_SEED", "1"))
    ctx = core.Ctx("corr_crypto", "quick", seed)
    bad = run(ctx, n)
    st = ctx.coverage.get("corr_crypto", {})
    for k in sorted(st):
        s = st[k]
        print("  %-18s cases=%-4d agree=%-4d max_len=%-5d err_results=%d" % (k, s["cases"], s["agree"], s["max_len"], s["err_results"]))
    total = sum(s["cases"] for s in st.values())
    if bad:
        for b in bad[:10]:
            print("DISAGREE kind=%s\n  rust_line: %s\n  rust: %s\n  coq : %s\n  py  : %s" % (
                b["kind"], b["rust_line"][:300], str(b["rust"])[:300], str(b["coq"])[:300], str(b["py"])[:300]))
        print("corr_crypto: %d disagreement(s) in %d cases (seed %d)" % (len(bad), total, seed))
        return 1
    print("corr_crypto: OK, %d cases, Rust == Coq on all (seed %d, timings %s)" % (total, seed, ctx.timings))
    return 0


if __name__ == "__main__":
    sys.exit(main(sys.argv))
