#!/bin/bash
# usage: tools/integrate.sh Cxx [Cyy ...]  -- runs each check with seeds 1 2 3 (quick), validates evidence; prints PASS/FAIL per property
cd /verif
for P in "$@"; do
  ok=1
  for s in ${SEEDS:-1 2 3}; do
    t0=$(date +%s)
    VERIF_SEED=$s timeout 3000 ./check $P --tier quick > .cache/tmp/integrate-$P-$s.log 2>&1
    rc=$?
    t1=$(date +%s)
    v=$(grep -c "^VIOLATION" .cache/tmp/integrate-$P-$s.log)
    k=$(grep -c "^KNOWN-FINDING" .cache/tmp/integrate-$P-$s.log)
    python3-vt -c "import json,jsonschema; jsonschema.validate(json.load(open('/verif/evidence/$P.json')), json.load(open('/root/.vp/EVIDENCE.schema.json')))" 2>/dev/null; ev=$?
    echo "$P seed=$s rc=$rc violations=$v known=$k evidence_valid=$((1-ev)) wall=$((t1-t0))s"
    if [ $rc -ne 0 ] || [ $ev -ne 0 ]; then ok=0; fi
  done
  if [ $ok -eq 1 ]; then echo "$P PASS"; else echo "$P FAIL"; fi
done
