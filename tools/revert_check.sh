#!/bin/bash
# usage: tools/revert_check.sh Cxx <fix-commit>   -- runs the quick check of Cxx against a scratch worktree of /repo HEAD with
# the given fix: commit reverted; expected: exit 1 with a VIOLATION line. Result goes to seeded/reverted-fixes/<Cxx>-<commit>.txt
P=$1; C=$2
cd /verif
WT=/tmp/wt-revert-$P-$C
git -C /repo worktree remove --force $WT 2>/dev/null
git -C /repo worktree add --detach $WT HEAD >/dev/null 2>&1
(cd $WT && git revert --no-commit $C >/dev/null 2>&1) || { echo "$P $C REVERT-FAILED"; git -C /repo worktree remove --force $WT; exit 2; }
mkdir -p seeded/reverted-fixes
rm -f replays/$P-*.json
t0=$(date +%s)
VERIF_REPO=$WT timeout 3000 ./check $P --tier quick > .cache/tmp/revert-$P-$C.log 2>&1
rc=$?
t1=$(date +%s)
{
  echo "check: VERIF_REPO=<worktree of /repo $(git -C /repo rev-parse --short HEAD) with $C reverted> ./check $P --tier quick ; exit=$rc ; wall=$((t1-t0))s"
  grep -E "^VIOLATION" .cache/tmp/revert-$P-$C.log
  python3 - <<PY
import json,glob
for f in sorted(glob.glob('/verif/replays/$P-*.json')):
    r=json.load(open(f)); print('  what:', r.get('what','')[:400], '| failing_input_found:', r.get('failing_input_found'))
PY
} > seeded/reverted-fixes/$P-$C.txt
echo "== revert $P $C rc=$rc"; head -4 seeded/reverted-fixes/$P-$C.txt | cut -c1-300
rm -f replays/$P-*.json
git -C /repo worktree remove --force $WT
T=$(python3 -c "import hashlib;print(hashlib.sha256('$WT'.encode()).hexdigest()[:8])")
rm -rf /verif/.cache/target-$T /verif/.cache/harness-$T /verif/.cache/coq-$T /verif/.cache/evidence-$T
