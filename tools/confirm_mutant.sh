#!/bin/bash
# usage: confirm_mutant.sh <seeded dir> <test name filter> [crate]   -- confirms a seeded mutant in a scratch worktree:
#  demo passes without the patch, fails with it; the patched tree compiles. Writes <dir>/confirm.log
set -u
D=$1; T=$2; CRATE=${3:-lightning}
WT=/tmp/confirm-$(basename $D)
git -C /repo worktree remove --force $WT 2>/dev/null
git -C /repo worktree add --detach $WT HEAD >/dev/null 2>&1
cd $WT
export CARGO_TARGET_DIR=/tmp/confirm-target CARGO_NET_OFFLINE=true
{
echo "== base: $(git rev-parse --short HEAD)"
git apply $D/demo.diff || echo "DEMO-APPLY-FAILED"
echo "== demo WITHOUT patch"
cargo test -p $CRATE --offline --lib -- "$T" 2>&1 | grep -E "^test |test result|error" | head -20
git apply $D/patch.diff || echo "PATCH-APPLY-FAILED"
echo "== demo WITH patch"
cargo test -p $CRATE --offline --lib -- "$T" 2>&1 | grep -E "^test |test result|error|panicked" | head -20
} > $D/confirm.log 2>&1
cd /; git -C /repo worktree remove --force $WT
