#!/usr/bin/env python3
"""Prints the prompt for an independent seeded-defect writer for property Cxx (contains ONLY the property text)."""
import json, sys
pid = sys.argv[1]
hints = sys.argv[2] if len(sys.argv) > 2 else ""
for l in open('/verif/properties.jsonl'):
    p = json.loads(l)
    if p['id'] == pid:
        break
files = ", ".join(p['anchors']['files'][:12])
print(f"""You are a software engineer helping to evaluate a verification effort by writing realistic *seeded defects*. You work ONLY in your own scratch git worktree of the rust-lightning repository; create it with: `git -C /repo worktree add --detach /tmp/mut-{pid} HEAD` and work in /tmp/mut-{pid} (never edit /repo itself, never look at or use anything under /verif). Offline sandbox: use `cargo ... --offline`; set `CARGO_TARGET_DIR=/tmp/mut-{pid}/target`. The machine is shared and busy: prefer targeted test runs while iterating, and run the broader suite once per final change. (The tree contains some `#[cfg(feature = "_verif_hooks")]` modules; ignore them, they are inert.)

The property under study (of lightningdevkit/rust-lightning, the LDK Lightning implementation):

Title: {p['title']}
Statement: "{p['statement']}"
Quantified over: {p['quantifier']['text']}
(Code areas it is anchored in: {files})

Task: produce THREE different, independent code changes to the library (each a small patch to non-test source files, not to tests) such that each one (a) breaks the property above, (b) still compiles (`cargo check --offline` for the touched crate), (c) still passes the EXISTING test suite of the touched crate(s) — run e.g. `cargo test -p <crate> --offline --lib` (the full lightning lib suite takes a few minutes; run it at least once per final change, and state exactly what you ran and the result), and (d) needs something specific to manifest: a particular boundary value, an unusual but legal input or configuration, a particular interleaving / crash point / multi-step sequence, or two cooperating sites that each look fine alone — NOT something ordinary use or the obvious test would expose at once. Prefer subtle, realistic mistakes a developer could make (off-by-one at a rarely hit boundary, a check skipped on one of several code paths, a wrong field/constant on a rare path, a `<` vs `<=` slip where tests do not pin it down, a state update forgotten on one path). The three changes should touch different mechanisms behind the property. {hints}

For each change N = 1, 2, 3 deliver, under /tmp/mut-out/{pid}/N/:
 - `patch.diff` — the library change only (`git diff` of the source, applies to a clean checkout of the worktree's HEAD with `git apply`),
 - a demonstration: either `demo.diff` adding a new `#[test]` (e.g. appended to an existing test module so it can use the crate's test utilities) or a small standalone program, which FAILS with the change applied and PASSES without it — you must actually run it both ways and record the outcomes,
 - `meta.json`: {{"property": "{pid}", "summary": "...", "mechanism": "...", "needs_to_manifest": "...", "existing_tests_run": ["cmd ..."], "existing_tests_result": "...", "demo_cmd": "... (ending with the test name filter)", "demo_crate": "<crate name>", "demo_without_patch": "pass", "demo_with_patch": "fail: ..."}}.
Reset the worktree between changes (`git checkout -- . && git clean -fd -e target`). When all three are done, remove the worktree's build output and the worktree (`rm -rf /tmp/mut-{pid}/target; git -C /repo worktree remove --force /tmp/mut-{pid}`). Keep /tmp/mut-out. Final message: for each change one paragraph (what, why it breaks the property, what it needs to manifest, what you ran).""")
