#!/usr/bin/env python3
"""Regenerate /verif/MANIFEST.json from the per-property plugins (tools/props/Cxx.py: MANIFEST dict)
and tools/not_applicable.json. Run after adding or changing a plugin."""
import importlib
import json
import os
import subprocess
import sys

HERE = os.path.dirname(os.path.abspath(__file__))
VERIF = os.path.dirname(HERE)
sys.path.insert(0, HERE)

props = [json.loads(l) for l in open(os.path.join(VERIF, "properties.jsonl"))]
ids = [p["id"] for p in props]
plug = sorted(f[:-3] for f in os.listdir(os.path.join(HERE, "props")) if f.startswith("C") and f.endswith(".py"))
na_file = os.path.join(HERE, "not_applicable.json")
na_reasons = json.load(open(na_file)) if os.path.exists(na_file) else {}
hooks = []
try:
    out = subprocess.run(["git", "-C", "/repo", "log", "--format=%h %s", "aa69558..HEAD"], stdout=subprocess.PIPE, universal_newlines=True).stdout
    hooks = [l.split()[0] for l in out.strip().split("\n") if l and not l.split(" ", 1)[1].startswith("fix:")]
except Exception:
    pass
checks = []
claimed = []
allow_file = os.path.join(HERE, "claimed.txt")
allow = set(open(allow_file).read().split()) if os.path.exists(allow_file) else set(plug)
for pid in plug:
    if pid not in allow:
        continue
    mod = importlib.import_module("props." + pid)
    m = getattr(mod, "MANIFEST", None)
    if not m or not m.get("claim", True):
        continue
    claimed.append(pid)
    checks.append({
        "property_id": pid,
        "quick_cmd": "./check %s --tier quick" % pid,
        "thorough_cmd": "./check %s --tier thorough" % pid,
        "evidence_file": "/verif/evidence/%s.json" % pid,
        "replay_cmd_template": "./check %s --replay {path}" % pid,
        "engine": "coq-ldkv",
        "level_claimed": {"category": m.get("category", "proof"), "text": m["text"], "design_ref": m.get("design_ref", "DESIGN.md §8 " + pid)},
        "level_note": m["note"],
        "technique": m.get("technique", "machine-checked proof in Coq + differential correspondence against the implementation"),
    })
man = {
    "version": 1,
    "setup_cmd": "./check --setup",
    "hooks": {
        "guard": "cargo feature _verif_hooks (lightning crate; implies _test_utils)",
        "enable": "the harness crate /verif/harness depends on lightning with features [_test_utils, _verif_hooks]; built with cargo build --offline by every check",
        "baseline_off_cmd": "cd /repo && cargo test --workspace --no-fail-fast --offline",
        "source_commits": hooks,
        "add_only": True,
    },
    "engines": [{"name": "coq-ldkv", "path": "/verif/coq", "serves_properties": claimed,
                 "kind_free_text": "Coq 8.16.1 development LdkV: models regenerated from /repo by tools/rs2v or hand-written and tied to the code by correspondence through /verif/harness; theorems in coq/Props"}],
    "checks": checks,
    "notes": "Single entry point ./check <id> --tier quick|thorough. See DESIGN.md.",
    "not_applicable": [{"property_id": i, "reason": na_reasons.get(i, "not yet claimed: its check is still under construction (DESIGN.md §12 build order); this is not a statement that the technique cannot apply")} for i in ids if i not in claimed],
}
json.dump(man, open(os.path.join(VERIF, "MANIFEST.json"), "w"), indent=1)
print("claimed:", claimed)
