(** Machine-integer conventions shared by generated ([Gen/]) and hand-written models.
    All Rust integers are [Z]. Arithmetic in definitions is exact; every generated function [f]
    comes with [f_safe : ... -> bool] which is [true] exactly when no intermediate result leaves
    its Rust type's range (i.e. a debug build does not panic on overflow/underflow/div-by-zero). *)
From Coq Require Export ZArith Bool List String Lia.
From Coq Require Export ZifyBool.
Export ListNotations.
Open Scope Z_scope.

Ltac Zify.zify_post_hook ::= Z.div_mod_to_equations.

(** Rust [Result<T, E>] with the error constructor kept by name. *)
Inductive rres (A : Type) : Type :=
| ROk (a : A)
| RErr (e : string).
Arguments ROk {A} a.
Arguments RErr {A} e.

Definition is_ok {A} (r : rres A) : bool := match r with ROk _ => true | RErr _ => false end.

Definition pow2 (w : Z) : Z := 2 ^ w.
(** [in_u w a]: [a] fits an unsigned [w]-bit integer. *)
Definition in_u (w a : Z) : bool := (0 <=? a) && (a <? 2 ^ w).
(** [a as uW] (truncating / zero-extending cast between unsigned types). *)
Definition cast_u (w a : Z) : Z := a mod 2 ^ w.
Definition sat_sub (a b : Z) : Z := Z.max 0 (a - b).
Definition sat_add (w a b : Z) : Z := Z.min (2 ^ w - 1) (a + b).
Definition sat_mul (w a b : Z) : Z := Z.min (2 ^ w - 1) (a * b).
Definition chk_sub (a b : Z) : option Z := if b <=? a then Some (a - b) else None.
Definition chk_add (w a b : Z) : option Z := if a + b <? 2 ^ w then Some (a + b) else None.
Definition chk_mul (w a b : Z) : option Z := if a * b <? 2 ^ w then Some (a * b) else None.
Definition wrap_add (w a b : Z) : Z := (a + b) mod 2 ^ w.
Definition wrap_sub (w a b : Z) : Z := (a - b) mod 2 ^ w.
Definition div_ceil (a b : Z) : Z := (a + b - 1) / b.

Lemma in_u_iff w a : in_u w a = true <-> 0 <= a < 2 ^ w.
Proof. unfold in_u. rewrite andb_true_iff, Z.leb_le, Z.ltb_lt. tauto. Qed.

Lemma cast_u_id w a : 0 <= a < 2 ^ w -> cast_u w a = a.
Proof. intros H. unfold cast_u. apply Z.mod_small. exact H. Qed.

Lemma sat_sub_spec a b : sat_sub a b = if b <=? a then a - b else 0.
Proof. unfold sat_sub. destruct (Z.leb_spec b a); lia. Qed.

Definition opt_bind {A B} (o : option A) (f : A -> option B) : option B :=
  match o with Some a => f a | None => None end.
