(** Small helpers used by the output of [tools/rs2v] (the Rust-subset -> Gallina translator).
    Everything here is a plain definition or a proved lemma: no axioms, no admits.
    Naming follows the Rust method the helper stands for. *)
Require Import LdkV.Prim.U64.
Open Scope Z_scope.

(** ** Signed ranges / casts (only what [as iN] and [try_into] need). *)
Definition in_i (w a : Z) : bool := (- 2 ^ (w - 1) <=? a) && (a <? 2 ^ (w - 1)).
Definition cast_i (w a : Z) : Z := (a + 2 ^ (w - 1)) mod 2 ^ w - 2 ^ (w - 1).

(** ** [Option] helpers. *)
Definition unwrap_or {A} (o : option A) (d : A) : A :=
  match o with Some a => a | None => d end.
(** [o.unwrap()]: the value when [o] is [Some]; the [None] case is a panic in Rust and is
    excluded by the [_safe] companion ([is_some o]), so the default is never observed there. *)
Definition unwrap_z (o : option Z) : Z := unwrap_or o 0.
Definition is_some {A} (o : option A) : bool := match o with Some _ => true | None => false end.
Definition is_none {A} (o : option A) : bool := match o with Some _ => false | None => true end.
Definition ok_or {A} (o : option A) (e : string) : rres A :=
  match o with Some a => ROk a | None => RErr e end.
Definition res_ok {A} (r : rres A) : option A :=
  match r with ROk a => Some a | RErr _ => None end.
Definition is_err {A} (r : rres A) : bool := negb (is_ok r).
(** [c.then_some(v)] *)
Definition then_some {A} (c : bool) (v : A) : option A := if c then Some v else None.

(** [uW::try_from(a)] / [a.try_into()] towards an unsigned ([try_into_u]) or signed ([try_into_i])
    [w]-bit target, as an [option]. *)
Definition try_into_u (w a : Z) : option Z := if in_u w a then Some a else None.
Definition try_into_i (w a : Z) : option Z := if in_i w a then Some a else None.

(** [a.checked_shr(s)], [a.checked_shl(s)], [a.checked_div(b)] at width [w]. *)
Definition chk_shr (w a s : Z) : option Z := if s <? w then Some (Z.shiftr a s) else None.
Definition chk_shl (w a s : Z) : option Z :=
  if s <? w then Some ((Z.shiftl a s) mod 2 ^ w) else None.
Definition chk_div (a b : Z) : option Z := if b =? 0 then None else Some (a / b).
Definition abs_diff (a b : Z) : Z := Z.abs (a - b).
Definition wrap_mul (w a b : Z) : Z := (a * b) mod 2 ^ w.

(** ** Iterator helpers. *)
Definition filter_map {A B} (f : A -> option B) (l : list A) : list B :=
  List.flat_map (fun x => match f x with Some b => b :: nil | None => nil end) l.

Definition sum_z (l : list Z) : Z := List.fold_left Z.add l 0.

(** [sum_safe w l]: summing [l] left to right from [0] never leaves [u<w>]
    (every partial sum is checked, as [Iterator::sum] does in a debug build). *)
Fixpoint sum_safe_from (w acc : Z) (l : list Z) : bool :=
  match l with
  | nil => true
  | x :: t => (acc + x <? 2 ^ w) && sum_safe_from w (acc + x) t
  end.
Definition sum_safe (w : Z) (l : list Z) : bool := sum_safe_from w 0 l.

(** [fold_safe f s l a]: running [fold_left f l a], the per-step check [s acc x] holds at each
    step (this is the [_safe] companion of a [for] loop with accumulator). *)
Fixpoint fold_safe {A B} (f : A -> B -> A) (s : A -> B -> bool) (l : list B) (a : A) : bool :=
  match l with
  | nil => true
  | x :: t => s a x && fold_safe f s t (f a x)
  end.

(** ** Lemmas. *)
Lemma fold_left_add_acc l a : List.fold_left Z.add l a = a + List.fold_left Z.add l 0.
Proof.
  revert a. induction l as [|x t IH]; intros a; simpl.
  - lia.
  - rewrite IH. rewrite (IH x). lia.
Qed.

Lemma fold_left_add_nonneg l :
  Forall (fun x => 0 <= x) l -> 0 <= List.fold_left Z.add l 0.
Proof.
  induction 1 as [|x t Hx Ht IH]; simpl.
  - lia.
  - rewrite fold_left_add_acc. lia.
Qed.

(** For non-negative summands, checking every partial sum is the same as checking the total. *)
Lemma sum_safe_from_total w acc l :
  0 <= acc -> Forall (fun x => 0 <= x) l ->
  (sum_safe_from w acc l = true <-> (l = nil \/ acc + List.fold_left Z.add l 0 < 2 ^ w)).
Proof.
  intros Hacc Hl. revert acc Hacc.
  induction Hl as [|x t Hx Ht IH]; intros acc Hacc; simpl.
  - split; auto.
  - rewrite andb_true_iff, Z.ltb_lt, (IH (acc + x)) by lia.
    rewrite (fold_left_add_acc t x).
    pose proof (fold_left_add_nonneg t Ht) as Hnn.
    split.
    + intros [H1 [H2|H2]]; right.
      * subst t. simpl. lia.
      * lia.
    + intros [H|H]; [discriminate|]. split; [lia|]. right. lia.
Qed.

Lemma sum_safe_total w l :
  Forall (fun x => 0 <= x) l ->
  (sum_safe w l = true <-> (l = nil \/ sum_z l < 2 ^ w)).
Proof.
  intros Hl. unfold sum_safe, sum_z.
  rewrite (sum_safe_from_total w 0 l) by (lia || assumption).
  simpl. tauto.
Qed.

Lemma try_into_u_some w a : in_u w a = true -> try_into_u w a = Some a.
Proof. intros H. unfold try_into_u. rewrite H. reflexivity. Qed.

Lemma unwrap_or_some {A} (a d : A) : unwrap_or (Some a) d = a.
Proof. reflexivity. Qed.
