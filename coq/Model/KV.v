(** C19: the key-value store specification (what [KVStoreSync] / [KVStore] promise).
    A store is a finite map key -> value; [write] replaces, [remove] deletes, [read] returns the last
    value, [list] the keys of a namespace.  A LAZY remove may take effect at any later time (or never,
    if the process crashes): until then the key is in [limbo] and every observation (read, list, the
    state found after a crash) may or may not still see it.  A later write to the key cancels the
    pending removal (persist.rs, [KVStoreSync::remove] documentation). *)
Require Import LdkV.Prim.U64.
Open Scope Z_scope.
Local Open Scope list_scope.

Section KV.
Context {K V : Type}.
Variable keqb : K -> K -> bool.

Definition store := list (K * V).

Definition kv_get (s : store) (k : K) : option V :=
  match find (fun kv => keqb (fst kv) k) s with Some kv => Some (snd kv) | None => None end.
Definition kv_del (s : store) (k : K) : store := filter (fun kv => negb (keqb (fst kv) k)) s.
Definition kv_set (s : store) (k : K) (v : V) : store := (k, v) :: kv_del s k.
Definition kv_keys (s : store) (p : K -> bool) : list K := filter p (map fst s).

Inductive sop := SWrite (k : K) (v : V) | SRemove (k : K) (lazy : bool).

Record sstate := { durable : store; limbo : list K }.

Definition l_del (l : list K) (k : K) : list K := filter (fun x => negb (keqb x k)) l.

Definition apply_sop (s : sstate) (o : sop) : sstate :=
  match o with
  | SWrite k v => {| durable := kv_set (durable s) k v; limbo := l_del (limbo s) k |}
  | SRemove k false => {| durable := kv_del (durable s) k; limbo := l_del (limbo s) k |}
  | SRemove k true => {| durable := durable s; limbo := k :: limbo s |}
  end.

Definition apply_sops (s : sstate) (os : list sop) : sstate := fold_left apply_sop os s.

(** [view s gone]: what an observer sees when exactly the limbo keys in [gone] have been removed. *)
Definition view (s : sstate) (gone : list K) : store :=
  filter (fun kv => negb (existsb (fun g => keqb g (fst kv)) gone && existsb (fun g => keqb g (fst kv)) (limbo s)))
         (durable s).

End KV.

Arguments store : clear implicits.
Arguments sop : clear implicits.
Arguments sstate : clear implicits.
