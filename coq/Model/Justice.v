(** What a [ChannelMonitor] remembers about the counterparty's commitments, as a function of the
    update history, and what it claims when one of them -- revoked -- confirms.

    Hand transliteration of lightning/src/chain/channelmonitor.rs:
    [provide_latest_counterparty_commitment_tx], [provide_secret] (shachain + pruning of HTLC
    *sources* of the previous counterparty commitment; HTLC data itself is never pruned),
    [check_spend_counterparty_transaction] (revoked branch: every output whose script is the
    revokeable script derived from the stored secret, then every HTLC of the stored per-commitment
    list that has an output index, with the same "corrupt data" early return),
    [check_spend_counterparty_htlc] (every input spending the commitment with a 5-element witness
    and an output at the same index).

    Abstractions: a transaction id is an integer; an output is classified by what its script is
    (the revokeable script built from the per-commitment point of commitment number [k], or
    anything else) -- two revokeable scripts are equal iff they are for the same number (distinct
    per-commitment points give distinct keys); claim bookkeeping ([OnchainTxHandler] packages) is
    the SET of outpoints being claimed. Fee bumping, aggregation and script/consensus validity are
    not in this model (validated on the real node by h_justice). The shachain is the exact model
    of C05. No proofs in this file. *)
Require Import LdkV.Prim.U64 LdkV.Model.Shachain.
Open Scope Z_scope.

(** [HTLCOutputInCommitment] as stored in [counterparty_claimable_outpoints], with its source *)
Record htlc : Type := mkHtlc {
  h_offered : bool;          (* offered by the broadcaster of that commitment, i.e. the counterparty *)
  h_amount_msat : Z;
  h_out : option Z;          (* transaction_output_index; None = dust, no output *)
  h_src : option Z           (* Option<Box<HTLCSource>>, interned *)
}.

(** the arguments of [provide_latest_counterparty_commitment_tx] *)
Record ccommit : Type := mkCC { cc_number : Z; cc_txid : Z; cc_htlcs : list htlc }.

Inductive upd : Type :=
| UCommit (c : ccommit)                 (* ChannelMonitorUpdateStep::LatestCounterpartyCommitment(TXInfo) *)
| USecret (idx : Z) (secret : bytes).   (* ChannelMonitorUpdateStep::CommitmentSecret *)

Record mon : Type := mkMon {
  m_secrets : store;                       (* commitment_secrets *)
  m_claimable : list (Z * list htlc);      (* counterparty_claimable_outpoints (a map: newest binding first) *)
  m_cur : option Z;                        (* current_counterparty_commitment_txid *)
  m_prev : option Z;                       (* prev_counterparty_commitment_txid *)
  m_cur_number : Z                         (* current_counterparty_commitment_number *)
}.

Definition mon_init : mon := mkMon new_store [] None None (Z.shiftl 1 48).

Fixpoint claimable_get (m : list (Z * list htlc)) (txid : Z) : option (list htlc) :=
  match m with
  | [] => None
  | (t, hs) :: tl => if t =? txid then Some hs else claimable_get tl txid
  end.

Fixpoint claimable_map (m : list (Z * list htlc)) (txid : Z) (f : list htlc -> list htlc) :=
  match m with
  | [] => []
  | (t, hs) :: tl => if t =? txid then (t, f hs) :: tl else (t, hs) :: claimable_map tl txid f
  end.

Definition drop_src (h : htlc) : htlc := mkHtlc (h_offered h) (h_amount_msat h) (h_out h) None.

Section WithHash.
  Variable H : bytes -> bytes.

  Definition opt_eqb (a b : option Z) : bool :=
    match a, b with Some x, Some y => x =? y | None, None => true | _, _ => false end.

  (** [update_monitor] for the two steps; [None] = the update is refused *)
  Definition apply_upd (m : mon) (u : upd) : option mon :=
    match u with
    | UCommit c =>
        (* provide_latest_counterparty_commitment_tx *)
        Some (mkMon (m_secrets m) ((cc_txid c, cc_htlcs c) :: m_claimable m)
                    (Some (cc_txid c)) (m_cur m) (cc_number c))
    | USecret idx secret =>
        match provide_secret H (m_secrets m) idx secret with
        | None => None   (* "Previous secret did not match new one" *)
        | Some st =>
            (* prune the HTLC sources of the now-revoked previous commitment *)
            let cl :=
              match m_prev m with
              | Some txid => if opt_eqb (m_cur m) (Some txid) then m_claimable m
                             else claimable_map (m_claimable m) txid (map drop_src)
              | None => m_claimable m
              end in
            Some (mkMon st cl (m_cur m) None (m_cur_number m))
        end
    end.

  Fixpoint apply_all (m : mon) (us : list upd) : option mon :=
    match us with
    | [] => Some m
    | u :: r => match apply_upd m u with Some m' => apply_all m' r | None => None end
    end.

  (** ** On-chain *)

  Inductive okind : Type :=
  | ORevokeable (k : Z)   (* P2WSH of get_revokeable_redeemscript with the keys of commitment number k *)
  | OOtherScript.         (* to_remote, HTLC scripts, anchors, anything else *)

  Record txout : Type := mkOut { o_kind : okind; o_value_sat : Z }.
  (** a transaction spending the funding output; [t_number] is what the monitor decodes from
      locktime / sequence xor the obscure factor *)
  Record ctx : Type := mkCtx { t_txid : Z; t_number : Z; t_outs : list txout }.

  Definition outpoint : Type := (Z * Z)%type.   (* (txid, vout) *)

  Fixpoint revokeable_outs (txid k : Z) (i : Z) (outs : list txout) : list outpoint :=
    match outs with
    | [] => []
    | o :: tl =>
        (match o_kind o with
         | ORevokeable k' => if k' =? k then [(txid, i)] else []
         | OOtherScript => []
         end) ++ revokeable_outs txid k (i + 1) tl
    end.

  (** the HTLC loop of [check_spend_counterparty_transaction]: [Some] = ran to the end, [None] =
      hit the "per_commitment_data is corrupt" return (the claims so far are still returned) *)
  Fixpoint htlc_outs (txid : Z) (outs : list txout) (hs : list htlc) (acc : list outpoint)
    : list outpoint * bool :=
    match hs with
    | [] => (acc, true)
    | h :: tl =>
        match h_out h with
        | Some idx =>
            if (Z.of_nat (List.length outs) <=? idx) ||
               negb (o_value_sat (nth (Z.to_nat idx) outs (mkOut OOtherScript (-1))) =? h_amount_msat h / 1000)
            then (acc, false)
            else htlc_outs txid outs tl (acc ++ [(txid, idx)])
        | None => htlc_outs txid outs tl acc
        end
    end.

  (** [check_spend_counterparty_transaction], revoked branch: the outpoints it asks the
      OnchainTxHandler to claim. (For an unrevoked number the other branch applies: not C06.) *)
  Definition justice (m : mon) (tx : ctx) : list outpoint :=
    if get_min_seen_secret (m_secrets m) <=? t_number tx then
      match get_secret H (m_secrets m) (t_number tx) with
      | None => []   (* unreachable: the Rust unwraps *)
      | Some _ =>
          let rev := revokeable_outs (t_txid tx) (t_number tx) 0 (t_outs tx) in
          match claimable_get (m_claimable m) (t_txid tx) with
          | Some hs => fst (htlc_outs (t_txid tx) (t_outs tx) hs rev)
          | None => rev
          end
      end
    else [].

  (** [check_spend_counterparty_htlc]: a transaction's inputs as (prev txid, prev vout, number
      of witness elements), and how many outputs it has *)
  Record stx : Type := mkStx { s_txid : Z; s_ins : list (Z * Z * Z); s_nout : Z }.

  Fixpoint second_stage_outs (ctxid htxid : Z) (nout : Z) (i : Z) (ins : list (Z * Z * Z)) : list outpoint :=
    match ins with
    | [] => []
    | (ptx, _, wl) :: tl =>
        (if (ptx =? ctxid) && (wl =? 5) && (i <? nout) then [(htxid, i)] else [])
        ++ second_stage_outs ctxid htxid nout (i + 1) tl
    end.

  Definition justice_htlc (m : mon) (commitment_number ctxid : Z) (tx : stx) : list outpoint :=
    match get_secret H (m_secrets m) commitment_number with
    | None => []
    | Some _ => second_stage_outs ctxid (s_txid tx) (s_nout tx) 0 (s_ins tx)
    end.

  (** the set of outpoints under claim after a transaction confirmed: what it spent is dropped,
      what [justice_htlc] finds is added *)
  Definition spends (tx : stx) (op : outpoint) : bool :=
    existsb (fun inp : Z * Z * Z => (fst (fst inp) =? fst op) && (snd (fst inp) =? snd op)) (s_ins tx).

  Definition track (m : mon) (commitment_number ctxid : Z) (claims : list outpoint) (tx : stx) : list outpoint :=
    filter (fun op => negb (spends tx op)) claims ++ justice_htlc m commitment_number ctxid tx.

  (** ** The block filter ([ChannelMonitorImpl::filter_block] / [spends_watched_output])

      A transaction of a block is relevant iff one of its inputs spends a watched OUTPOINT
      ([get_outputs_to_watch]: txid -> output indices), or ANY input (at any position) spends any
      output of a transaction matched EARLIER IN THE SAME BLOCK ([matched_txn], by txid). Inputs
      here are (prev txid, prev vout, number of witness elements). *)
  Definition spends_watched (watched : list outpoint) (ins : list (Z * Z * Z)) : bool :=
    existsb (fun inp : Z * Z * Z =>
               existsb (fun w : outpoint => (fst w =? fst (fst inp)) && (snd w =? snd (fst inp))) watched) ins.

  (** the [for input in tx.input.iter() { if matches { break; } if matched_txn.contains(..) { matches = true; } }] loop *)
  Fixpoint child_loop (matched : list Z) (ins : list (Z * Z * Z)) (matches : bool) : bool :=
    match ins with
    | [] => matches
    | inp :: tl =>
        if matches then matches   (* break *)
        else child_loop matched tl (existsb (fun t => t =? fst (fst inp)) matched)
    end.

  Fixpoint filter_block (watched : list outpoint) (matched : list Z) (txs : list stx) : list stx :=
    match txs with
    | [] => []
    | tx :: tl =>
        let m := child_loop matched (s_ins tx) (spends_watched watched (s_ins tx)) in
        if m then tx :: filter_block watched (s_txid tx :: matched) tl
        else filter_block watched matched tl
    end.

  (** ** One block, as [block_confirmed] sees it for a revoked commitment

      [process_block]: the block is filtered first (with what is watched BEFORE the block); then
      every relevant transaction is looked at in block order: the one spending the funding outpoint
      is the (revoked) commitment [tx] -- its claims start being tracked --; any relevant
      transaction then updates the tracked claims ([track]: spent outpoints dropped, second-stage
      outputs of the inputs that spend the commitment with a 5-element witness added). *)
  Definition spends_outpoint (op : outpoint) (ins : list (Z * Z * Z)) : bool :=
    existsb (fun inp : Z * Z * Z => (fst (fst inp) =? fst op) && (snd (fst inp) =? snd op)) ins.

  Fixpoint scan (m : mon) (funding : outpoint) (tx : ctx) (seen : bool) (claims : list outpoint)
           (relevant : list stx) : bool * list outpoint :=
    match relevant with
    | [] => (seen, claims)
    | t :: tl =>
        if negb seen && spends_outpoint funding (s_ins t) && (s_txid t =? t_txid tx)
        then scan m funding tx true (justice m tx) tl
        else if seen then scan m funding tx seen (track m (t_number tx) (t_txid tx) claims t) tl
        else scan m funding tx seen claims tl
    end.

  Definition process_block (m : mon) (watched : list outpoint) (funding : outpoint) (tx : ctx)
             (seen : bool) (claims : list outpoint) (block : list stx) : bool * list outpoint :=
    scan m funding tx seen claims (filter_block watched [] block).

  (** ** The history a channel produces

      [commit j] is the counterparty commitment with number [2^48 - 1 - j]; the channel tells the
      monitor about commitment 0, then for j = 1, 2, ...: commitment j, then the secret of
      commitment j - 1 (it is revoked only after its successor exists: C05). *)
  Definition FIRSTN : Z := 2 ^ 48 - 1.
  Fixpoint history (seed : bytes) (commit : nat -> ccommit) (n : nat) : list upd :=
    match n with
    | O => [UCommit (commit O)]
    | S k => history seed commit k ++
             [UCommit (commit (S k));
              USecret (FIRSTN - Z.of_nat k) (build_commitment_secret H seed (FIRSTN - Z.of_nat k))]
    end.
End WithHash.
