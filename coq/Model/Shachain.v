(** Transliteration of [CounterpartyCommitmentSecrets] and [build_commitment_secret]
    (lightning/src/ln/chan_utils.rs), parametric in the hash function.

    Rust integers are [Z] (all values here are [u64]/[u8], never negative). A 32-byte array is a
    [list Z] of byte values. Every loop is a structural recursion that visits the same indices in
    the same order as the Rust [for]; the correspondence is checked on every run against the real
    type by [harness/src/bin/h_shachain.rs] with [H := sha256]. No proofs in this file. *)
Require Import LdkV.Prim.U64.
Open Scope Z_scope.

Definition bytes := list Z.

(** [(secret, idx)] *)
Definition slot : Type := (bytes * Z)%type.
(** [old_secrets: [([u8; 32], u64); 49]] *)
Definition store := list slot.

Definition zero32 : bytes := repeat 0 32.
Definition EMPTY_IDX : Z := Z.shiftl 1 48.

(** [CounterpartyCommitmentSecrets::new] *)
Definition new_store : store := repeat (zero32, EMPTY_IDX) 49.

Fixpoint list_eqb {A} (eqb : A -> A -> bool) (a b : list A) : bool :=
  match a, b with
  | [], [] => true
  | x :: a', y :: b' => eqb x y && list_eqb eqb a' b'
  | _, _ => false
  end.
Definition bytes_eqb : bytes -> bytes -> bool := list_eqb Z.eqb.

Fixpoint upd_nth {A} (n : nat) (f : A -> A) (l : list A) : list A :=
  match l with
  | [] => []
  | x :: tl => match n with O => f x :: tl | S n' => x :: upd_nth n' f tl end
  end.

(** [idx & (1 << bitpos) == (1 << bitpos)] *)
Definition bit_set (idx bitpos : Z) : bool :=
  Z.land idx (Z.shiftl 1 bitpos) =? Z.shiftl 1 bitpos.

(** [res[bitpos / 8] ^= 1 << (bitpos & 7)] *)
Definition flip_bit (bitpos : Z) (res : bytes) : bytes :=
  upd_nth (Z.to_nat (bitpos / 8)) (fun b => Z.lxor b (Z.shiftl 1 (Z.land bitpos 7))) res.

Section WithHash.
  Variable H : bytes -> bytes.

  (** One iteration of the loop body shared by [derive_secret] and [build_commitment_secret]. *)
  Definition derive_step (idx bitpos : Z) (res : bytes) : bytes :=
    if bit_set idx bitpos then H (flip_bit bitpos res) else res.

  (** [for i in 0..bits { let bitpos = bits - 1 - i; ... }]: [n] is the number of iterations left,
      so the current [bitpos] is [n - 1]. *)
  Fixpoint derive_loop (n : nat) (idx : Z) (res : bytes) : bytes :=
    match n with
    | O => res
    | S b => derive_loop b idx (derive_step idx (Z.of_nat b) res)
    end.

  (** [CounterpartyCommitmentSecrets::derive_secret(secret, bits, idx)] *)
  Definition derive_secret (secret : bytes) (bits : Z) (idx : Z) : bytes :=
    derive_loop (Z.to_nat bits) idx secret.

  (** [build_commitment_secret(commitment_seed, idx)]: the same loop with [bits = 48]. *)
  Definition build_commitment_secret (seed : bytes) (idx : Z) : bytes :=
    derive_loop 48 idx seed.

  (** [place_secret]: [for i in 0..48 { if idx & (1 << i) == (1 << i) { return i } } 48];
      [fuel] iterations remain, the next one looks at bit [i]. *)
  Fixpoint place_loop (fuel : nat) (i : Z) (idx : Z) : Z :=
    match fuel with
    | O => 48
    | S f => if bit_set idx i then i else place_loop f (i + 1) idx
    end.
  Definition place_secret (idx : Z) : Z := place_loop 48 0 idx.

  (** [get_min_seen_secret] *)
  Definition get_min_seen_secret (s : store) : Z :=
    fold_left (fun (m : Z) (sl : slot) => if snd sl <? m then snd sl else m) s (Z.shiftl 1 48).

  Definition set_nth {A} (n : nat) (x : A) (l : list A) : list A := upd_nth n (fun _ => x) l.

  (** [provide_secret]; [None] is [Err(())]. The first loop returns at the first mismatch, which
      is the same as "all of the first [pos] slots match". *)
  Definition provide_secret (s : store) (idx : Z) (secret : bytes) : option store :=
    let pos := place_secret idx in
    if forallb (fun sl : slot => bytes_eqb (derive_secret secret pos (snd sl)) (fst sl))
               (firstn (Z.to_nat pos) s)
    then if get_min_seen_secret s <=? idx then Some s
         else Some (set_nth (Z.to_nat pos) (secret, idx) s)
    else None.

  (** [!x] on [u64] *)
  Definition u64_not (x : Z) : Z := 2 ^ 64 - 1 - x.

  (** [get_secret]: [for i in 0..49 { if idx & !((1 << i) - 1) == old_secrets[i].1 { return Some(..) } }];
      [i] is the position of the head of [rest] in the array. *)
  Fixpoint get_loop (i : Z) (rest : store) (idx : Z) : option bytes :=
    match rest with
    | [] => None
    | sl :: tl =>
        if Z.land idx (u64_not (Z.shiftl 1 i - 1)) =? snd sl
        then Some (derive_secret (fst sl) i idx)
        else get_loop (i + 1) tl idx
    end.
  Definition get_secret (s : store) (idx : Z) : option bytes := get_loop 0 s idx.

  (** the [assert!(idx < self.get_min_seen_secret())] before [None] *)
  Definition get_secret_panics (s : store) (idx : Z) : bool :=
    match get_secret s idx with
    | Some _ => false
    | None => negb (idx <? get_min_seen_secret s)
    end.

  (** Feeding the store the way a channel does: the secrets of a peer whose seed is [seed], for
      the indices [2^48 - 1], [2^48 - 2], ..., [2^48 - n], in this order. *)
  Definition FIRST_IDX : Z := 2 ^ 48 - 1.
  Fixpoint feed (seed : bytes) (n : nat) : option store :=
    match n with
    | O => Some new_store
    | S k =>
        match feed seed k with
        | Some s => let idx := FIRST_IDX - Z.of_nat k in
                    provide_secret s idx (build_commitment_secret seed idx)
        | None => None
        end
    end.
End WithHash.
