(** The executable instance of [Model/Sphinx.v] and [Model/OnionFail.v] that is compared byte for
    byte with rust-lightning: ChaCha20 with the all-zero nonce as the stream cipher, HMAC-SHA256,
    payloads as length-prefixed (BigSize) byte strings, and the key derivations of
    [gen_rho_mu_from_shared_secret], [gen_um_from_shared_secret], [gen_ammag_from_shared_secret],
    [gen_ammagext_from_shared_secret].  No proofs here; the section hypotheses of the C14 theorems
    are discharged for this instance in [Proofs/C14Inst.v]. *)
From Coq Require Import ZArith List Bool String Lia.
Require Import LdkV.Crypto.Bytes LdkV.Crypto.Sha256 LdkV.Crypto.Hmac LdkV.Crypto.ChaCha20.
Require Import LdkV.Model.Sphinx LdkV.Model.OnionFail.
Import ListNotations.
Open Scope Z_scope.

(** [ChaCha20::new(Key::new(key), Nonce::new([0; 12]), 0)] applied to [n] bytes *)
Definition ks_chacha (key : bytes) (n : nat) : bytes := chacha20_stream key zero_nonce 0 n.

(** ** BigSize (util/ser.rs) and the length-prefixed payload frame *)
Definition bigsize_enc (n : Z) : bytes :=
  if n <? 253 then [n]
  else if n <? 65536 then 253 :: be16 n
  else if n <? 4294967296 then 254 :: be32 n
  else 255 :: be64 n.

(** [BigSize::read]: non-minimal encodings are [DecodeError::InvalidValue]. *)
Definition bigsize_dec (l : bytes) : option (Z * bytes) :=
  match l with
  | [] => None
  | b :: r =>
      if b <? 253 then Some (b, r)
      else if b =? 253 then
        if (List.length r <? 2)%nat then None
        else let v := of_be16 r in if v <? 253 then None else Some (v, skipn 2 r)
      else if b =? 254 then
        if (List.length r <? 4)%nat then None
        else let v := of_be32 r in if v <? 65536 then None else Some (v, skipn 4 r)
      else
        if (List.length r <? 8)%nat then None
        else let v := of_be64 r in if v <? 4294967296 then None else Some (v, skipn 8 r)
  end.

(** A payload is the TLV stream's bytes; on the wire it is preceded by its BigSize length
    ([_encode_varint_length_prefixed_tlv!] / [BigSize::read] + [FixedLengthReader]). *)
Definition frame_enc (content : bytes) : bytes := bigsize_enc (Z.of_nat (List.length content)) ++ content.
Definition frame_parse (l : bytes) : option (bytes * bytes) :=
  match bigsize_dec l with
  | None => None
  | Some (len, r) =>
      if Z.of_nat (List.length r) <? len then None
      else Some (firstn (Z.to_nat len) r, skipn (Z.to_nat len) r)
  end.

(** ** Key derivation from the ECDH shared secret (which the Rust side supplies) *)
Definition gen_key (tag : string) (shared_secret : bytes) : bytes := hmac_sha256 (bytes_of_string tag) shared_secret.
Definition hopkeys_of_ss (ss : bytes) : hopkeys := mk_hopkeys (gen_key "rho" ss) (gen_key "mu" ss).
Definition fkeys_of_ss (ss : bytes) : fkeys := mk_fkeys (gen_key "um" ss) (gen_key "ammag" ss) (gen_key "ammagext" ss).

(** ** The instantiated functions *)
Definition i_build (noise : bytes) (hs : list (hopkeys * bytes)) (ad : bytes) : option packet :=
  build bytes frame_enc ks_chacha hmac_sha256 noise hs ad.
Definition i_build_seeded (N : nat) (seed : bytes) (hs : list (hopkeys * bytes)) (ad : bytes) : option packet :=
  build_seeded bytes frame_enc ks_chacha hmac_sha256 N seed hs ad.
Definition i_peel (k : hopkeys) (ad : bytes) (P : packet) : peeled bytes :=
  peel bytes frame_parse ks_chacha hmac_sha256 k ad P.
Definition i_peel_route (keys : list hopkeys) (ad : bytes) (P : packet) :=
  peel_route bytes frame_parse ks_chacha hmac_sha256 keys ad P.

Definition i_build_failure_packet := build_failure_packet ks_chacha hmac_sha256.
Definition i_wrap_failure := wrap_failure ks_chacha hmac_sha256.
Definition i_process_onion_failure := process_onion_failure ks_chacha hmac_sha256.
Definition i_process_fulfill := process_fulfill ks_chacha hmac_sha256.
Definition i_decode_fulfill := decode_fulfill ks_chacha hmac_sha256.

(** ** Textual interface for the correspondence check (hex in, hex out) *)
Open Scope string_scope.

Definition hx := bytes_of_hex.
Definition xh := hex_of_bytes.

Definition show_packet (P : packet) : string := xh (p_data P) ++ ":" ++ xh (p_hmac P).

(** [hs]: per hop (shared secret, payload content) in hex *)
Definition mk_hops (hs : list (string * string)) : list (hopkeys * bytes) :=
  map (fun h => (hopkeys_of_ss (hx (fst h)), hx (snd h))) hs.

Definition show_build (N : nat) (seed : string) (hs : list (string * string)) (ad : string) : string :=
  match i_build_seeded N (hx seed) (mk_hops hs) (hx ad) with
  | None => "ERR"
  | Some P => show_packet P
  end.

Definition show_peeled (r : peeled bytes) : string :=
  match r with
  | PeelErr HmacCheckFailed => "E:hmac"
  | PeelErr BadPayload => "E:payload"
  | PeelErr ShortHmac => "E:short"
  | PeelFinal p => "F:" ++ xh p
  | PeelForward p n => "N:" ++ xh p ++ ":" ++ show_packet n
  end.

Definition show_peel (ss ad data mac : string) : string :=
  show_peeled (i_peel (hopkeys_of_ss (hx ss)) (hx ad) (mk_packet (hx data) (hx mac))).

(** peel along the whole route: one line per hop *)
Fixpoint peel_trace (sss : list string) (ad : bytes) (P : packet) : list string :=
  match sss with
  | [] => []
  | ss :: tl =>
      let r := i_peel (hopkeys_of_ss (hx ss)) ad P in
      show_peeled r :: match r with PeelForward _ n => peel_trace tl ad n | _ => [] end
  end.
Definition show_build_and_peel (N : nat) (seed : string) (hs : list (string * string)) (ad : string) : list string :=
  match i_build_seeded N (hx seed) (mk_hops hs) (hx ad) with
  | None => ["ERR"]
  | Some P => show_packet P :: peel_trace (map fst hs) (hx ad) P
  end.

(** the same from explicit initial packet bytes (any packet size) *)
Definition show_raw (noise : string) (hs : list (string * string)) (ad : string) : list string :=
  match i_build (hx noise) (mk_hops hs) (hx ad) with
  | None => ["ERR"]
  | Some P => show_packet P :: peel_trace (map fst hs) (hx ad) P
  end.

Definition show_err (p : err_packet) : string :=
  xh (e_data p) ++ ":" ++ match e_attr p with Some a => xh (attr_bytes a) | None => "-" end.

Definition show_attributed (r : attributed * list Z) : string * list Z :=
  (match fst r with
   | Unattributable => "unattributable"
   | NoHopMatched _ => "nomatch"
   | Unreadable i => "unreadable"
   | MissingCode i => "missingcode"
   | Attributed i c d => "hop"
   end ++ ":" ++ match fst r with Attributed _ _ d => xh d | _ => "" end,
   List.app (match fst r with
             | Unreadable i | MissingCode i => [Z.of_nat i; -1]
             | Attributed i c _ => [Z.of_nat i; c]
             | _ => [-1; -1]
             end) (snd r)).

(** A failure produced at hop [i] (0-based) of the path with shared secrets [sss], hold times
    [holds] (one per hop [0..i]): the packet after each step on the way back (hop [i] first), and
    what the sender decodes. *)
Fixpoint fail_stages (before : list (fkeys * Z)) (p : err_packet) : list err_packet :=
  (* [before] is given nearest-first: k_(i-1), .., k_0 *)
  match before with
  | [] => []
  | kh :: tl => let p' := i_wrap_failure (fst kh) (snd kh) p in p' :: fail_stages tl p'
  end.

Definition show_failure (sss : list string) (i : nat) (code : Z) (data : string) (holds : list Z)
  : list string * (string * list Z) :=
  let keys := map (fun s => fkeys_of_ss (hx s)) sss in
  let ki := nth i keys (mk_fkeys [] [] []) in
  let p0 := i_build_failure_packet ki code (hx data) (nth i holds 0) in
  let before := rev (combine (firstn i keys) (firstn i holds)) in
  let stages := p0 :: fail_stages before p0 in
  (map show_err stages, show_attributed (i_process_onion_failure keys (last stages p0))).

(** decode an arbitrary packet at the sender *)
Definition show_decode (sss : list string) (data attr : string) : string * list Z :=
  let keys := map (fun s => fkeys_of_ss (hx s)) sss in
  show_attributed (i_process_onion_failure keys
    (mk_err (hx data) (if String.eqb attr "-" then None
                       else Some (mk_attr (firstn 80 (hx attr)) (skipn 80 (hx attr)))))).

(** fulfil attribution: the data after each hop on the way back (last hop first), and the sender's view *)
Fixpoint fulfill_stages (hops : list (fkeys * Z)) (a : option attribution) : list attribution :=
  (* [hops] nearest-to-recipient first *)
  match hops with
  | [] => []
  | kh :: tl => let a' := i_process_fulfill a (fst kh) (snd kh) in a' :: fulfill_stages tl (Some a')
  end.
Definition show_fulfill (sss : list string) (holds : list Z) : list string * list Z :=
  let keys := map (fun s => fkeys_of_ss (hx s)) sss in
  let stages := fulfill_stages (rev (combine keys holds)) None in
  (map (fun a => xh (attr_bytes a)) stages, i_decode_fulfill keys (last stages attr_new)).

(** what a receiving node sends back when it claims / fails a payment, optionally received through
    a phantom hop ([ph] = "-" for none) *)
Definition opt_fkeys (s : string) : option fkeys := if String.eqb s "-" then None else Some (fkeys_of_ss (hx s)).
Definition show_claim (incoming ph : string) : string :=
  xh (attr_bytes (claim_attribution ks_chacha hmac_sha256 (fkeys_of_ss (hx incoming)) (opt_fkeys ph))).
Definition show_local_failure (incoming ph : string) (code : Z) (data : string) : string :=
  show_err (local_failure ks_chacha hmac_sha256 (fkeys_of_ss (hx incoming)) (opt_fkeys ph) code (hx data)).
