(** C09 — the monitor-update pipeline of one channel, as seen by one node:
    [FundedChannel] (update-id assignment, merge-and-renumber paths, [monitor_updating_paused] /
    [monitor_updating_restored], blocked queue, holding cell), the [ChannelManager] side
    ([handle_new_monitor_update*], [in_flight_monitor_updates], [monitor_update_blocked_actions],
    [channel_monitor_updated], [try_resume_channel_post_monitor_update]) and the [ChainMonitor]
    ([update_channel_internal], [pending_monitor_updates], [channel_monitor_updated], deferred mode
    [pending_ops] / [flush]).

    Hand transliteration (lightning/src/ln/channel.rs, ln/channelmanager.rs, chain/chainmonitor.rs);
    executable, no proofs here. What depends on HTLC-level protocol state (does a received
    commitment_signed require one of ours, does the holding cell produce anything, how many forwards
    an RAA frees, is the RAA's update held by an RAA blocker, what the peer's channel_reestablish asks
    for) is carried by the label, so the theorems quantify over every possible answer.

    Every output carries a ghost dependency: the id of the update that must be durable (together with
    all earlier ones) before the output may leave. *)
Require Import LdkV.Prim.U64.
Open Scope Z_scope.

Inductive skind := KHolder | KCparty | KSecret | KPreimage | KShutdownScript.
Record upd := mkUpd { uid : Z; usteps : list skind }.
Inductive hitem := HAdd | HClaim | HFail | HFee.
Inductive verdict := VCompleted | VInProgress.
(** released things: wire messages, the funding broadcast, and what is handed back to the manager
    (forwards / fails / finalized claims; completion actions such as PaymentClaimed / PaymentForwarded) *)
Inductive rkind := RRaa | RCs | RChannelReady | RFundingBroadcast | RForward | RAction | RClosingSigned.
Inductive out :=
| OWatch (u : upd)            (* chain::Watch::update_channel *)
| ORel (k : rkind) (dep : Z)  (* released; needs every update with id <= dep durable *)
| OCmEvent (h : Z)            (* ChainMonitor pushed MonitorEvent::Completed { monitor_update_id = h } *)
| OErr.

(** FundedChannel *)
Record chan := mkChan {
  latest : Z;            (* context.latest_monitor_update_id *)
  mip : bool;            (* MONITOR_UPDATE_IN_PROGRESS *)
  arr : bool;            (* AWAITING_REMOTE_REVOKE *)
  pd : bool;             (* PEER_DISCONNECTED *)
  our_cr : bool;         (* OUR_CHANNEL_READY (or ChannelReady state) *)
  their_cr : bool;       (* THEIR_CHANNEL_READY (or ChannelReady state) *)
  blocked : list upd;    (* blocked_monitor_updates *)
  p_raa : bool;          (* monitor_pending_revoke_and_ack *)
  p_cs : bool;           (* monitor_pending_commitment_signed *)
  p_cr : bool;           (* monitor_pending_channel_ready *)
  p_fwd : list Z;        (* monitor_pending_forwards/failures/finalized_fulfills: ghost dep of each *)
  raa_first : bool;      (* resend_order == RevokeAndACKFirst *)
  hold : list hitem      (* holding_cell_htlc_updates (+ holding_cell_update_fee) *)
}.
(** ChannelManager (per channel) *)
Record mgr := mkMgr {
  inflight : list Z;     (* in_flight_monitor_updates *)
  acts : list Z          (* monitor_update_blocked_actions: ghost dep of each *)
}.
(** ChainMonitor (per channel) *)
Record cmon := mkCmon {
  deferred : bool;
  cmq : list upd;        (* pending_ops (deferred mode) *)
  applied : Z;           (* monitor.get_latest_update_id() *)
  cmp : list Z;          (* pending_monitor_updates *)
  evq : list Z           (* pending MonitorEvent::Completed, by monitor_update_id *)
}.
(** ghost *)
Record ghost := mkGhost {
  base : Z;              (* id of the initial monitor (watch_channel) *)
  handed : list upd;     (* everything handed to chain::Watch, in order (initial monitor first when traced) *)
  done : list Z;         (* ids reported durable (Completed verdict or channel_monitor_updated) *)
  lastH : Z;             (* id of the last update with a holder-commitment step *)
  lastK : Z;             (* id of the last update with a counterparty-commitment step *)
  owed_raa : bool;       (* a commitment_signed was accepted and its revoke_and_ack not released yet *)
  owed_cs : bool;        (* a commitment was built and its commitment_signed not released yet *)
  funder : bool;
  confirmed : bool
}.
(** cooperative close *)
Record shut := mkShut {
  sh_local : bool;       (* LOCAL_SHUTDOWN_SENT *)
  sh_remote : bool;      (* REMOTE_SHUTDOWN_SENT *)
  last_sh : Z            (* ghost: id of the last update with a ShutdownScript step *)
}.
Record st := mkSt { ch : chan; mg : mgr; cm : cmon; gh : ghost; sd : shut }.

(** ---------- field updates *)
Definition on_ch (f : chan -> chan) (s : st) : st := mkSt (f (ch s)) (mg s) (cm s) (gh s) (sd s).
Definition on_mg (f : mgr -> mgr) (s : st) : st := mkSt (ch s) (f (mg s)) (cm s) (gh s) (sd s).
Definition on_cm (f : cmon -> cmon) (s : st) : st := mkSt (ch s) (mg s) (f (cm s)) (gh s) (sd s).
Definition on_gh (f : ghost -> ghost) (s : st) : st := mkSt (ch s) (mg s) (cm s) (f (gh s)) (sd s).
Definition on_sd (f : shut -> shut) (s : st) : st := mkSt (ch s) (mg s) (cm s) (gh s) (f (sd s)).

Definition c_latest v c := mkChan v (mip c) (arr c) (pd c) (our_cr c) (their_cr c) (blocked c) (p_raa c) (p_cs c) (p_cr c) (p_fwd c) (raa_first c) (hold c).
Definition c_mip v c := mkChan (latest c) v (arr c) (pd c) (our_cr c) (their_cr c) (blocked c) (p_raa c) (p_cs c) (p_cr c) (p_fwd c) (raa_first c) (hold c).
Definition c_arr v c := mkChan (latest c) (mip c) v (pd c) (our_cr c) (their_cr c) (blocked c) (p_raa c) (p_cs c) (p_cr c) (p_fwd c) (raa_first c) (hold c).
Definition c_pd v c := mkChan (latest c) (mip c) (arr c) v (our_cr c) (their_cr c) (blocked c) (p_raa c) (p_cs c) (p_cr c) (p_fwd c) (raa_first c) (hold c).
Definition c_our_cr v c := mkChan (latest c) (mip c) (arr c) (pd c) v (their_cr c) (blocked c) (p_raa c) (p_cs c) (p_cr c) (p_fwd c) (raa_first c) (hold c).
Definition c_their_cr v c := mkChan (latest c) (mip c) (arr c) (pd c) (our_cr c) v (blocked c) (p_raa c) (p_cs c) (p_cr c) (p_fwd c) (raa_first c) (hold c).
Definition c_blocked v c := mkChan (latest c) (mip c) (arr c) (pd c) (our_cr c) (their_cr c) v (p_raa c) (p_cs c) (p_cr c) (p_fwd c) (raa_first c) (hold c).
Definition c_p_raa v c := mkChan (latest c) (mip c) (arr c) (pd c) (our_cr c) (their_cr c) (blocked c) v (p_cs c) (p_cr c) (p_fwd c) (raa_first c) (hold c).
Definition c_p_cs v c := mkChan (latest c) (mip c) (arr c) (pd c) (our_cr c) (their_cr c) (blocked c) (p_raa c) v (p_cr c) (p_fwd c) (raa_first c) (hold c).
Definition c_p_cr v c := mkChan (latest c) (mip c) (arr c) (pd c) (our_cr c) (their_cr c) (blocked c) (p_raa c) (p_cs c) v (p_fwd c) (raa_first c) (hold c).
Definition c_p_fwd v c := mkChan (latest c) (mip c) (arr c) (pd c) (our_cr c) (their_cr c) (blocked c) (p_raa c) (p_cs c) (p_cr c) v (raa_first c) (hold c).
Definition c_raa_first v c := mkChan (latest c) (mip c) (arr c) (pd c) (our_cr c) (their_cr c) (blocked c) (p_raa c) (p_cs c) (p_cr c) (p_fwd c) v (hold c).
Definition c_hold v c := mkChan (latest c) (mip c) (arr c) (pd c) (our_cr c) (their_cr c) (blocked c) (p_raa c) (p_cs c) (p_cr c) (p_fwd c) (raa_first c) v.

Definition m_inflight v m := mkMgr v (acts m).
Definition m_acts v m := mkMgr (inflight m) v.

Definition k_cmq v k := mkCmon (deferred k) v (applied k) (cmp k) (evq k).
Definition k_applied v k := mkCmon (deferred k) (cmq k) v (cmp k) (evq k).
Definition k_cmp v k := mkCmon (deferred k) (cmq k) (applied k) v (evq k).
Definition k_evq v k := mkCmon (deferred k) (cmq k) (applied k) (cmp k) v.

Definition g_handed v g := mkGhost (base g) v (done g) (lastH g) (lastK g) (owed_raa g) (owed_cs g) (funder g) (confirmed g).
Definition g_done v g := mkGhost (base g) (handed g) v (lastH g) (lastK g) (owed_raa g) (owed_cs g) (funder g) (confirmed g).
Definition g_lastH v g := mkGhost (base g) (handed g) (done g) v (lastK g) (owed_raa g) (owed_cs g) (funder g) (confirmed g).
Definition g_lastK v g := mkGhost (base g) (handed g) (done g) (lastH g) v (owed_raa g) (owed_cs g) (funder g) (confirmed g).
Definition g_owed_raa v g := mkGhost (base g) (handed g) (done g) (lastH g) (lastK g) v (owed_cs g) (funder g) (confirmed g).
Definition g_owed_cs v g := mkGhost (base g) (handed g) (done g) (lastH g) (lastK g) (owed_raa g) v (funder g) (confirmed g).
Definition g_confirmed v g := mkGhost (base g) (handed g) (done g) (lastH g) (lastK g) (owed_raa g) (owed_cs g) (funder g) v.

(** ---------- small helpers *)
Definition nilb {A} (l : list A) : bool := match l with [] => true | _ => false end.
Fixpoint remz (x : Z) (l : list Z) : list Z :=
  match l with [] => [] | y :: t => if y =? x then remz x t else y :: remz x t end.
Fixpoint memz (x : Z) (l : list Z) : bool :=
  match l with [] => false | y :: t => (y =? x) || memz x t end.
Definition is_claim (h : hitem) : bool := match h with HClaim => true | _ => false end.
Definition keep_on_shutdown (i : hitem) : bool := match i with HAdd | HFee => false | _ => true end.
Definition nclaims (l : list hitem) : nat := List.length (filter is_claim l).
Definition bump (u : upd) : upd := mkUpd (uid u + 1) (usteps u).

Definition is_ready (c : chan) : bool := our_cr c && their_cr c.
(** ChannelState::can_generate_new_commitment (LOCAL_STFU_SENT / QUIESCENT are not modelled) *)
Definition can_commit (c : chan) : bool :=
  is_ready c && negb (arr c) && negb (mip c) && negb (pd c).

(** monitor_updating_paused *)
Definition paused (raa cs cr : bool) (fw : list Z) (s : st) : st :=
  on_ch (fun c => c_mip true (c_p_fwd (p_fwd c ++ fw) (c_p_cr (p_cr c || cr) (c_p_cs (p_cs c || cs) (c_p_raa (p_raa c || raa) c))))) s.

(** build_commitment_no_status_check: bumps the id, sets AwaitingRemoteRevoke and RevokeAndACKFirst.
    Returns the id it used. *)
Definition build_commitment (s : st) : st * Z :=
  let id := latest (ch s) + 1 in
  (on_gh (g_owed_cs true) (on_ch (fun c => c_raa_first true (c_arr true (c_latest id c))) s), id).

(** monitor_updating_restored (the released items, in release order) *)
Definition restored (s : st) : st * list out :=
  let c := ch s in
  let g := gh s in
  let bc := if funder g && negb (confirmed g) then [ORel RFundingBroadcast (base g)] else [] in
  (* ChannelManager::send_channel_ready drops the message when the peer is not connected *)
  let cr := if p_cr c && negb (pd c) then [ORel RChannelReady (base g)] else [] in
  let fw := map (ORel RForward) (p_fwd c) in
  let raa := if p_raa c then [ORel RRaa (lastH g)] else [] in
  let cs := if p_cs c then [ORel RCs (lastK g)] else [] in
  let msgs := if pd c then [] else if raa_first c then raa ++ cs else cs ++ raa in
  let c' := c_p_fwd [] (c_p_cr false (c_p_cs false (c_p_raa false (c_mip false c)))) in
  let g' := if pd c then g else g_owed_cs (owed_cs g && negb (p_cs c)) (g_owed_raa (owed_raa g && negb (p_raa c)) g) in
  (mkSt c' (mg s) (cm s) g' (sd s), msgs ++ cr ++ bc ++ fw).

(** try_resume_channel_post_monitor_update (called only when no update of the channel is in flight) *)
Definition try_resume (s : st) : st * list out :=
  let a := map (ORel RAction) (acts (mg s)) in
  let s1 := on_mg (m_acts []) s in
  if nilb (blocked (ch s1)) then
    let '(s2, o) := restored s1 in (s2, o ++ a)
  else (s1, a).

(** The documented persister rule, in the form the manager enforces it (it panics otherwise):
    Completed may be returned only while nothing of this channel is still in flight / pending. *)
Definition eff (v : verdict) (s : st) : verdict :=
  match v with
  | VCompleted => if nilb (inflight (mg s)) && nilb (cmp (cm s)) && nilb (cmq (cm s)) then VCompleted else VInProgress
  | VInProgress => VInProgress
  end.

(** handle_new_monitor_update + Watch::update_channel + ChainMonitor::update_channel_internal *)
Definition handle_new_update (u : upd) (v : verdict) (s : st) : st * list out :=
  let v' := eff v s in
  let s1 := on_gh (fun g => g_handed (handed g ++ [u]) g) (on_mg (fun m => m_inflight (inflight m ++ [uid u]) m) s) in
  if deferred (cm s1) then
    (on_cm (fun k => k_cmq (cmq k ++ [u]) k) s1, [OWatch u])
  else
    let s2 := on_cm (k_applied (uid u)) s1 in
    match v' with
    | VInProgress => (on_cm (fun k => k_cmp (cmp k ++ [uid u]) k) s2, [OWatch u])
    | VCompleted =>
        let s3 := on_gh (fun g => g_done (done g ++ [uid u]) g) (on_mg (fun m => m_inflight (remz (uid u) (inflight m)) m) s2) in
        if nilb (inflight (mg s3)) then let '(s4, o) := try_resume s3 in (s4, OWatch u :: o)
        else (s3, [OWatch u])
    end.

(** push_ret_blockable_mon_update, followed by the manager's handling when it is returned *)
Definition push_or_handle (u : upd) (v : verdict) (s : st) : st * list out :=
  if nilb (blocked (ch s)) then handle_new_update u v s
  else (on_ch (fun c => c_blocked (blocked c ++ [u]) c) s, []).

(** free_holding_cell_htlcs: [Some steps] when an update is produced; every held claim re-adds its
    PaymentPreimage step, a commitment is built, and the id is reset to [latest + 1]. *)
Definition free_holding (drop_all : bool) (s : st) : st * option (list skind) :=
  let c := ch s in
  if nilb (hold c) then (s, None)
  else
    let n := nclaims (hold c) in
    let s1 := on_ch (c_hold []) s in
    if drop_all && (n =? 0)%nat then (s1, None)
    else
      let '(s2, _) := build_commitment s1 in
      (s2, Some (repeat KPreimage n ++ [KCparty])).

Inductive label :=
| LSend (v : verdict)
| LQueue (it : hitem)
| LFreeHold (drop_all : bool) (v : verdict)
| LClaim (v : verdict)
| LDupClaim
| LRecvCS (need_commit : bool) (v : verdict)
| LRecvRAA (held : bool) (drop_all : bool) (req_commit : bool) (nfwd : nat) (v : verdict)
| LUnblock (v : verdict)
| LFlush (v : verdict)
| LComplete (id : Z)
| LEvents
| LDisconnect
| LReestablish (need_raa need_cs both_initial : bool)
| LFundingLocked (onchain : bool)
| LRecvChannelReady
| LShutdown (local script_upd : bool) (v : verdict)
| LClosing (no_htlcs : bool).

Definition err (s : st) : st * list out := (s, [OErr]).

(** ChainMonitor::channel_monitor_updated *)
Definition cm_completed (id : Z) (s : st) : st * list out :=
  let was := memz id (cmp (cm s)) in
  let s1 := on_cm (fun k => k_cmp (remz id (cmp k)) k) s in
  let s2 := if was then on_gh (fun g => g_done (done g ++ [id]) g) s1 else s1 in
  if nilb (cmp (cm s2)) then (on_cm (fun k => k_evq (evq k ++ [applied k]) k) s2, [OCmEvent (applied (cm s2))])
  else (s2, []).

(** ChannelManager::channel_monitor_updated for one MonitorEvent::Completed *)
Definition process_event (h : Z) (s : st) : st * list out :=
  let s1 := on_mg (fun m => m_inflight (filter (fun i => h <? i) (inflight m)) m) s in
  if nilb (inflight (mg s1)) then
    if mip (ch s1) then try_resume s1 else (s1, [])
  else (s1, []).

Fixpoint process_events (hs : list Z) (s : st) : st * list out :=
  match hs with
  | [] => (s, [])
  | h :: t => let '(s1, o1) := process_event h s in let '(s2, o2) := process_events t s1 in (s2, o1 ++ o2)
  end.

Definition step (s : st) (l : label) : st * list out :=
  let c := ch s in
  match l with
  | LSend v =>
      (* send_htlc_and_commit *)
      if negb (is_ready c) || pd c then err s
      else if can_commit c then
        let '(s1, id) := build_commitment s in
        let s2 := on_gh (g_lastK id) (paused false true false [] s1) in
        push_or_handle (mkUpd id [KCparty]) v s2
      else (on_ch (c_hold (hold c ++ [HAdd])) s, [])
  | LQueue it =>
      (* queue_add_htlc / queue_fail_htlc / queue_update_fee *)
      if negb (is_ready c) then err s else (on_ch (c_hold (hold c ++ [it])) s, [])
  | LFreeHold drop_all v =>
      (* maybe_free_holding_cell_htlcs (check_free_holding_cells) *)
      if can_commit c then
        let id := latest c + 1 in
        match free_holding drop_all s with
        | (s1, None) => (s1, [])
        | (s1, Some steps) =>
            let s2 := on_gh (g_lastK id) (paused false true false [] (on_ch (c_latest id) s1)) in
            push_or_handle (mkUpd id steps) v s2
        end
      else (s, [])
  | LClaim v =>
      (* get_update_fulfill_htlc_and_commit (new claim) + the manager's completion action *)
      if negb (is_ready c) then err s
      else
        let release_cs := nilb (blocked c) in
        let pid := latest c + 1 in
        let s0 := on_ch (c_latest pid) s in
        let blocked_upd := negb (can_commit c) in
        let s1 := if blocked_upd then on_ch (fun c => c_hold (hold c ++ [HClaim]) c) s0 else s0 in
        if release_cs && negb blocked_upd then
          let '(s2, _) := build_commitment s1 in
          let s3 := on_gh (g_lastK pid) (on_ch (c_latest pid) s2) in
          let s4 := on_mg (fun m => m_acts (acts m ++ [pid]) m) (paused false true false [] s3) in
          handle_new_update (mkUpd pid [KPreimage; KCparty]) v s4
        else
          let new_id := match blocked c with b :: _ => uid b | [] => pid end in
          let s2 := on_ch (fun c => c_blocked (map bump (blocked c)) c) s1 in
          let s3 := if blocked_upd then s2
                    else let '(s2', id) := build_commitment s2 in
                         on_gh (g_lastK id) (on_ch (fun c => c_blocked (blocked c ++ [mkUpd id [KCparty]]) c) s2') in
          let s4 := on_mg (fun m => m_acts (acts m ++ [new_id]) m) (paused false (negb blocked_upd) false [] s3) in
          handle_new_update (mkUpd new_id [KPreimage]) v s4
  | LDupClaim =>
      (* claim_mpp_part, UpdateFulfillCommitFetch::DuplicateClaim: the completion action waits for the updates
         in flight, or runs at once when there are none *)
      if negb (is_ready c) then err s else
      match rev (inflight (mg s)) with
      | [] => (s, [ORel RAction (latest c)])
      | i :: _ => (on_mg (fun m => m_acts (acts m ++ [i]) m) s, [])
      end
  | LRecvCS need v =>
      (* commitment_signed -> commitment_signed_update_monitor *)
      if negb (is_ready c) || pd c then err s
      else
        let id := latest c + 1 in
        let s1 := on_gh (fun g => g_owed_raa true (g_lastH id g)) (on_ch (fun c => c_raa_first false (c_latest id c)) s) in
        let build := need && negb (arr c) in
        let s2 := if build then let '(s', _) := build_commitment s1 in on_gh (g_lastK id) (on_ch (c_latest id) s') else s1 in
        let steps := if build then [KHolder; KCparty] else [KHolder] in
        if mip c then
          let s3 := on_ch (fun c => c_p_cs (p_cs c || build) (c_p_raa true c)) s2 in
          push_or_handle (mkUpd id steps) v s3
        else
          push_or_handle (mkUpd id steps) v (paused true build false [] s2)
  | LRecvRAA held drop_all req nfwd v =>
      (* revoke_and_ack *)
      if negb (is_ready c) || pd c || negb (arr c) then err s
      else
        let id := latest c + 1 in
        let s1 := on_ch (fun c => c_arr false (c_latest id c)) s in
        let release := nilb (blocked c) && negb held in
        let fw := repeat id nfwd in
        let '(s2, steps, cs) :=
          if can_commit (ch s1) then
            match free_holding drop_all s1 with
            | (s', Some extra) => (on_gh (g_lastK id) (on_ch (c_latest id) s'), KSecret :: extra, true)
            | (s', None) =>
                if req then let '(s'', _) := build_commitment s' in (on_gh (g_lastK id) (on_ch (c_latest id) s''), [KSecret; KCparty], true)
                else (s', [KSecret], false)
            end
          else
            if req then let '(s'', _) := build_commitment s1 in (on_gh (g_lastK id) (on_ch (c_latest id) s''), [KSecret; KCparty], true)
            else (s1, [KSecret], false) in
        let s3 := paused false cs false fw s2 in
        if release then handle_new_update (mkUpd id steps) v s3
        else (on_ch (fun c => c_blocked (blocked c ++ [mkUpd id steps]) c) s3, [])
  | LUnblock v =>
      (* handle_monitor_update_release -> unblock_next_blocked_monitor_update *)
      match blocked c with
      | [] => (s, [])
      | b :: rest => handle_new_update b v (on_ch (c_blocked rest) s)
      end
  | LFlush v =>
      (* ChainMonitor::flush(1): apply the oldest queued update, persist it with verdict v *)
      match cmq (cm s) with
      | [] => (s, [])
      | u :: rest =>
          let s1 := on_cm (fun k => k_applied (uid u) (k_cmq rest k)) s in
          match v with
          | VInProgress => (on_cm (fun k => k_cmp (cmp k ++ [uid u]) k) s1, [])
          | VCompleted =>
              let s2 := on_gh (fun g => g_done (done g ++ [uid u]) g) s1 in
              if nilb (cmp (cm s2)) then (on_cm (fun k => k_evq (evq k ++ [applied k]) k) s2, [OCmEvent (applied (cm s2))])
              else (s2, [])
          end
      end
  | LComplete id => cm_completed id s
  | LEvents =>
      let hs := evq (cm s) in
      process_events hs (on_cm (k_evq []) s)
  | LDisconnect => (on_ch (c_pd true) s, [])
  | LReestablish need_raa need_cs both_initial =>
      (* channel_reestablish *)
      if negb (pd c) then err s
      else
        let s0 := on_ch (c_pd false) s in
        let g := gh s in
        if negb (is_ready c) then
          (* AwaitingChannelReady: "If we're waiting on a monitor update, we shouldn't re-send any channel_ready's" *)
          if negb (our_cr c) || mip c then (s0, []) else (s0, [ORel RChannelReady (base g)])
        else
          (* ChannelReady: channel_ready is re-sent whenever both sides are on the initial commitment number —
             without looking at MONITOR_UPDATE_IN_PROGRESS (finding F1) *)
          let cr := if both_initial then [ORel RChannelReady (base g)] else [] in
          let '(s1, raa) :=
            if need_raa then
              if mip c then (on_ch (c_p_raa true) s0, []) else (on_gh (g_owed_raa false) s0, [ORel RRaa (lastH g)])
            else (on_ch (c_p_raa false) s0, []) in
          let '(s2, cs) :=
            if need_cs then
              if mip c then (on_ch (c_p_cs true) s1, []) else (on_gh (g_owed_cs false) s1, [ORel RCs (lastK g)])
            else (s1, []) in
          (s2, cr ++ (if raa_first c then raa ++ cs else cs ++ raa))
  | LFundingLocked onchain =>
      (* check_get_channel_ready at the required depth ([onchain = false]: a 0-conf channel is locked the moment it
         is funded, its funding transaction is still unconfirmed) *)
      let conf := confirmed (gh s) || onchain in
      if our_cr c then (on_gh (g_confirmed conf) s, [])
      else
        let s1 := on_gh (g_confirmed conf) (on_ch (c_our_cr true) s) in
        if mip c then (on_ch (c_p_cr true) s1, [])
        else if pd c then (s1, []) else (s1, [ORel RChannelReady (base (gh s))])
  | LRecvChannelReady => (on_ch (c_their_cr true) s, [])
  | LShutdown local script v =>
      (* local: close_channel -> get_shutdown ("Cannot begin shutdown while peer is disconnected or we're waiting on
         a monitor update"); remote: shutdown (we answer with our own shutdown if not sent yet). Without an upfront
         shutdown script the monitor learns the script through a ShutdownScript update. The shutdown MESSAGE itself is
         sent at once (comment in ChannelManager::internal_shutdown); closing_signed is what waits. *)
      if (if local then pd c || mip c else pd c) then err s
      else
        (* "drop holding cell updates as we'd rather fail payments than wait": the queued adds and the queued fee
           update are removed (and failed back by the manager); queued claims and fails stay *)
        let s1 := on_ch (fun c0 => c_hold (filter keep_on_shutdown (hold c0)) c0)
                    (on_sd (fun d => mkShut true (if local then sh_remote d else true) (last_sh d)) s) in
        if script then
          let id := latest c + 1 in
          let s2 := on_sd (fun d => mkShut (sh_local d) (sh_remote d) id) (paused false false false [] (on_ch (c_latest id) s1)) in
          push_or_handle (mkUpd id [KShutdownScript]) v s2
        else (s1, [])
  | LClosing no_htlcs =>
      (* maybe_propose_closing_signed / closing_signed: closing_negotiation_ready needs both shutdowns exchanged and
         NO other state flag set (in particular neither MONITOR_UPDATE_IN_PROGRESS nor PEER_DISCONNECTED), and no HTLCs *)
      if sh_local (sd s) && sh_remote (sd s) && negb (mip c) && negb (pd c) && no_htlcs
      then (s, [ORel RClosingSigned (last_sh (sd s))]) else (s, [])
  end.

Fixpoint run (s : st) (ls : list label) : st :=
  match ls with [] => s | l :: t => run (fst (step s l)) t end.

(** outputs of the whole run, one list per label *)
Fixpoint run_outs (s : st) (ls : list label) : list (list out) :=
  match ls with [] => [] | l :: t => let '(s', o) := step s l in o :: run_outs s' t end.

(** Initial states.
    [init_open b isdef]: a ready channel whose monitor is at update id [b], nothing pending (the monitor itself
    is the first entry of the ghost log [handed], already durable).
    [init_new b initial_pending is_funder]: right after watch_channel of a new channel. *)
Definition init_open (b : Z) (isdef : bool) : st :=
  mkSt (mkChan b false false false true true [] false false false [] false [])
       (mkMgr [] [])
       (mkCmon isdef [] b [] [])
       (mkGhost b [mkUpd b []] [b] b b false false false true)
       (mkShut false false b).

Definition init_new (b : Z) (initial_pending is_funder : bool) : st :=
  mkSt (mkChan b initial_pending false false false false [] false false false [] false [])
       (mkMgr [] [])
       (mkCmon false [] b (if initial_pending then [b] else []) [])
       (mkGhost b [mkUpd b []] (if initial_pending then [] else [b]) b b false false is_funder false)
       (mkShut false false b).

(** [init_new] when the initial persist completed synchronously: the manager resumes the channel at once,
    which (for the funder) broadcasts the funding transaction. *)
Definition init_new_outs (b : Z) (initial_pending is_funder : bool) : list out :=
  if initial_pending then [] else if is_funder then [ORel RFundingBroadcast b] else [].
