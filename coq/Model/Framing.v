(** C15 — model of the byte-stream reassembly of [PeerManager::do_read_event] and of the socket
    writer [PeerManager::do_attempt_write_data] (lightning/src/ln/peer_handler.rs).

    Reader. The Rust keeps [pending_read_buffer] (allocated to the length of the chunk it waits
    for), [pending_read_buffer_pos] (bytes filled so far) and loops
    [while read_pos < data.len()]: copy [min(buffer.len() - pos, data.len() - read_pos)] bytes,
    and when the buffer is full reset [pos] to 0 and process the chunk. Here [r_want] is
    [pending_read_buffer.len()], [r_buf] the filled prefix (so [pos = length r_buf]). What
    processing a full chunk does (handshake act, length header, message body) is the parameter
    [handle]; it is instantiated in [Model/PeerRead.v].

    Writer. [pending_outbound_buffer] is a FIFO of byte buffers, [pending_outbound_buffer_first_msg_offset]
    the number of bytes of the front buffer already handed to the socket, [awaiting_write_event]
    set after a short write. The socket's answers ([send_data]'s return values) are an oracle. *)
Require Import LdkV.Prim.U64 LdkV.Gen.NoiseConsts.
From Coq Require Import List.
Import ListNotations.
Require Import LdkV.Model.Noise.
Open Scope Z_scope.

Inductive status := Alive | Disconnected | Panicked | OutOfFuel.

Section Reader.
  Variables (S E : Type).

  (** result of processing one complete chunk: continue waiting for [want] bytes, or
      [return Err(PeerHandleError)], or hit a [panic!]/[assert!] *)
  Inductive chunk_res :=
  | CNext (s : S) (want : nat) (evs : list E)
  | CErr (evs : list E)
  | CPanic.

  Variable handle : S -> bytes -> chunk_res.

  Record rstate := mk_r { r_s : S; r_want : nat; r_buf : bytes }.
  Record fres := mk_f { f_st : rstate; f_evs : list E; f_status : status }.

  (** sequencing: continue with [k] only while the connection is alive *)
  Definition andthen (r : fres) (k : rstate -> fres) : fres :=
    match f_status r with
    | Alive => let r2 := k (f_st r) in mk_f (f_st r2) (f_evs r ++ f_evs r2) (f_status r2)
    | _ => r
    end.

  (** the chunk is complete: [pending_read_buffer_pos = 0] and dispatch on the noise step *)
  Definition complete (st : rstate) (buf : bytes) : fres :=
    match handle (r_s st) buf with
    | CNext s want evs => mk_f (mk_r s want []) evs Alive
    | CErr evs => mk_f (mk_r (r_s st) (r_want st) []) evs Disconnected
    | CPanic => mk_f (mk_r (r_s st) (r_want st) []) [] Panicked
    end.

  (** the body of [do_read_event]'s while loop, [fuel] iterations at most *)
  Fixpoint feed_loop (fuel : nat) (st : rstate) (data : bytes) : fres :=
    match data with
    | [] => mk_f st [] Alive
    | _ :: _ =>
      match fuel with
      | O => mk_f st [] OutOfFuel
      | Datatypes.S fuel' =>
        (* assert!(pending_read_buffer.len() > 0); assert!(len > pending_read_buffer_pos) *)
        if (r_want st <=? length (r_buf st))%nat then mk_f st [] Panicked
        else
          let data_to_copy := Nat.min (r_want st - length (r_buf st)) (length data) in
          let buf := r_buf st ++ firstn data_to_copy data in
          let rest := skipn data_to_copy data in
          if (length buf =? r_want st)%nat then
            andthen (complete st buf) (fun st' => feed_loop fuel' st' rest)
          else feed_loop fuel' (mk_r (r_s st) (r_want st) buf) rest
      end
    end.

  (** one [read_event] call; every iteration consumes at least one byte, so [length data]
      iterations suffice ([Proofs/C15Framing.v]: [feed_never_out_of_fuel]) *)
  Definition feed1 (st : rstate) (data : bytes) : fres := feed_loop (length data) st data.

  (** a connection: once [read_event] returned [Err] the peer is removed from the map and every
      later [read_event] returns [Err] without touching anything *)
  Record conn := mk_c { c_st : rstate; c_status : status }.

  Definition feed (c : conn) (data : bytes) : conn * list E :=
    match c_status c with
    | Alive => let r := feed1 (c_st c) data in (mk_c (f_st r) (f_status r), f_evs r)
    | _ => (c, [])
    end.

  (** a sequence of [read_event] calls (a fragmentation of the stream) *)
  Fixpoint feed_all (c : conn) (fs : list bytes) : conn * list E :=
    match fs with
    | [] => (c, [])
    | f :: fs' =>
      let '(c1, e1) := feed c f in
      let '(c2, e2) := feed_all c1 fs' in (c2, e1 ++ e2)
    end.

  (** the same, keeping the events of each call apart (what a harness observes per call) *)
  Fixpoint feed_each (c : conn) (fs : list bytes) : list (list E * status) :=
    match fs with
    | [] => []
    | f :: fs' => let '(c1, e1) := feed c f in (e1, c_status c1) :: feed_each c1 fs'
    end.

  (** Reference semantics used by the proofs: one byte at a time. *)
  Definition push_byte (st : rstate) (x : Z) : fres :=
    if (r_want st <=? length (r_buf st))%nat then mk_f st [] Panicked
    else
      let buf := r_buf st ++ [x] in
      if (length buf =? r_want st)%nat then complete st buf
      else mk_f (mk_r (r_s st) (r_want st) buf) [] Alive.

  Fixpoint feed_bytes (st : rstate) (data : bytes) : fres :=
    match data with
    | [] => mk_f st [] Alive
    | x :: d => andthen (push_byte st x) (fun st' => feed_bytes st' d)
    end.
End Reader.

Arguments CNext {S E}.
Arguments CErr {S E}.
Arguments CPanic {S E}.
Arguments mk_r {S}.
Arguments r_s {S}.
Arguments r_want {S}.
Arguments r_buf {S}.
Arguments mk_f {S E}.
Arguments f_st {S E}.
Arguments f_evs {S E}.
Arguments f_status {S E}.
Arguments mk_c {S}.
Arguments c_st {S}.
Arguments c_status {S}.

(** ** Writer *)

(** [send_data(pending, ..)]'s answer: how many bytes the socket took; an exhausted oracle means
    the socket takes nothing. The trait contract bounds the answer by the length offered. *)
Definition sock_take (oracle : list nat) (offered : nat) : nat * list nat :=
  match oracle with
  | [] => (O, [])
  | x :: o => (Nat.min x offered, o)
  end.

Record wstate := mk_w {
  w_queue : list bytes;     (* pending_outbound_buffer *)
  w_off : nat;              (* pending_outbound_buffer_first_msg_offset *)
  w_awaiting : bool;        (* awaiting_write_event *)
  w_pause : bool }.         (* sent_pause_read: the last send_data call had continue_read = false *)

(** [Peer::should_read]: fewer than [OUTBOUND_BUFFER_LIMIT_READ_PAUSE] buffers queued, and not
    [blocked] (= gossip processing backlogged while this peer sent a channel_announcement) *)
Definition should_read (queue : list bytes) (blocked : bool) : bool :=
  (Z.of_nat (length queue) <? OUTBOUND_BUFFER_LIMIT_READ_PAUSE) && negb blocked.

(** the socket part of the [while force_one_write || !peer.awaiting_write_event] loop of
    [do_attempt_write_data]; returns the new state, the bytes handed to the socket, the unused
    oracle answers, and the [continue_read] flag of every [send_data] call made, in order
    (including the forced call with no data when nothing is queued) *)
Fixpoint write_loop (queue : list bytes) (off : nat) (awaiting pause force blocked : bool) (oracle : list nat)
  : wstate * bytes * list nat * list bool :=
  if force || negb awaiting then
    let sr := should_read queue blocked in
    match queue with
    | [] =>
      (* if force_one_write { send_data(&[], should_read); sent_pause_read = !should_read }; return *)
      if force then (mk_w [] off awaiting (negb sr), [], oracle, [sr])
      else (mk_w [] off awaiting pause, [], oracle, [])
    | next_buff :: q =>
      let pending := skipn off next_buff in
      let '(data_sent, oracle') := sock_take oracle (length pending) in
      let off' := (off + data_sent)%nat in
      if (off' =? length next_buff)%nat then
        let '(st, sent, o, calls) := write_loop q O awaiting (negb sr) false blocked oracle' in
        (st, firstn data_sent pending ++ sent, o, sr :: calls)
      else (mk_w (next_buff :: q) off' true (negb sr), firstn data_sent pending, oracle', [sr])
    end
  else (mk_w queue off awaiting pause, [], oracle, []).

Inductive wop :=
| WEnqueue (b : bytes)                                      (* pending_outbound_buffer.push_back(encrypted) *)
| WProcess (force blocked : bool) (oracle : list nat)       (* do_attempt_write_data from process_events *)
| WSpaceAvail (blocked : bool) (oracle : list nat).         (* write_buffer_space_avail *)

(** state, bytes handed to the socket, [continue_read] flags of the [send_data] calls *)
Definition wstep_full (st : wstate) (op : wop) : wstate * bytes * list bool :=
  match op with
  | WEnqueue b => (mk_w (w_queue st ++ [b]) (w_off st) (w_awaiting st) (w_pause st), [], [])
  | WProcess force blocked oracle =>
    (* force_one_write |= self.should_read_from(peer) == peer.sent_pause_read *)
    let force' := force || Bool.eqb (should_read (w_queue st) blocked) (w_pause st) in
    let '(st', sent, _, calls) :=
      write_loop (w_queue st) (w_off st) (w_awaiting st) (w_pause st) force' blocked oracle in
    (st', sent, calls)
  | WSpaceAvail blocked oracle =>
    (* peer.awaiting_write_event = false; do_attempt_write_data(.., true) *)
    let '(st', sent, _, calls) :=
      write_loop (w_queue st) (w_off st) false (w_pause st) true blocked oracle in
    (st', sent, calls)
  end.

Definition wstep (st : wstate) (op : wop) : wstate * bytes :=
  let '(st', sent, _) := wstep_full st op in (st', sent).

Fixpoint wrun (st : wstate) (ops : list wop) : wstate * bytes :=
  match ops with
  | [] => (st, [])
  | op :: ops' =>
    let '(st1, s1) := wstep st op in
    let '(st2, s2) := wrun st1 ops' in (st2, s1 ++ s2)
  end.

Definition w_init : wstate := mk_w [] O false false.

(** bytes queued but not yet handed to the socket *)
Definition w_pending (st : wstate) : bytes := skipn (w_off st) (concat (w_queue st)).

Fixpoint enqueued (ops : list wop) : list bytes :=
  match ops with
  | [] => []
  | WEnqueue b :: ops' => b :: enqueued ops'
  | _ :: ops' => enqueued ops'
  end.

(** ** The socket driver's side of [send_data(data, continue_read)]
    ([lightning-net-tokio]'s [SocketDescriptor::send_data], reduced to the read-pause flag): the
    flag is taken from [continue_read] on EVERY call, before the early return for empty data, and
    a paused reader is woken when the flag flips back. *)
Record drv := mk_drv { d_read_paused : bool; d_wakeups : nat }.

Definition drv_send_data (d : drv) (data : bytes) (continue_read : bool) : drv :=
  let read_was_paused := d_read_paused d in
  mk_drv (negb continue_read)
         (if continue_read && read_was_paused then Datatypes.S (d_wakeups d) else d_wakeups d).

(** the driver after the [send_data] calls of one writer step (only the flags matter) *)
Definition drv_calls (d : drv) (calls : list bool) : drv :=
  fold_left (fun d c => drv_send_data d [] c) calls d.
