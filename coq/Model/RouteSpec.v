(** C16 — what it means for a route to be valid for a graph view and for the caller's constraints
    ([route_valid], written clause by clause from the property text), and an executable checker
    ([route_check]).  No proofs here; [Proofs/C16.v] shows [route_check = true <-> route_valid].

    The fee formula is NOT restated here: the fee clause uses [compute_fees] from
    [Gen/RouterFees.v], regenerated from lightning/src/routing/router.rs on every run.

    The "graph view" is what the router is given, flattened to directed edges:
      - [KPublic]: one edge per announced channel direction that has a channel_update
        ([e_usable] = the update's enabled flag, [e_hmax] = htlc_maximum_msat,
        [e_cap] = capacity_sats * 1000 when known);
      - [KFirst]: the caller's [ChannelDetails] first hops ([e_hmin]/[e_hmax] =
        next_outbound_htlc_minimum/limit_msat, [e_cap] = outbound_capacity_msat);
      - [KHint]: BOLT 11 route hint hops; [KBlinded]: a blinded payment path taken as one edge from
        its introduction node to the (pseudo) payee, with its aggregate fees and limits.
    A channel can be known under more than one identifier: a first hop by its real
    [short_channel_id] and by its [outbound_scid_alias] (a route names it by the alias when there is
    one), and an invoice hint may name the payer's own channel by either.  [e_id] is the identifier a
    route uses, [e_alt] the other identifiers of the SAME channel: a hop naming any of them is a hop
    over this edge (so its limits apply and its capacity is counted once).  Exclusion
    ([previously_failed_channels]) is by the identifiers AS ROUTES NAME THEM: a hop must not name a
    listed scid, nor go over a channel whose route identifier [e_id] is listed.
    Node ids, short channel ids and blinded hint indices are integers.  Style: stdlib + lia. *)
Require Import LdkV.Prim.U64 LdkV.Prim.Rs2vLib LdkV.Gen.RouterFees.
Open Scope Z_scope.

Inductive kind := KFirst | KPublic | KHint | KBlinded.

Record edge := mkEdge {
  e_kind : kind;
  e_id : Z;          (* short channel id, or the blinded hint index for [KBlinded] *)
  e_src : Z;
  e_dst : Z;
  e_usable : bool;
  e_hmin : Z;
  e_hmax : Z;
  e_cap : option Z;  (* msat, shared by all HTLCs over this edge *)
  e_fees : RoutingFees;
  e_cltv : Z;
  e_alt : list Z;       (* other identifiers of the same channel *)
  e_chan_ok : bool;     (* the channel's announced features require no bit the router does not know *)
  e_node_ok : bool      (* nor do the announced features of the node the edge leads to *)
}.
Definition graph := list edge.

(** [RouteHop]: channel, node reached, [fee_msat], [cltv_expiry_delta] *)
Record hop := mkHop { h_id : Z; h_dst : Z; h_fee : Z; h_cltv : Z }.
(** [Path]: unblinded hops and, for a blinded tail, (hint index, [final_value_msat]) *)
Record path := mkPath { p_hops : list hop; p_tail : option (Z * Z) }.
Definition route := list path.

Record params := mkParams {
  q_payer : Z;
  q_payee : Z;                 (* the payee; a pseudo node id when paying to blinded paths *)
  q_value : Z;                 (* final_value_msat *)
  q_max_paths : Z;
  q_max_fee : option Z;        (* max_total_routing_fee_msat *)
  q_max_cltv : Z;              (* max_total_cltv_expiry_delta *)
  q_max_len : Z;               (* max_path_length *)
  q_excluded : list Z;         (* previously_failed_channels *)
  q_excluded_blinded : list Z; (* previously_failed_blinded_path_idxs *)
  q_first_hops : bool          (* first hops were supplied: the payer's channels are exactly those *)
}.

(** ** Resolving a path against the view *)
Definition is_blinded (k : kind) : bool := match k with KBlinded => true | _ => false end.

Definition mem_z (x : Z) (l : list Z) : bool := existsb (Z.eqb x) l.
Definition edge_ids (e : edge) : list Z := e_id e :: e_alt e.

Definition edge_matches (id src dst : Z) (blinded : bool) (e : edge) : bool :=
  mem_z id (edge_ids e) && (e_src e =? src) && (e_dst e =? dst) && Bool.eqb (is_blinded (e_kind e)) blinded.

Definition find_edge (g : graph) (id src dst : Z) (blinded : bool) : option edge :=
  List.find (edge_matches id src dst blinded) g.

(** the legs of a path: its hops, then the blinded tail as a last leg carrying [final_value_msat] *)
Definition legs (q : params) (p : path) : list hop :=
  p_hops p ++ match p_tail p with
              | Some (idx, v) => mkHop idx (q_payee q) v 0 :: nil
              | None => nil
              end.
Definition has_tail (p : path) : bool := match p_tail p with Some _ => true | None => false end.

(** walk the legs from [src], looking each one up: position, edge, hop *)
Fixpoint walk (g : graph) (tail : bool) (src : Z) (pos : nat) (ls : list hop)
  : option (list (nat * edge * hop)) :=
  match ls with
  | nil => Some nil
  | h :: rest =>
      let tail_leg := tail && match rest with nil => true | _ => false end in
      match find_edge g (h_id h) src (h_dst h) tail_leg with
      | Some e =>
          match walk g tail (h_dst h) (S pos) rest with
          | Some w => Some ((pos, e, h) :: w)
          | None => None
          end
      | None => None
      end
  end.

(** a resolved leg: the amount it carries is its own [fee_msat] plus everything carried by the
    next leg; [r_next] = (amount, fee policy) of the next leg, [None] for the last one *)
Record rleg := mkRleg {
  r_pos : nat;
  r_id : Z;          (* the identifier by which the route names the channel *)
  r_e : edge;
  r_fee : Z;
  r_amt : Z;
  r_next : option (Z * RoutingFees)
}.

Fixpoint mk_legs (w : list (nat * edge * hop)) : list rleg :=
  match w with
  | nil => nil
  | (pos, e, h) :: rest =>
      let tl := mk_legs rest in
      let amt_next := match tl with l :: _ => r_amt l | nil => 0 end in
      mkRleg pos (h_id h) e (h_fee h) (h_fee h + amt_next)
             (match tl, rest with
              | l :: _, (_, e', _) :: _ => Some (r_amt l, e_fees e')
              | _, _ => None
              end) :: tl
  end.

Definition resolve (g : graph) (q : params) (p : path) : option (list rleg) :=
  option_map mk_legs (walk g (has_tail p) (q_payer q) 0 (legs q p)).

Fixpoint tails {A} (l : list A) : list (A * list A) :=
  match l with
  | nil => nil
  | x :: t => (x, t) :: tails t
  end.

Definition last_dst (ls : list rleg) : option Z :=
  match List.rev ls with l :: _ => Some (e_dst (r_e l)) | nil => None end.
Definition final_amt (ls : list rleg) : Z :=
  match List.rev ls with l :: _ => r_amt l | nil => 0 end.
Definition sumz (l : list Z) : Z := List.fold_right Z.add 0 l.
(** fees of a path: every leg's [fee_msat] except the last one (which is the value delivered) *)
Definition path_fees (ls : list rleg) : Z := sumz (List.map r_fee (List.removelast ls)).

(** ** The specification *)

(** first hops only at position 0; the payer's own announced channels only when no first hops were
    supplied; hints after the first position; a blinded edge only as the tail *)
Definition kind_ok (q : params) (pos : nat) (k : kind) : Prop :=
  match k with
  | KFirst => pos = O
  | KPublic => pos <> O \/ q_first_hops q = false
  | KHint => pos <> O
  | KBlinded => True
  end.

(** [previously_failed_channels] lists scids as routes name them: the hop must not NAME a listed
    scid ([named]), and the channel it goes over must not be listed under its route identifier
    [e_id] (for a first hop: the alias when it has one, else the real scid) — which matters when
    the hop reaches the payer's own channel under another name, through a hint.  An identifier that
    no route would ever contain does not exclude anything. *)
Definition not_excluded (q : params) (named : Z) (e : edge) : Prop :=
  if is_blinded (e_kind e) then ~ In (e_id e) (q_excluded_blinded q)
  else ~ In named (q_excluded q) /\ ~ In (e_id e) (q_excluded q).

(** the forwarding node at the end of leg [l] is paid at least what the policy of the next
    channel requires for the amount forwarded over it *)
Definition fee_ok (l : rleg) : Prop :=
  match r_next l with
  | Some (a, f) => exists req, compute_fees a f = Some req /\ req <= r_fee l
  | None => True
  end.

(** leg [l] was deliberately raised to its channel's minimum: it carries exactly the minimum and
    the excess is reported as fee (an over-paid forwarding fee at this leg, or, for the last leg,
    the route paying more than requested) *)
Definition raised (overpay : bool) (l : rleg) : Prop :=
  r_amt l = e_hmin (r_e l) /\
  match r_next l with
  | Some (a, f) => exists req, compute_fees a f = Some req /\ req < r_fee l
  | None => overpay = true
  end.

(** a leg is excused from the maximum / capacity clause when a later leg of its path was raised *)
Definition exempt (overpay : bool) (later : list rleg) : Prop := Exists (raised overpay) later.

(** usable: enabled (and announced in both directions), and neither the channel nor the node it
    leads to requires a feature the router does not know *)
Definition usable (e : edge) : Prop :=
  e_usable e = true /\ e_chan_ok e = true /\ e_node_ok e = true.
Definition usable_b (e : edge) : bool := e_usable e && e_chan_ok e && e_node_ok e.

Definition leg_ok (q : params) (l : rleg) : Prop :=
  usable (r_e l) /\ not_excluded q (r_id l) (r_e l) /\ kind_ok q (r_pos l) (e_kind (r_e l)) /\
  e_hmin (r_e l) <= r_amt l /\ fee_ok l.

Definition same_edge (e1 e2 : edge) : bool :=
  (e_id e1 =? e_id e2) && (e_src e1 =? e_src e2) && (e_dst e1 =? e_dst e2)
  && Bool.eqb (is_blinded (e_kind e1)) (is_blinded (e_kind e2)).

(** everything the non-excused legs of all paths send over edge [e] *)
Definition exempt_b (overpay : bool) (later : list rleg) : bool :=
  existsb (fun l =>
    (r_amt l =? e_hmin (r_e l)) &&
    match r_next l with
    | Some (a, f) => match compute_fees a f with Some req => req <? r_fee l | None => false end
    | None => overpay
    end) later.
Definition usage (overpay : bool) (all : list (list rleg)) (e : edge) : Z :=
  sumz (List.map (fun lt : rleg * list rleg =>
                    if same_edge (r_e (fst lt)) e && negb (exempt_b overpay (snd lt))
                    then r_amt (fst lt) else 0)
                 (List.flat_map tails all)).

(** maximum and capacity, the latter counted jointly over all paths sharing the edge *)
Definition limit_ok (overpay : bool) (all : list (list rleg)) (lt : rleg * list rleg) : Prop :=
  exempt overpay (snd lt) \/
  (r_amt (fst lt) <= e_hmax (r_e (fst lt)) /\
   match e_cap (r_e (fst lt)) with
   | Some c => usage overpay all (r_e (fst lt)) <= c
   | None => True
   end).

Definition path_shape_ok (q : params) (p : path) (ls : list rleg) : Prop :=
  p_hops p <> nil /\ last_dst ls = Some (q_payee q) /\
  Z.of_nat (List.length (p_hops p)) <= q_max_len q /\
  sumz (List.map h_cltv (p_hops p)) <= q_max_cltv q.

Definition route_valid (g : graph) (q : params) (r : route) : Prop :=
  exists all : list (list rleg),
    List.map (resolve g q) r = List.map Some all /\
    let total := sumz (List.map final_amt all) in
    let overpay := q_value q <? total in
    (* at most the allowed number of paths, at least one *)
    r <> nil /\ Z.of_nat (List.length r) <= q_max_paths q /\
    (* each path: a connected chain payer -> payee over usable, non-excluded channels of the right
       kind, every hop at least the minimum, every forwarding node paid its policy *)
    Forall2 (path_shape_ok q) r all /\
    Forall (Forall (leg_ok q)) all /\
    (* no more than maximum and (jointly) capacity, apart from raised amounts *)
    Forall (limit_ok overpay all) (List.flat_map tails all) /\
    (* the requested amount is delivered, and no path is superfluous *)
    q_value q <= total /\
    Forall (fun ls => total - final_amt ls < q_value q) all /\
    (* total fees, over-payment included, within the limit *)
    match q_max_fee q with
    | Some m => sumz (List.map path_fees all) + (total - q_value q) <= m
    | None => True
    end.

(** ** The checker *)
Definition kind_ok_b (q : params) (pos : nat) (k : kind) : bool :=
  match k with
  | KFirst => Nat.eqb pos O
  | KPublic => negb (Nat.eqb pos O) || negb (q_first_hops q)
  | KHint => negb (Nat.eqb pos O)
  | KBlinded => true
  end.
Definition not_excluded_b (q : params) (named : Z) (e : edge) : bool :=
  if is_blinded (e_kind e) then negb (mem_z (e_id e) (q_excluded_blinded q))
  else negb (mem_z named (q_excluded q)) && negb (mem_z (e_id e) (q_excluded q)).
Definition fee_ok_b (l : rleg) : bool :=
  match r_next l with
  | Some (a, f) => match compute_fees a f with Some req => req <=? r_fee l | None => false end
  | None => true
  end.
Definition leg_ok_b (q : params) (l : rleg) : bool :=
  usable_b (r_e l) && not_excluded_b q (r_id l) (r_e l) && kind_ok_b q (r_pos l) (e_kind (r_e l))
  && (e_hmin (r_e l) <=? r_amt l) && fee_ok_b l.
Definition limit_ok_b (overpay : bool) (all : list (list rleg)) (lt : rleg * list rleg) : bool :=
  exempt_b overpay (snd lt) ||
  ((r_amt (fst lt) <=? e_hmax (r_e (fst lt))) &&
   match e_cap (r_e (fst lt)) with
   | Some c => usage overpay all (r_e (fst lt)) <=? c
   | None => true
   end).
Definition path_shape_ok_b (q : params) (p : path) (ls : list rleg) : bool :=
  negb (match p_hops p with nil => true | _ => false end) &&
  match last_dst ls with Some d => d =? q_payee q | None => false end &&
  (Z.of_nat (List.length (p_hops p)) <=? q_max_len q) &&
  (sumz (List.map h_cltv (p_hops p)) <=? q_max_cltv q).

Fixpoint sequence {A} (l : list (option A)) : option (list A) :=
  match l with
  | nil => Some nil
  | Some x :: t => match sequence t with Some r => Some (x :: r) | None => None end
  | None :: _ => None
  end.

Fixpoint forallb2 {A B} (f : A -> B -> bool) (l1 : list A) (l2 : list B) : bool :=
  match l1, l2 with
  | nil, nil => true
  | a :: t1, b :: t2 => f a b && forallb2 f t1 t2
  | _, _ => false
  end.

Definition route_check (g : graph) (q : params) (r : route) : bool :=
  match sequence (List.map (resolve g q) r) with
  | None => false
  | Some all =>
      let total := sumz (List.map final_amt all) in
      let overpay := q_value q <? total in
      negb (match r with nil => true | _ => false end) &&
      (Z.of_nat (List.length r) <=? q_max_paths q) &&
      forallb2 (path_shape_ok_b q) r all &&
      forallb (forallb (leg_ok_b q)) all &&
      forallb (limit_ok_b overpay all) (List.flat_map tails all) &&
      (q_value q <=? total) &&
      forallb (fun ls => total - final_amt ls <? q_value q) all &&
      match q_max_fee q with
      | Some m => sumz (List.map path_fees all) + (total - q_value q) <=? m
      | None => true
      end
  end.

(** Which clause fails first (for reports): 0 = valid. *)
Definition route_diagnose (g : graph) (q : params) (r : route) : Z :=
  match sequence (List.map (resolve g q) r) with
  | None => 1   (* a hop does not correspond to a channel of the view / chain broken *)
  | Some all =>
      let total := sumz (List.map final_amt all) in
      let overpay := q_value q <? total in
      if match r with nil => true | _ => false end then 2
      else if negb (Z.of_nat (List.length r) <=? q_max_paths q) then 3
      else if negb (forallb2 (path_shape_ok_b q) r all) then 4
      else if negb (forallb (forallb (fun l => usable_b (r_e l))) all) then 5
      else if negb (forallb (forallb (fun l => not_excluded_b q (r_id l) (r_e l))) all) then 6
      else if negb (forallb (forallb (fun l => kind_ok_b q (r_pos l) (e_kind (r_e l)))) all) then 7
      else if negb (forallb (forallb (fun l => e_hmin (r_e l) <=? r_amt l)) all) then 8
      else if negb (forallb (forallb fee_ok_b) all) then 9
      else if negb (forallb (limit_ok_b overpay all) (List.flat_map tails all)) then 10
      else if negb (q_value q <=? total) then 11
      else if negb (forallb (fun ls => total - final_amt ls <? q_value q) all) then 12
      else if negb match q_max_fee q with
                   | Some m => sumz (List.map path_fees all) + (total - q_value q) <=? m
                   | None => true
                   end then 13
      else 0
  end.

(** [route_ok]: the name under which the checker is the judge of the property (every route the real
    [find_route] returns is evaluated with it / with [route_diagnose] inside Coq) *)
Definition route_ok (g : graph) (q : params) (r : route) : bool := route_check g q r.
