(** Model of [lightning/src/offers/merkle.rs]: TLV records of a BOLT 12 stream, the per-record
    hashes, the level-wise merkle tree of [root_hash], and the tagged signature digest of
    [TaggedHash::from_merkle_root].

    The hash function is a [Section] variable [H : bytes -> bytes] (SHA-256 in the code); the file
    ends with the executable SHA-256 instance used for byte-exact correspondence.  A TLV record is
    represented by its bytes (type ‖ length ‖ value); type and type bytes are computed from it as
    [TlvStream::next] does.  No proofs in this file. *)
Require Import LdkV.Prim.U64.
Open Scope Z_scope.

Definition bytes := list Z.

(** ** BigSize ([util/ser.rs], [impl Readable for BigSize]) *)
Definition be_val (l : bytes) : Z := fold_left (fun a b => a * 256 + b) l 0.

(** value and number of bytes consumed; [None] on short input or non-minimal encoding *)
Definition bigsize_read (s : bytes) : option (Z * nat) :=
  match s with
  | [] => None
  | n :: r =>
      if n =? 255 then
        (if (List.length r <? 8)%nat then None
         else let x := be_val (firstn 8 r) in if x <? 4294967296 then None else Some (x, 9%nat))
      else if n =? 254 then
        (if (List.length r <? 4)%nat then None
         else let x := be_val (firstn 4 r) in if x <? 65536 then None else Some (x, 5%nat))
      else if n =? 253 then
        (if (List.length r <? 2)%nat then None
         else let x := be_val (firstn 2 r) in if x <? 253 then None else Some (x, 3%nat))
      else Some (n, 1%nat)
  end.

(** ** [TlvStream::next]: split a well-formed stream into records ([None] where the code would
    panic on [unwrap] / slicing).  [fuel]: a record has at least two bytes. *)
Fixpoint split_records_go (fuel : nat) (s : bytes) : option (list bytes) :=
  match s with
  | [] => Some []
  | _ =>
    match fuel with
    | O => None
    | S f =>
      match bigsize_read s with
      | None => None
      | Some (_, tl) =>
        match bigsize_read (skipn tl s) with
        | None => None
        | Some (len, ll) =>
            let total := (tl + ll + Z.to_nat len)%nat in
            if (List.length s <? total)%nat then None
            else match split_records_go f (skipn total s) with
                 | None => None
                 | Some rs => Some (firstn total s :: rs)
                 end
        end
      end
    end
  end.
Definition split_records (s : bytes) : option (list bytes) := split_records_go (S (List.length s)) s.

(** type and type bytes of a record *)
Definition ty_of (r : bytes) : Z := match bigsize_read r with Some (t, _) => t | None => -1 end.
Definition type_bytes (r : bytes) : bytes := match bigsize_read r with Some (_, n) => firstn n r | None => [] end.

(** [SIGNATURE_TYPES = 240..=1000] *)
Definition is_sig (r : bytes) : bool := (240 <=? ty_of r) && (ty_of r <=? 1000).
Definition non_sig (rs : list bytes) : list bytes := filter (fun r => negb (is_sig r)) rs.

(** strictly ascending types (what every BOLT 12 parser of the library enforces) *)
Fixpoint ascending (ts : list Z) : bool :=
  match ts with
  | a :: ((b :: _) as r) => (a <? b) && ascending r
  | _ => true
  end.

(** byte-wise lexicographic [<] ([Ord] of [sha256::Hash]) *)
Fixpoint lex_lt (a b : bytes) : bool :=
  match a, b with
  | x :: a', y :: b' => if x <? y then true else if y <? x then false else lex_lt a' b'
  | [], _ :: _ => true
  | _, _ => false
  end.

(** ASCII tags *)
Definition LN_LEAF : bytes := [76; 110; 76; 101; 97; 102].
Definition LN_NONCE : bytes := [76; 110; 78; 111; 110; 99; 101].
Definition LN_BRANCH : bytes := [76; 110; 66; 114; 97; 110; 99; 104].

Section Merkle.
  Variable H : bytes -> bytes.

  (** [tagged_hash_engine(tag)] then input: H(tag ‖ tag ‖ msg) *)
  Definition tagged (tag msg : bytes) : bytes := H (tag ++ tag ++ msg).

  Definition leaf_tag : bytes := H LN_LEAF.
  Definition branch_tag : bytes := H LN_BRANCH.
  (** the nonce tag commits to the first record of the whole stream *)
  Definition nonce_tag (first_record : bytes) : bytes := H (LN_NONCE ++ first_record).

  Definition leaf_hash (r : bytes) : bytes := tagged leaf_tag r.
  Definition nonce_hash (ntag : bytes) (r : bytes) : bytes := tagged ntag (type_bytes r).
  (** [tagged_branch_hash_from_engine]: children in ascending order *)
  Definition branch (a b : bytes) : bytes :=
    tagged branch_tag (if lex_lt a b then a ++ b else b ++ a).
  Definition per_tlv (ntag : bytes) (r : bytes) : bytes := branch (leaf_hash r) (nonce_hash ntag r).

  (** One level of the in-place loop of [root_hash]: neighbours are combined, an unpaired last
      element is carried up unchanged. *)
  Fixpoint pair_up (l : list bytes) : list bytes :=
    match l with
    | a :: b :: r => branch a b :: pair_up r
    | _ => l
    end.
  Fixpoint merkle (fuel : nat) (l : list bytes) : bytes :=
    match fuel with
    | O => hd [] l
    | S f => match l with
             | [x] => x
             | _ => merkle f (pair_up l)
             end
    end.

  (** [root_hash]; [None] where the code panics (empty stream, or no non-signature record). *)
  Definition root_hash (rs : list bytes) : option bytes :=
    match rs with
    | [] => None
    | first :: _ =>
        let leaves := map (per_tlv (nonce_tag first)) (non_sig rs) in
        match leaves with
        | [] => None
        | _ => Some (merkle (List.length leaves) leaves)
        end
    end.

  (** [TaggedHash::from_merkle_root]: the digest that is signed *)
  Definition sig_digest (tag : bytes) (root : bytes) : bytes := tagged (H tag) root.

  Definition stream_root (s : bytes) : option bytes :=
    match split_records s with Some rs => root_hash rs | None => None end.
End Merkle.
