(** Hand transliteration of the parts of [lightning/src/chain/package.rs] that walk the package's
    inputs ([PackageTemplate::get_height_timer], [PackageTemplate::package_locktime]); the closure
    [timer_for_target_conf] and all constants are the rs2v-generated ones ([Gen/Package.v],
    [Gen/Consts.v]). No proofs in this file.

    An input is abstracted to the variant of [PackageSolvingData] and the one number the two
    functions read from it:
    - [CounterpartyOfferedHTLC e], [CounterpartyReceivedHTLC e]: [outp.htlc.cltv_expiry = e];
    - [HolderHTLCTimeout e]: [HolderHTLCOutput] with [preimage = None], [outp.cltv_expiry = e];
    - [HolderHTLCPreimage]: [HolderHTLCOutput] with [preimage = Some _] ([outp.cltv_expiry = 0],
      by construction in [HolderHTLCOutput::build]). *)
Require Import LdkV.Prim.U64 LdkV.Gen.Consts LdkV.Gen.Package.
Open Scope Z_scope.

Inductive pinput : Type :=
| RevokedOutput
| RevokedHTLCOutput
| CounterpartyOfferedHTLC (cltv_expiry : Z)
| HolderHTLCPreimage
| CounterpartyReceivedHTLC (cltv_expiry : Z)
| HolderHTLCTimeout (cltv_expiry : Z)
| HolderFunding.

(** The height by which this input's claim should be confirmed, as [get_height_timer] reads it
    ([None]: the variant does not tighten the timer through [timer_for_target_conf]). *)
Definition target_conf (counterparty_spendable_height : Z) (i : pinput) : option Z :=
  match i with
  | RevokedOutput => Some counterparty_spendable_height
  | RevokedHTLCOutput => None
  | CounterpartyOfferedHTLC e => Some e
  | HolderHTLCPreimage => Some counterparty_spendable_height
  | CounterpartyReceivedHTLC e => Some (e + MIN_CLTV_EXPIRY_DELTA)
  | HolderHTLCTimeout e => Some (e + MIN_CLTV_EXPIRY_DELTA)
  | HolderFunding => None
  end.

(** One iteration of the [for (_, input) in self.inputs.iter()] loop. *)
Definition height_timer_step (counterparty_spendable_height current_height height_timer : Z) (i : pinput) : Z :=
  match i with
  | RevokedHTLCOutput => height_timer
  | HolderFunding => Z.min height_timer (current_height + HIGH_FREQUENCY_BUMP_INTERVAL)
  | _ =>
      match target_conf counterparty_spendable_height i with
      | Some t => Z.min height_timer (timer_for_target_conf current_height t)
      | None => height_timer
      end
  end.

Definition get_height_timer (inputs : list pinput) (counterparty_spendable_height current_height : Z) : Z :=
  fold_left (height_timer_step counterparty_spendable_height current_height) inputs
    (current_height + LOW_FREQUENCY_BUMP_INTERVAL).

(** No [u32] addition overflows (debug build): the initial [current_height + LOW], the additions
    inside the closure, and [cltv_expiry + MIN_CLTV_EXPIRY_DELTA] for the two timeout variants. *)
Definition height_timer_step_safe (counterparty_spendable_height current_height : Z) (i : pinput) : bool :=
  match i with
  | RevokedHTLCOutput => true
  | HolderFunding => current_height + HIGH_FREQUENCY_BUMP_INTERVAL <? 2 ^ 32
  | CounterpartyReceivedHTLC e | HolderHTLCTimeout e =>
      (e + MIN_CLTV_EXPIRY_DELTA <? 2 ^ 32) &&
      timer_for_target_conf_safe current_height (e + MIN_CLTV_EXPIRY_DELTA)
  | _ =>
      match target_conf counterparty_spendable_height i with
      | Some t => timer_for_target_conf_safe current_height t
      | None => true
      end
  end.

Definition get_height_timer_safe (inputs : list pinput) (counterparty_spendable_height current_height : Z) : bool :=
  (current_height + LOW_FREQUENCY_BUMP_INTERVAL <? 2 ^ 32) &&
  forallb (height_timer_step_safe counterparty_spendable_height current_height) inputs.

(** [PackageSolvingData::minimum_locktime] / [signed_locktime]. *)
Definition minimum_locktime (i : pinput) : option Z :=
  match i with CounterpartyReceivedHTLC e => Some e | _ => None end.
Definition signed_locktime (i : pinput) : option Z :=
  match i with HolderHTLCTimeout e => Some e | HolderHTLCPreimage => Some 0 | _ => None end.

(** [.iter().filter_map(minimum_locktime).max()] *)
Fixpoint max_minimum_locktime (inputs : list pinput) : option Z :=
  match inputs with
  | [] => None
  | i :: t =>
      match minimum_locktime i, max_minimum_locktime t with
      | Some a, Some b => Some (Z.max a b)
      | Some a, None => Some a
      | None, r => r
      end
  end.

(** [.iter().find_map(signed_locktime)] *)
Fixpoint first_signed_locktime (inputs : list pinput) : option Z :=
  match inputs with
  | [] => None
  | i :: t => match signed_locktime i with Some l => Some l | None => first_signed_locktime t end
  end.

Definition package_locktime (inputs : list pinput) (current_height : Z) : Z :=
  match first_signed_locktime inputs with
  | Some l => l
  | None => Z.max current_height (match max_minimum_locktime inputs with Some m => m | None => 0 end)
  end.

(** The two [debug_assert]s of [signed_locktime]/[package_locktime]: all signed locktimes agree,
    and a package with a signed locktime has no input with a minimum locktime. *)
Definition package_locktime_safe (inputs : list pinput) : bool :=
  match first_signed_locktime inputs with
  | Some l =>
      forallb (fun i => match signed_locktime i with Some l' => l' =? l | None => true end) inputs &&
      match max_minimum_locktime inputs with None => true | Some _ => false end
  | None => true
  end.
