(** C15 — the chunk dispatch of [PeerManager::do_read_event]
    ([match peer.channel_encryptor.get_noise_step() { .. }]), composed from the encryptor model
    ([Model/Noise.v]) and the message gate ([Model/PeerGate.v]), as the [handle] parameter of the
    reader of [Model/Framing.v].

    Chunk lengths are the ones in the source: act one/two 50 bytes, act three 66, length header
    18, body [msg_len + 16]. Not modelled: the second-connection check of [insert_node_id!]
    (needs two connections), an [Init] of ours too long to encrypt, the
    [pending_read_buffer.capacity() > 8192] reallocation (no functional effect). *)
Require Import LdkV.Prim.U64 LdkV.Gen.NoiseConsts.
From Coq Require Import List.
Import ListNotations.
Require Import LdkV.Model.Noise LdkV.Model.Framing LdkV.Model.PeerGate.
Open Scope Z_scope.

Record pstate := mk_p {
  p_enc : enc_state;       (* peer.channel_encryptor *)
  p_is_header : bool;      (* peer.pending_read_is_header *)
  p_gate : gstate }.       (* peer.their_features.is_some(), peer.message_batch *)

Section PeerRead.
  Variable dh : bytes -> bytes -> bytes.
  Variable pub : bytes -> bytes.
  Variable pk_valid : bytes -> bool.
  Variable hkdf2 : bytes -> bytes -> bytes * bytes.
  Variable H : bytes -> bytes.
  Variable seal : bytes -> Z -> bytes -> bytes -> bytes.
  Variable open : bytes -> Z -> bytes -> bytes -> option bytes.
  Variable decode : bytes -> dres.
  Variable init_ok : bytes -> bool.
  Variable handler_ok : bytes -> bool.
  (** this node: static secret ([node_signer]) and the ephemeral key [get_ephemeral_key()] returns
      when act one arrives (inbound connections only) *)
  Variable our_node_secret : bytes.
  Variable our_ephemeral : bytes.

  Definition peer_handle (p : pstate) (chunk : bytes) : chunk_res pstate event :=
    match get_noise_step (p_enc p) with
    | ActOne =>
      match process_act_one_with_keys dh pub pk_valid hkdf2 H seal open (p_enc p) chunk our_node_secret our_ephemeral with
      | None => CPanic
      | Some None => CErr []
      | Some (Some (act_two, e)) =>
        (* act three is 66 bytes long *)
        CNext (mk_p e (p_is_header p) (p_gate p)) 66%nat [EvOutRaw act_two]
      end
    | ActTwo =>
      match process_act_two dh pub pk_valid hkdf2 H seal open (p_enc p) chunk our_node_secret with
      | None => CPanic
      | Some None => CErr []
      | Some (Some (act_three, their_node_id, e)) =>
        (* message length header is 18 bytes; pending_read_is_header = true; our Init is enqueued *)
        CNext (mk_p e true (p_gate p)) 18%nat [EvOutRaw act_three; EvNoiseDone their_node_id]
      end
    | ActThree =>
      match process_act_three dh pk_valid hkdf2 H open (p_enc p) chunk with
      | None => CPanic
      | Some None => CErr []
      | Some (Some (their_node_id, e)) =>
        CNext (mk_p e true (p_gate p)) 18%nat [EvNoiseDone their_node_id]
      end
    | NoiseComplete =>
      match p_enc p with
      | Finished t =>
        if p_is_header p then
          match dec_header hkdf2 open t chunk with
          | None => CErr []
          | Some (msg_len, t') =>
            (* pending_read_buffer.resize(msg_len + 16); if msg_len < 2 { return Err } *)
            if msg_len <? MIN_MSG_LEN then CErr []
            else CNext (mk_p (Finished t') false (p_gate p)) (Z.to_nat msg_len + 16)%nat []
          end
        else
          match dec_body open t chunk with
          | None => CErr []
          | Some (m, t') =>
            (* reset read buffer to 18 bytes, pending_read_is_header = true, then decode + handle *)
            match gate_msg decode init_ok handler_ok (p_gate p) m with
            | (evs, Some b) => CNext (mk_p (Finished t') true b) 18%nat evs
            | (evs, None) => CErr evs
            end
          end
      | _ => CPanic
      end
    end.

  (** [new_inbound_connection]: waits for the 50 bytes of act one *)
  Definition inbound_conn : conn pstate :=
    mk_c (mk_r (mk_p (new_inbound pub H our_node_secret) false gate0) 50%nat []) Alive.

  (** [new_outbound_connection]: act one is returned to the caller, then waits for act two *)
  Definition outbound_conn (their_node_id ephemeral_key : bytes) : option (bytes * conn pstate) :=
    match get_act_one dh pub hkdf2 H seal (new_outbound H their_node_id ephemeral_key) with
    | None => None
    | Some (act_one, e) => Some (act_one, mk_c (mk_r (mk_p e false gate0) 50%nat []) Alive)
    end.

  (** a connection whose handshake is over, at a frame boundary *)
  Definition transport_conn (t : transport) (g : gstate) : conn pstate :=
    mk_c (mk_r (mk_p (Finished t) true g) 18%nat []) Alive.
End PeerRead.
