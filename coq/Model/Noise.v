(** C15 — model of [lightning/src/ln/peer_channel_encryptor.rs] ([PeerChannelEncryptor]).

    The BOLT-8 handshake (three acts, 50/50/66 bytes) and the transport cipher state
    [(sk, sn, sck, rk, rn, rck)] with its key-rotation rule, over ABSTRACT primitives:
    [dh] (ECDH), [pub] (secret key to 33-byte compressed public key), [pk_valid]
    ([PublicKey::from_slice] succeeded), [hkdf2] ([hkdf_extract_expand_twice]), [H] (SHA-256),
    [seal]/[open] (ChaCha20-Poly1305 with the 96-bit nonce [0^32 || le64 n]; [seal] returns
    ciphertext ++ 16-byte tag). No law about the primitives is assumed in this file; the laws each
    theorem needs are section hypotheses of [Proofs/C15*.v]. Executable instances are in
    [Model/NoiseInst.v].

    Every function follows the Rust function of the same name branch by branch; an [Err(..)]
    (always [ErrorAction::DisconnectPeer] in this file) is [None]: the caller
    ([PeerManager::do_read_event]) drops the connection and the encryptor with it, so no state is
    returned. The rotation thresholds and [LN_MAX_MSG_LEN] come from [Gen/NoiseConsts.v], which is
    regenerated from the source on every run. *)
Require Import LdkV.Prim.U64 LdkV.Gen.NoiseConsts.
From Coq Require Import List.
Import ListNotations.
Open Scope Z_scope.

Definition bytes := list Z.

(** [u16::to_be_bytes] / [u16::from_be_bytes] *)
Definition be16 (n : Z) : bytes := [n / 256; n mod 256].
Definition be16_dec (p : bytes) : Z := nth 0 p 0 * 256 + nth 1 p 0.
Definition blen (b : bytes) : Z := Z.of_nat (length b).

(** [&x[a..b]] on a slice *)
Definition slice (a b : nat) (x : bytes) : bytes := firstn (b - a) (skipn a x).

(** handshake: [BidirectionalNoiseState] *)
Record hs := mk_hs { hs_h : bytes; hs_ck : bytes }.

(** transport: [NoiseState::Finished] *)
Record transport := mk_tr {
  t_sk : bytes; t_sn : Z; t_sck : bytes;
  t_rk : bytes; t_rn : Z; t_rck : bytes }.

(** [NoiseState] x [NoiseStep] x [DirectionalNoiseState], flattened to the reachable combinations *)
Inductive enc_state :=
| OutPreActOne (ie : bytes) (their_node_id : bytes) (st : hs)
| OutPostActOne (ie : bytes) (their_node_id : bytes) (st : hs)
| InPreActOne (st : hs)
| InPostActTwo (ie_pub : bytes) (re : bytes) (temp_k2 : bytes) (st : hs)
| Finished (t : transport).

Inductive noise_step := ActOne | ActTwo | ActThree | NoiseComplete.

Section Noise.
  Variable dh : bytes -> bytes -> bytes.          (* SharedSecret::new(&pk, &sk), as [dh sk pk] *)
  Variable pub : bytes -> bytes.                  (* PublicKey::from_secret_key(..).serialize() *)
  Variable pk_valid : bytes -> bool.              (* PublicKey::from_slice(..).is_ok() *)
  Variable hkdf2 : bytes -> bytes -> bytes * bytes. (* hkdf_extract_expand_twice(salt, ikm) *)
  Variable H : bytes -> bytes.                    (* Sha256 of the concatenated inputs *)
  Variable seal : bytes -> Z -> bytes -> bytes -> bytes.          (* key n ad plaintext *)
  Variable open : bytes -> Z -> bytes -> bytes -> option bytes.   (* key n ad ciphertext||tag *)

  (** [new_outbound] / [new_inbound]: both hash the RESPONDER's static public key into [h]. *)
  Definition init_hs (responder_static_pub : bytes) : hs :=
    mk_hs (H (NOISE_H ++ responder_static_pub)) NOISE_CK.
  Definition new_outbound (their_node_id ephemeral_key : bytes) : enc_state :=
    OutPreActOne ephemeral_key their_node_id (init_hs their_node_id).
  Definition new_inbound (our_node_secret : bytes) : enc_state :=
    InPreActOne (init_hs (pub our_node_secret)).

  (** [hkdf]: chaining-key update, returns the temporary key *)
  Definition hkdf_step (st : hs) (ss : bytes) : hs * bytes :=
    let '(t1, t2) := hkdf2 (hs_ck st) ss in (mk_hs (hs_h st) t1, t2).

  (** [outbound_noise_act] : (act, temp_k, state') *)
  Definition outbound_noise_act (st : hs) (our_key their_key : bytes) : bytes * bytes * hs :=
    let our_pub := pub our_key in
    let st := mk_hs (H (hs_h st ++ our_pub)) (hs_ck st) in
    let ss := dh our_key their_key in
    let '(st, temp_k) := hkdf_step st ss in
    let c := seal temp_k 0 (hs_h st) [] in
    let res := 0 :: our_pub ++ c in
    let st := mk_hs (H (hs_h st ++ c)) (hs_ck st) in
    (res, temp_k, st).

  (** [inbound_noise_act] with [secret_key] either the in-memory ephemeral key or the node
      signer's key: (their_pub, temp_k, state') *)
  Definition inbound_noise_act (st : hs) (act : bytes) (secret_key : bytes)
    : option (bytes * bytes * hs) :=
    if negb (nth 0 act 0 =? 0) then None   (* "Unknown handshake version number" *)
    else
      let their_pub := slice 1 34 act in
      if negb (pk_valid their_pub) then None   (* "Invalid public key" *)
      else
        let st := mk_hs (H (hs_h st ++ their_pub)) (hs_ck st) in
        let ss := dh secret_key their_pub in
        let '(st, temp_k) := hkdf_step st ss in
        match open temp_k 0 (hs_h st) (skipn 34 act) with
        | None => None   (* "Bad MAC" *)
        | Some _ =>
          let st := mk_hs (H (hs_h st ++ skipn 34 act)) (hs_ck st) in
          Some (their_pub, temp_k, st)
        end.

  Definition get_noise_step (e : enc_state) : noise_step :=
    match e with
    | OutPreActOne _ _ _ | InPreActOne _ => ActOne
    | OutPostActOne _ _ _ => ActTwo
    | InPostActTwo _ _ _ _ => ActThree
    | Finished _ => NoiseComplete
    end.

  (** [get_act_one]; [None] stands for the [panic!] arms (wrong direction / wrong step), which
      [PeerManager] never reaches ([Proofs/C15]: [reader_no_panic]). *)
  Definition get_act_one (e : enc_state) : option (bytes * enc_state) :=
    match e with
    | OutPreActOne ie their st =>
      let '(res, _, st) := outbound_noise_act st ie their in
      Some (res, OutPostActOne ie their st)
    | _ => None
    end.

  (** [process_act_one_with_keys]; the outer option is the panic arm, the inner one [Err] *)
  Definition process_act_one_with_keys (e : enc_state) (act_one : bytes)
      (our_node_secret our_ephemeral : bytes) : option (option (bytes * enc_state)) :=
    match e with
    | InPreActOne st =>
      Some (match inbound_noise_act st act_one our_node_secret with
            | None => None
            | Some (their_pub, _, st) =>
              let '(res, temp_k, st) := outbound_noise_act st our_ephemeral their_pub in
              Some (res, InPostActTwo their_pub our_ephemeral temp_k st)
            end)
    | _ => None
    end.

  (** [process_act_two] : (act three, their_node_id, Finished) *)
  Definition process_act_two (e : enc_state) (act_two : bytes) (our_node_secret : bytes)
    : option (option (bytes * bytes * enc_state)) :=
    match e with
    | OutPostActOne ie their st =>
      Some (match inbound_noise_act st act_two ie with
            | None => None
            | Some (re, temp_k2, st) =>
              let our_node_id := pub our_node_secret in
              let c1 := seal temp_k2 1 (hs_h st) our_node_id in
              let st := mk_hs (H (hs_h st ++ c1)) (hs_ck st) in
              let ss := dh our_node_secret re in
              let '(st, temp_k) := hkdf_step st ss in
              let c2 := seal temp_k 0 (hs_h st) [] in
              let '(sk, rk) := hkdf2 (hs_ck st) [] in
              let ck := hs_ck st in
              Some (0 :: c1 ++ c2, their, Finished (mk_tr sk 0 ck rk 0 ck))
            end)
    | _ => None
    end.

  (** [process_act_three] : (their_node_id, Finished) *)
  Definition process_act_three (e : enc_state) (act_three : bytes)
    : option (option (bytes * enc_state)) :=
    match e with
    | InPostActTwo _ re temp_k2 st =>
      Some (if negb (nth 0 act_three 0 =? 0) then None
            else
              match open temp_k2 1 (hs_h st) (slice 1 50 act_three) with
              | None => None
              | Some their_node_id =>
                if negb (pk_valid their_node_id) then None   (* "Bad node_id from peer" *)
                else
                  let st := mk_hs (H (hs_h st ++ slice 1 50 act_three)) (hs_ck st) in
                  let ss := dh re their_node_id in
                  let '(st, temp_k) := hkdf_step st ss in
                  match open temp_k 0 (hs_h st) (skipn 50 act_three) with
                  | None => None
                  | Some _ =>
                    let '(rk, sk) := hkdf2 (hs_ck st) [] in
                    let ck := hs_ck st in
                    Some (their_node_id, Finished (mk_tr sk 0 ck rk 0 ck))
                  end
              end)
    | _ => None
    end.

  (** ** Transport *)

  (** the rotation at the top of [encrypt_message_with_header_0s] *)
  Definition rotate_send (t : transport) : transport :=
    if ROT_SEND <=? t_sn t then
      let '(new_sck, new_sk) := hkdf2 (t_sck t) (t_sk t) in
      mk_tr new_sk 0 new_sck (t_rk t) (t_rn t) (t_rck t)
    else t.

  (** the rotation at the top of [decrypt_length_header] *)
  Definition rotate_recv (t : transport) : transport :=
    if ROT_RECV <=? t_rn t then
      let '(new_rck, new_rk) := hkdf2 (t_rck t) (t_rk t) in
      mk_tr (t_sk t) (t_sn t) (t_sck t) new_rk 0 new_rck
    else t.

  (** [encrypt_message_with_header_0s] on an encoded message [m] (type bytes included):
      [Err(())] if it is longer than [LN_MAX_MSG_LEN]. Two nonces per message. *)
  Definition enc_msg (t : transport) (m : bytes) : option (bytes * transport) :=
    if LN_MAX_MSG_LEN <? blen m then None
    else
      let t := rotate_send t in
      let hdr := seal (t_sk t) (t_sn t) [] (be16 (blen m)) in
      let sn1 := t_sn t + 1 in
      let body := seal (t_sk t) sn1 [] m in
      let sn2 := sn1 + 1 in
      Some (hdr ++ body, mk_tr (t_sk t) sn2 (t_sck t) (t_rk t) (t_rn t) (t_rck t)).

  (** [decrypt_length_header] (the caller passes exactly 18 bytes) *)
  Definition dec_header (t : transport) (hdr : bytes) : option (Z * transport) :=
    let t := rotate_recv t in
    match open (t_rk t) (t_rn t) [] hdr with
    | None => None
    | Some res =>
      Some (be16_dec res, mk_tr (t_sk t) (t_sn t) (t_sck t) (t_rk t) (t_rn t + 1) (t_rck t))
    end.

  (** [decrypt_message]: [Err] if the buffer is longer than [LN_MAX_MSG_LEN + 16] *)
  Definition dec_body (t : transport) (body : bytes) : option (bytes * transport) :=
    if LN_MAX_MSG_LEN + 16 <? blen body then None
    else
      match open (t_rk t) (t_rn t) [] body with
      | None => None
      | Some m =>
        Some (m, mk_tr (t_sk t) (t_sn t) (t_sck t) (t_rk t) (t_rn t + 1) (t_rck t))
      end.

  (** sender side of a whole conversation: state threaded through [enc_msg] *)
  Fixpoint enc_all (t : transport) (ms : list bytes) : option (list bytes * transport) :=
    match ms with
    | [] => Some ([], t)
    | m :: ms' =>
      match enc_msg t m with
      | None => None
      | Some (c, t') =>
        match enc_all t' ms' with
        | None => None
        | Some (cs, t'') => Some (c :: cs, t'')
        end
      end
    end.
End Noise.
