(** C07, claim-coverage layer: a hand model of what a [ChannelMonitor] does after ONE non-revoked
    commitment transaction of the channel confirmed (unilateral close), for chain notifications
    delivered in order (block by block; delivery styles and reorgs are C11's subject).

    Code mirrored (lightning/src/chain/channelmonitor.rs unless noted):
    - which HTLC outputs get a claim request and of which kind: [get_broadcasted_holder_claims] /
      [get_broadcasted_holder_htlc_descriptors] (holder commitment) and
      [get_counterparty_output_claim_info] (counterparty commitment), re-run by
      [provide_payment_preimage];
    - when a claim may be broadcast and with which nLockTime: [PackageTemplate::package_locktime]
      (Model/PackageTimer.v, functionally tied) and the [package_locktime > cur_height] delay of
      [OnchainTxHandler::update_claims_view_from_requests] (chain/onchaintx.rs);
    - what a confirmed spend of an HTLC output records: [is_resolving_htlc_output]
      ([HTLCUpdate] / [HTLCSpendConfirmation]) and [check_tx_and_push_spendable_outputs] /
      [get_spendable_outputs] ([MaturingOutput]);
    - maturation: [block_confirmed] with [OnchainEventEntry::confirmation_threshold] (the
      rs2v-generated [confirmation_threshold] of Gen/CltvChecks.v);
    - [get_claimable_balances] / [get_htlc_balance].
    Amounts are "gross": an HTLC counts with [amount_msat / 1000], as the balances do; fees of claim
    transactions are not modelled. No proofs in this file. *)
Require Import LdkV.Prim.U64 LdkV.Gen.Consts LdkV.Gen.Package LdkV.Gen.CltvChecks LdkV.Model.PackageTimer.
Open Scope Z_scope.

(** * Closure state *)

Inductive side := HolderTx | CounterpartyTx.

Record htlc := mkHtlc {
  h_outbound : bool;    (* offered by this node (for a holder tx: [htlc.offered]; counterparty tx: [!htlc.offered]) *)
  h_amt : Z;            (* amount_msat / 1000 *)
  h_expiry : Z;         (* cltv_expiry *)
  h_output : bool;      (* non-dust: transaction_output_index.is_some() *)
  h_hash : Z            (* payment hash; several HTLCs of one commitment may share it (parts of one
                           multi-part payment over this channel, re-used hashes) *)
}.

Record closure := mkClosure {
  c_side : side;        (* whose commitment confirmed *)
  c_height : Z;         (* height of the block that confirmed it *)
  c_main : Z;           (* value of this node's own balance output (to_local / to_remote), 0 if none *)
  c_csv : Z;            (* on_holder_tx_csv: delay on this node's outputs of its own transactions *)
  c_htlcs : list htlc
}.

(** * Claims *)

Inductive claim_kind := ByTimeout | ByPreimage.

(** Which claim the monitor requests for an HTLC, given whether it knows the preimage. *)
Definition claim_request (h : htlc) (known : bool) : option claim_kind :=
  if negb (h_output h) then None
  else if h_outbound h then Some ByTimeout
  else if known then Some ByPreimage
  else None.

(** The package input the request becomes. *)
Definition claim_input (s : side) (k : claim_kind) (h : htlc) : pinput :=
  match s, k with
  | HolderTx, ByTimeout => HolderHTLCTimeout (h_expiry h)
  | HolderTx, ByPreimage => HolderHTLCPreimage
  | CounterpartyTx, ByTimeout => CounterpartyReceivedHTLC (h_expiry h)
  | CounterpartyTx, ByPreimage => CounterpartyOfferedHTLC (h_expiry h)
  end.

(** nLockTime of the claim when generated at height [cur]. *)
Definition claim_locktime (s : side) (k : claim_kind) (h : htlc) (cur : Z) : Z :=
  package_locktime [claim_input s k h] cur.

(** [update_claims_view_from_requests]: a request whose locktime is above the current height waits in
    [locktimed_packages]; otherwise the claim is generated (and broadcast) now. *)
Definition claim_released (s : side) (k : claim_kind) (h : htlc) (cur : Z) : bool :=
  negb (cur <? claim_locktime s k h cur).

(** The first height at which the claim is broadcast, for a request made at height [req] (the height
    the commitment confirmed, or the height the preimage arrived if later). *)
Definition first_broadcast (k : claim_kind) (h : htlc) (req : Z) : Z :=
  match k with ByTimeout => Z.max req (h_expiry h) | ByPreimage => req end.

(** * Chain events and the monitor's bookkeeping *)

(** [OnchainEvent] variants that matter here, keyed by the HTLC's index in [c_htlcs]. *)
Inductive ev :=
| EvFundingSpend (csv : option Z)
| EvHTLCUpdate (idx : nat)
| EvHTLCSpend (idx : nat) (preimage : bool) (csv : option Z)
| EvMaturing (gross : Z) (src : option nat) (delayed : option Z).

Record entry := mkEntry { en_height : Z; en_ev : ev }.

Definition threshold (e : entry) : Z :=
  match en_ev e with
  | EvFundingSpend csv | EvHTLCSpend _ _ csv =>
      confirmation_threshold (en_height e) OnchainEventKind_SpendConfirmation 0 csv
  | EvMaturing _ _ (Some d) =>
      confirmation_threshold (en_height e) OnchainEventKind_MaturingDelayedPaymentOutput d None
  | EvMaturing _ _ None | EvHTLCUpdate _ =>
      confirmation_threshold (en_height e) OnchainEventKind_Other 0 None
  end.

Record mstate := mkState {
  best : Z;
  awaiting : list entry;            (* onchain_events_awaiting_threshold_conf *)
  resolved : list nat;              (* htlcs_resolved_on_chain (by index) *)
  spendable : list (Z * option nat);(* SpendableOutputs emitted: gross value, HTLC it derives from *)
  known : list nat                  (* payment_preimages (by index) *)
}.

Definition knows (st : mstate) (i : nat) : bool := existsb (Nat.eqb i) (known st).

(** A confirmed transaction spending HTLC output [sp_idx] of the commitment. *)
Record spend := mkSpend { sp_idx : nat; sp_ours : bool; sp_preimage : bool }.

Inductive op :=
| OpBlock (advance : bool) (txs : list spend)
    (* [advance = true]: the next block, these spends confirm in it; [false]: further transactions of
       the current block (e.g. an HTLC transaction mined together with the commitment) *)
| OpPreimage (idx : nat).      (* ChannelMonitorUpdateStep::PaymentPreimage *)

Definition delayed_of (c : closure) : option Z :=
  match c_side c with HolderTx => Some (c_csv c) | CounterpartyTx => None end.

(** [is_resolving_htlc_output] + [check_tx_and_push_spendable_outputs] for one spend at height [h]. *)
Definition spend_entries (c : closure) (h : Z) (s : spend) : list entry :=
  match nth_error (c_htlcs c) (sp_idx s) with
  | None => []
  | Some ht =>
      let resolution :=
        if h_outbound ht then
          (* an HTLC we offered: the source is known *)
          if sp_preimage s then mkEntry h (EvHTLCSpend (sp_idx s) true None)
          else mkEntry h (EvHTLCUpdate (sp_idx s))
        else
          (* an HTLC offered to us: no source; CSV only for our own HTLC-success on our own tx *)
          mkEntry h (EvHTLCSpend (sp_idx s) (sp_preimage s)
                       (match c_side c with
                        | HolderTx => if sp_preimage s then Some (c_csv c) else None
                        | CounterpartyTx => None end)) in
      resolution ::
      (if sp_ours s then [mkEntry h (EvMaturing (h_amt ht) (Some (sp_idx s)) (delayed_of c))] else [])
  end.

(** [block_confirmed]: events that reached their threshold act, the others keep waiting. *)
Definition mature_one (st : mstate) (e : entry) : mstate :=
  match en_ev e with
  | EvFundingSpend _ => st
  | EvHTLCUpdate i | EvHTLCSpend i _ _ =>
      mkState (best st) (awaiting st) (i :: resolved st) (spendable st) (known st)
  | EvMaturing g src _ =>
      mkState (best st) (awaiting st) (resolved st) ((g, src) :: spendable st) (known st)
  end.

Definition block_confirmed (st : mstate) : mstate :=
  let reached := filter (fun e => threshold e <=? best st) (awaiting st) in
  let waiting := filter (fun e => negb (threshold e <=? best st)) (awaiting st) in
  fold_left mature_one reached
    (mkState (best st) waiting (resolved st) (spendable st) (known st)).

(** The state right after the block that confirms the commitment ([transactions_confirmed] on the
    commitment transaction, then [block_confirmed]). *)
Definition init (c : closure) (known0 : list nat) : mstate :=
  block_confirmed
    (mkState (c_height c)
       (mkEntry (c_height c) (EvFundingSpend (delayed_of c)) ::
        (if 0 <? c_main c then [mkEntry (c_height c) (EvMaturing (c_main c) None (delayed_of c))] else []))
       [] [] known0).

Definition step (c : closure) (st : mstate) (o : op) : mstate :=
  match o with
  | OpPreimage i => mkState (best st) (awaiting st) (resolved st) (spendable st) (i :: known st)
  | OpBlock adv txs =>
      let h := if adv then best st + 1 else best st in
      block_confirmed
        (mkState h (awaiting st ++ flat_map (spend_entries c h) txs) (resolved st) (spendable st) (known st))
  end.

Definition run (c : closure) (known0 : list nat) (ops : list op) : mstate :=
  fold_left (step c) ops (init c known0).

(** * Claims in flight, per OUTPUT

    An HTLC output is identified by its index (= its outpoint in the confirmed commitment), never by its
    payment hash. It is spent as far as the monitor knows once an event about it was recorded. *)
Definition about_idx (i : nat) (e : ev) : bool :=
  match e with
  | EvHTLCUpdate j | EvHTLCSpend j _ _ => Nat.eqb i j
  | EvMaturing _ (Some j) _ => Nat.eqb i j
  | _ => false
  end.
Definition spent_b (st : mstate) (i : nat) : bool :=
  existsb (fun e => about_idx i (en_ev e)) (awaiting st) || existsb (Nat.eqb i) (resolved st).

(** is output [i] being claimed by the node right now? *)
Definition claiming_b (c : closure) (st : mstate) (i : nat) (h : htlc) : bool :=
  negb (spent_b st i) &&
  match claim_request h (knows st i) with
  | Some k => claim_released (c_side c) k h (best st)
  | None => false
  end.

Fixpoint claiming_from (c : closure) (st : mstate) (i : nat) (hs : list htlc) : list nat :=
  match hs with
  | [] => []
  | h :: t => (if claiming_b c st i h then [i] else []) ++ claiming_from c st (S i) t
  end.
Definition claiming (c : closure) (st : mstate) : list nat := claiming_from c st 0 (c_htlcs c).

(** learning the preimage of payment hash [H]: [provide_payment_preimage] records it for the hash, i.e.
    for EVERY HTLC of the commitment carrying that hash *)
Fixpoint indices_with_hash (H : Z) (i : nat) (hs : list htlc) : list nat :=
  match hs with
  | [] => []
  | h :: t => (if h_hash h =? H then [i] else []) ++ indices_with_hash H (S i) t
  end.
Definition learn (c : closure) (H : Z) : list op := map OpPreimage (indices_with_hash H 0 (c_htlcs c)).

(** * [get_claimable_balances] *)

Inductive balance :=
| BalAwaiting (amt : Z)          (* ClaimableAwaitingConfirmations *)
| BalContentious (amt : Z)       (* ContentiousClaimable *)
| BalMaybeTimeout (amt : Z)      (* MaybeTimeoutClaimableHTLC *)
| BalMaybePreimage (amt : Z).    (* MaybePreimageClaimableHTLC *)

(** what the node counts as (possibly) its own *)
Definition counted (b : balance) : Z :=
  match b with
  | BalAwaiting a | BalContentious a | BalMaybeTimeout a => a
  | BalMaybePreimage _ => 0
  end.

Definition ev_is (p : ev -> bool) (st : mstate) : bool := existsb (fun e => p (en_ev e)) (awaiting st).

(** [get_htlc_balance] (the non-revoked branches; [htlc_output_spend_pending] is always false without
    a revoked transaction). *)
Definition htlc_balance (st : mstate) (i : nat) (h : htlc) : option balance :=
  if negb (h_output h) then None else
  let timeout_spend_pending := ev_is (fun e => match e with EvHTLCUpdate j => Nat.eqb i j | _ => false end) st in
  let preimage_spend_pending := ev_is (fun e => match e with EvHTLCSpend j true _ => Nat.eqb i j | _ => false end) st in
  let delayed_output_pending :=
    ev_is (fun e => match e with EvMaturing _ (Some j) (Some _) => Nat.eqb i j | _ => false end) st in
  let htlc_resolved := existsb (Nat.eqb i) (resolved st) in
  if delayed_output_pending then Some (BalAwaiting (h_amt h))
  else if htlc_resolved then None
  else if h_outbound h then
    if timeout_spend_pending then Some (BalAwaiting (h_amt h)) else Some (BalMaybeTimeout (h_amt h))
  else if knows st i then
    if preimage_spend_pending then Some (BalAwaiting (h_amt h)) else Some (BalContentious (h_amt h))
  else Some (BalMaybePreimage (h_amt h)).

Fixpoint htlc_balances_from (st : mstate) (i : nat) (hs : list htlc) : list balance :=
  match hs with
  | [] => []
  | h :: t =>
      match htlc_balance st i h with Some b => [b] | None => [] end ++ htlc_balances_from st (S i) t
  end.

Definition main_balance (c : closure) (st : mstate) : list balance :=
  let funding_pending := ev_is (fun e => match e with EvFundingSpend _ => true | _ => false end) st in
  if funding_pending then
    match c_side c with
    | HolderTx => [BalAwaiting (c_main c)]
    | CounterpartyTx =>
        if ev_is (fun e => match e with EvMaturing _ None None => true | _ => false end) st
        then [BalAwaiting (c_main c)] else []
    end
  else [].

Definition balances (c : closure) (st : mstate) : list balance :=
  main_balance c st ++ htlc_balances_from st 0 (c_htlcs c).

Definition sumz (l : list Z) : Z := fold_right Z.add 0 l.
Definition balance_total (c : closure) (st : mstate) : Z := sumz (map counted (balances c st)).
Definition spendable_total (st : mstate) : Z := sumz (map fst (spendable st)).

(** * Duplicate filter of [update_claims_view_from_requests] (chain/onchaintx.rs)

    [tracked]: outpoints in [claimable_outpoints]; [locked]: the packages in [locktimed_packages] with
    their locktime, each a list of outpoints. New requests always carry ONE outpoint. *)
Record claims_view := mkView { tracked : list Z; locked : list (Z * list Z) }.

Definition list_eqb (a b : list Z) : bool :=
  (Nat.eqb (List.length a) (List.length b)) && forallb (fun p => fst p =? snd p) (combine a b).

(** the [requests.retain] at the top: drop a request whose outpoint is tracked, or for which a
    time-locked package with EXACTLY that outpoint list waits *)
Definition keep_request (v : claims_view) (o : Z) : bool :=
  negb (existsb (Z.eqb o) (tracked v)) && negb (existsb (fun p => list_eqb (snd p) [o]) (locked v)).

(** aggregation of the surviving requests of one locktime into one package, then either released
    (tracked) or parked until the locktime *)
Definition add_requests (v : claims_view) (cur locktime : Z) (reqs : list Z) : claims_view :=
  let fresh := filter (keep_request v) reqs in
  match fresh with
  | [] => v
  | _ => if cur <? locktime then mkView (tracked v) (locked v ++ [(locktime, fresh)])
         else mkView (tracked v ++ fresh) (locked v)
  end.

(** all outpoints some pending claim intends to spend *)
Definition in_flight (v : claims_view) : list Z := tracked v ++ flat_map snd (locked v).

(** * Funding scopes (a splice / RBF that is negotiated but not locked)

    The monitor holds its current [FundingScope] and the pending ones, each with its own commitment
    transactions and therefore its own value of this node's balance output. Which scope a confirmed
    commitment belongs to is decided by [get_confirmed_funding_scope!]: the pending scope whose funding
    transaction is recorded in [alternative_funding_confirmed], else the current one. Everything said
    about the confirmed commitment -- its balance above all -- must be read from THAT scope. *)
Record scope := mkScope {
  s_funding : Z;          (* funding txid of the scope *)
  s_holder_main : Z;      (* to_broadcaster_value_sat of this scope's holder commitment *)
  s_counterparty_main : Z (* value of this node's output in this scope's counterparty commitment *)
}.

Definition confirmed_scope (current : scope) (pending : list scope) (alt : option Z) : scope :=
  match alt with
  | Some t => match find (fun s => s_funding s =? t) pending with Some s => s | None => current end
  | None => current
  end.

Definition scope_main (sd : side) (s : scope) : Z :=
  match sd with HolderTx => s_holder_main s | CounterpartyTx => s_counterparty_main s end.

(** the closure as the monitor sees it: side, height, CSV and HTLCs as given, the main value read from
    the scope the confirmed commitment spends *)
Definition closure_in (sd : side) (h csv : Z) (hs : list htlc) (current : scope) (pending : list scope)
           (alt : option Z) : closure :=
  mkClosure sd h (scope_main sd (confirmed_scope current pending alt)) csv hs.
