(** C19: [MonitorUpdatingPersister] (lightning/src/util/persist.rs) over the KV specification.
    Abstract monitor = (latest_update_id, state); [apply] is [ChannelMonitor::update_monitor]'s effect
    on the state, [uid] the update's [update_id].  Executable; no proofs here.

    Scope: one persister driven sequentially (the sync [Persist] implementation, or the async one with
    completions in issue order); the pre-0.1 [LEGACY_CLOSED_CHANNEL_UPDATE_ID] = u64::MAX special cases
    are represented in the update-vs-full decision but the theorems assume ids below it. *)
Require Import LdkV.Prim.U64 LdkV.Model.KV.
Open Scope Z_scope.
Local Open Scope list_scope.

(** persist.rs key layout: CHANNEL_MONITOR_PERSISTENCE_PRIMARY_NAMESPACE/""/<monitor>,
    CHANNEL_MONITOR_UPDATE_PERSISTENCE_PRIMARY_NAMESPACE/<monitor>/<update_id>,
    ARCHIVED_CHANNEL_MONITOR_PERSISTENCE_PRIMARY_NAMESPACE/""/<monitor>, anything else. *)
Inductive mkey := KMon (m : Z) | KUpd (m : Z) (id : Z) | KArch (m : Z) | KOther (x : Z).
Definition mkey_eqb (a b : mkey) : bool :=
  match a, b with
  | KMon x, KMon y => x =? y
  | KUpd x i, KUpd y j => (x =? y) && (i =? j)
  | KArch x, KArch y => x =? y
  | KOther x, KOther y => x =? y
  | _, _ => false
  end.

Definition LEGACY_ID : Z := 2 ^ 64 - 1.

Section MUP.
Variables (St Up : Type).
Variable apply : St -> Up -> St.
Variable uid : Up -> Z.
(** [ChannelMonitor::update_monitor] may REFUSE an update (return [Err]) although it changes the state,
    e.g. a commitment update after the monitor saw the funding output spent; [ChainMonitor] then has the
    persister store the full monitor ([update_persisted_channel(.., None, ..)]) instead of the update. *)
Variable refuses : St -> Up -> bool.

Record monitor := { mid : Z; mst : St }.
Inductive val := VMon (sentinel : bool) (mon : monitor) | VUpd (u : Up) | VRaw (x : Z).

Notation mstore := (store mkey val).
Notation mstate := (sstate mkey val).
Notation mop := (sop mkey val).

(** [ChannelMonitor::update_monitor]: panics on a non-consecutive id (channelmonitor.rs:4220). *)
Inductive rres := ROk (mon : monitor) | RPanic | RErr | RNotFound.
Definition update_monitor (mon : monitor) (u : Up) : rres :=
  if uid u =? mid mon + 1 then
    if refuses (mst mon) u then RErr else ROk {| mid := uid u; mst := apply (mst mon) u |}
  else RPanic.

(** [persist_new_channel]: one write of the full monitor (with the sentinel unless
    maximum_pending_updates = 0). *)
Definition persist_new_ops (maxp m : Z) (mon : monitor) : list mop :=
  [SWrite (KMon m) (VMon (negb (maxp =? 0)) mon)].

Fixpoint zrange_from (start : Z) (n : nat) : list Z :=
  match n with O => [] | S n' => start :: zrange_from (start + 1) n' end.
(** [start..=end] *)
Definition zrange_incl (start end_ : Z) : list Z := zrange_from start (Z.to_nat (end_ - start + 1)).

(** [cleanup_in_range]: lazy removes of every id in [start..=end]. *)
Definition cleanup_in_range_ops (m start end_ : Z) : list mop :=
  map (fun i => SRemove (KUpd m i) true) (zrange_incl start end_).

Definition upd_ids (st : mstore) (m : Z) : list Z :=
  flat_map (fun kv => match fst kv with KUpd m' i => if m' =? m then [i] else [] | _ => [] end) st.
Definition mon_keys (st : mstore) : list Z :=
  flat_map (fun kv => match fst kv with KMon m => [m] | _ => [] end) st.

(** [cleanup_stale_updates_for_monitor_to] over what [list] returned. *)
Definition cleanup_to_ops (st : mstore) (m latest : Z) (lazy : bool) : list mop :=
  map (fun i => SRemove (KUpd m i) lazy) (filter (fun i => i <=? latest) (upd_ids st m)).

(** [update_persisted_channel]: update-vs-full decision, full write followed by the in-range clean-up.
    [mon] is the in-memory monitor AFTER the update was applied. *)
Definition update_ops (maxp m : Z) (st : mstore) (upd : option Up) (mon : monitor) : list mop :=
  match upd with
  | Some u =>
    if negb (uid u =? LEGACY_ID) && negb (maxp =? 0) && negb (uid u mod maxp =? 0) then
      [SWrite (KUpd m (uid u)) (VUpd u)]
    else
      persist_new_ops maxp m mon ++
      (if mid mon =? LEGACY_ID then cleanup_to_ops st m (mid mon) true
       else cleanup_in_range_ops m (sat_sub (mid mon) maxp) (mid mon))
  | None => persist_new_ops maxp m mon
  end.

(** [cleanup_stale_updates]: for every listed monitor, remove the listed updates with id <= the stored
    monitor's id. *)
Definition cleanup_stale_ops (st : mstore) (lazy : bool) : list mop :=
  flat_map (fun m => match kv_get mkey_eqb st (KMon m) with
                     | Some (VMon _ mon) => cleanup_to_ops st m (mid mon) lazy
                     | _ => []
                     end) (mon_keys st).

(** Insertion sort ([updates.sort_unstable()] on ids). *)
Fixpoint zinsert (x : Z) (l : list Z) : list Z :=
  match l with [] => [x] | y :: r => if x <=? y then x :: l else y :: zinsert x r end.
Definition zsort (l : list Z) : list Z := fold_right zinsert [] l.

Fixpoint apply_updates (st : mstore) (m : Z) (mon : monitor) (ids : list Z) : rres :=
  match ids with
  | [] => ROk mon
  | i :: r =>
    match kv_get mkey_eqb st (KUpd m i) with
    | Some (VUpd u) =>
      (* updates live under independent keys: a later one may have become durable before an earlier
         one; stop at the first gap (nothing beyond it was reported persisted) *)
      if negb (uid u =? LEGACY_ID) && negb (uid u =? mid mon + 1) then ROk mon
      else
        match update_monitor mon u with
        | ROk mon' => apply_updates st m mon' r
        | e => e
        end
    | _ => RErr
    end
  end.

(** [maybe_read_channel_monitor_with_updates]: stored monitor, then every listed update with id above
    the monitor's, in ascending order. *)
Definition read_with_updates (st : mstore) (m : Z) : rres :=
  match kv_get mkey_eqb st (KMon m) with
  | Some (VMon _ mon) => apply_updates st m mon (zsort (filter (fun i => mid mon <? i) (upd_ids st m)))
  | _ => RNotFound
  end.

(** [archive_persisted_channel]: read with updates, write the archive copy, lazily remove the monitor. *)
Definition archive_ops (st : mstore) (m : Z) : list mop :=
  match read_with_updates st m with
  | ROk mon => [SWrite (KArch m) (VMon false mon); SRemove (KMon m) true]
  | _ => []
  end.

(** The persister's API calls.  [CCleanup]/[CArchive] observe the store through a view in which the
    limbo keys [gone] have already disappeared.  [COther] = any store traffic not touching the
    monitor under consideration (other monitors, manager, graph, scorer ...). *)
Inductive call :=
| CNew (m : Z) (mon : monitor)
| CUpdate (m : Z) (u : option Up) (mon : monitor)
| CCleanup (lazy : bool) (gone : list mkey)
| COther (ops : list mop).

Definition call_ops (maxp : Z) (s : mstate) (c : call) : list mop :=
  match c with
  | CNew m mon => persist_new_ops maxp m mon
  | CUpdate m u mon => update_ops maxp m (durable s) u mon
  | CCleanup lazy gone => cleanup_stale_ops (view mkey_eqb s gone) lazy
  | COther ops => ops
  end.

Definition run_call (maxp : Z) (s : mstate) (c : call) : mstate := apply_sops mkey_eqb s (call_ops maxp s c).
Definition run (maxp : Z) (s : mstate) (cs : list call) : mstate := fold_left (run_call maxp) cs s.

(** State found by a crash after [k] store operations of call [c] that follows the completed calls
    [cs]. *)
Definition crash_state (maxp : Z) (cs : list call) (c : call) (k : nat) : mstate :=
  let s := run maxp {| durable := []; limbo := [] |} cs in
  apply_sops mkey_eqb s (firstn k (call_ops maxp s c)).

(** * The asynchronous store: operations are ISSUED in order and COMPLETE (become durable) in any order
    that respects per-key issue order.  [completed] selects which issued operations are durable. *)
Fixpoint select {A} (l : list A) (sel : list bool) : list A :=
  match l, sel with
  | x :: r, true :: s => x :: select r s
  | _ :: r, false :: s => select r s
  | _, _ => []
  end.

Definition sop_key (o : mop) : mkey := match o with SWrite k _ => k | SRemove k _ => k end.

(** Per-key order respected: a completed operation has no uncompleted earlier operation on its key. *)
Fixpoint per_key_ok (ops : list mop) (sel : list bool) (blocked : list mkey) : bool :=
  match ops, sel with
  | o :: r, b :: s =>
    if b then negb (existsb (mkey_eqb (sop_key o)) blocked) && per_key_ok r s blocked
    else per_key_ok r s (sop_key o :: blocked)
  | _, _ => true
  end.

(** All store operations issued by a history, in issue order (each call's operations computed against
    the state in which all earlier operations are complete). *)
Fixpoint issued (maxp : Z) (s : mstate) (cs : list call) : list mop :=
  match cs with
  | [] => []
  | c :: r => call_ops maxp s c ++ issued maxp (run_call maxp s c) r
  end.

Definition empty_state : mstate := {| durable := []; limbo := [] |}.

(** State found by a crash of a node using an asynchronous store in which exactly the issued operations
    selected by [sel] had completed. *)
Definition async_crash_state (maxp : Z) (cs : list call) (sel : list bool) : mstate :=
  apply_sops mkey_eqb empty_state (select (issued maxp empty_state cs) sel).

(** The asynchronous persister, call by call.  [persist_new_channel] / the update write are issued
    synchronously; the in-range clean-up of a consolidation is issued only after its monitor write
    completed.  For each call: nothing became durable ([SelNone]), or its write did, followed by any
    subset [rem] of its (lazy) removals ([SelWrite rem]).  Writes of different calls touch different
    keys except the monitor key, whose writes take effect in issue order (a skipped earlier write is
    simply overwritten by a later one, which the KVStore contract allows). *)
Inductive csel := SelNone | SelWrite (rem : list bool).
Definition sel_ops (ops : list mop) (x : csel) : list mop :=
  match x, ops with
  | SelWrite rem, w :: rs => w :: select rs rem
  | _, _ => []
  end.
Fixpoint async_run (maxp : Z) (s : mstate) (cs : list call) (sels : list csel) : mstate :=
  match cs, sels with
  | c :: r, x :: xs => async_run maxp (apply_sops mkey_eqb s (sel_ops (call_ops maxp s c) x)) r xs
  | _, _ => s
  end.

(** The SYNCHRONOUS persister over a store whose individual operations may fail: [fails i] says whether
    the [i]-th store operation of the call fails.  If the call's write fails, the call returns an error
    with nothing applied - in particular no clean-up is attempted ([if let Ok(()) = write_status]) - and
    the node stops; a failing removal is logged and skipped ([cleanup_in_range]) or aborts the rest
    ([cleanup_stale_updates]): either way a SUBSET of the removals is applied.  Every such outcome is a
    [csel]; [sel_of_fails] is the one of the in-range clean-up. *)
Definition sel_of_fails (nops : nat) (fails : nat -> bool) : csel :=
  if fails 0%nat then SelNone
  else SelWrite (map (fun i => negb (fails (S i))) (seq 0 (pred nops))).
Definition call_ops_f (maxp : Z) (s : mstate) (c : call) (fails : nat -> bool) : list mop * bool :=
  let ops := call_ops maxp s c in
  (sel_ops ops (sel_of_fails (List.length ops) fails), negb (fails 0%nat)).

(** The in-memory monitors of a history (the monitor handed to each call). *)
Definition next_mem (cur : monitor) (c : call) : monitor :=
  match c with CUpdate _ _ mon => mon | _ => cur end.
Fixpoint mems (cur : monitor) (cs : list call) : list monitor :=
  cur :: match cs with [] => [] | c :: r => mems (next_mem cur c) r end.

End MUP.

Arguments mid {St} m.
Arguments mst {St} m.
Arguments VMon {St Up}.
Arguments VUpd {St Up}.
Arguments VRaw {St Up}.
Arguments ROk {St}.
Arguments RPanic {St}.
Arguments RErr {St}.
Arguments RNotFound {St}.
Arguments CNew {St Up}.
Arguments CUpdate {St Up}.
Arguments CCleanup {St Up}.
Arguments COther {St Up}.
Arguments sop_key {St Up}.
Arguments upd_ids {St Up}.
Arguments mon_keys {St Up}.
Arguments empty_state {St Up}.
