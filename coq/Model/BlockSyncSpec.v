(** Specification vocabulary for C20: well-formed block trees, ancestor paths, what a validated header
    is known to satisfy, classes of block sources, and the listener's view of a notification log. *)
Require Import LdkV.Prim.U64 LdkV.Model.BlockSync.
Open Scope Z_scope.

(** A universe of headers is well-formed when heights are non-negative and every header whose parent
    is in the universe has the parent's height + 1 and chainwork = parent's chainwork + own work.
    (Consequently a height-0 header has no parent in the universe: the walk stops there.) *)
Definition wf_tree (T : tree) : Prop :=
  forall x nd, T x = Some nd ->
    0 <= n_height nd /\
    forall p, T (n_prev nd) = Some p ->
      n_height p = n_height nd - 1 /\ n_cwork nd = n_cwork p + n_bwork nd.

(** [path T a x l]: [l] lists, in ascending order, the blocks strictly above [a] up to and including
    [x], each the child (by the hash-committed [prev_blockhash]) of the one before. *)
Inductive path (T : tree) : Z -> Z -> list Z -> Prop :=
| path_nil a nd : T a = Some nd -> path T a a []
| path_cons a b x l nda ndb :
    T a = Some nda -> T b = Some ndb -> n_prev ndb = a -> path T b x l -> path T a x (b :: l).

(** [anc T a x]: [a] is [x] or an ancestor of [x]. *)
Definition anc (T : tree) (a x : Z) : Prop := exists l, path T a x l.

(** What [Validate] guarantees whatever the source says: the hash is that of a header in the universe
    with valid proof of work, and the fields the hash commits to are that header's. *)
Definition genuine (T : tree) (v : vh) : Prop :=
  exists nd, T (v_hash v) = Some nd /\ n_pow nd = true /\ v_prev v = n_prev nd /\ v_bwork v = n_bwork nd.

(** ... and additionally the source-supplied height and chainwork are the true ones. *)
Definition truthful (T : tree) (v : vh) : Prop :=
  exists nd, T (v_hash v) = Some nd /\ n_pow nd = true /\ v = true_vh (v_hash v) nd.

(** Sources whose answers, when they pass [Validate] for the requested hash, carry the true height and
    chainwork.  Such a source may still fail (transiently or persistently), answer with a different
    header, or with a header failing proof of work, at any request. *)
Definition honest_meta (T : tree) (src : oracle) : Prop :=
  forall n q hint x h w nd,
    o_header src n q hint = HAns x h w -> T x = Some nd -> n_pow nd = true -> x = q ->
    h = n_height nd /\ w = n_cwork nd.

Definition good_client (T : tree) (cl : client) : Prop :=
  truthful T (cl_tip cl) /\ Forall (truthful T) (cl_cache cl).
Definition genuine_client (T : tree) (cl : client) : Prop :=
  genuine T (cl_tip cl) /\ Forall (genuine T) (cl_cache cl).

(** * The listener's view.  Position = (hash, height) of its best block. *)
Definition lpos := (Z * Z)%type.
Definition pos_of (v : vh) : lpos := (v_hash v, v_height v).

(** [blocks_disconnected(fork_point)] is legal when the fork point is a proper ancestor of the current
    best block and is reported with its true height; [block_connected(b, h)] when [b] is a
    proof-of-work-valid child of the current best block and [h] is the next height (= b's true height). *)
Inductive lstep (T : tree) : lpos -> event -> lpos -> Prop :=
| ls_disc cur ch f l nd :
    path T f cur l -> l <> [] -> T f = Some nd ->
    lstep T (cur, ch) (EDisc f (n_height nd)) (f, n_height nd)
| ls_conn cur ch b nd full :
    T b = Some nd -> n_pow nd = true -> n_prev nd = cur -> n_height nd = ch + 1 ->
    lstep T (cur, ch) (EConn b (ch + 1) full) (b, ch + 1).

Inductive lrun (T : tree) : lpos -> list event -> lpos -> Prop :=
| lr_nil p : lrun T p [] p
| lr_cons p e q l r : lstep T p e q -> lrun T q l r -> lrun T p (e :: l) r.

(** The same, looking at hashes only (what holds for arbitrary sources): connected blocks are
    proof-of-work-valid children by hash, fork points are ancestors-or-self. *)
Inductive hstep (T : tree) : Z -> event -> Z -> Prop :=
| hs_disc cur f h : anc T f cur -> hstep T cur (EDisc f h) f
| hs_conn cur b h nd full :
    T b = Some nd -> n_pow nd = true -> n_prev nd = cur -> hstep T cur (EConn b h full) b.
Inductive hrun (T : tree) : Z -> list event -> Z -> Prop :=
| hr_nil p : hrun T p [] p
| hr_cons p e q l r : hstep T p e q -> hrun T q l r -> hrun T p (e :: l) r.

Definition is_disc (e : event) : bool := match e with EDisc _ _ => true | EConn _ _ _ => false end.

(** At most one disconnection, and only at the front. *)
Definition one_disc_then_conns (log : list event) : Prop :=
  exists d cs, log = d ++ cs /\ (List.length d <= 1)%nat /\
               forallb is_disc d = true /\ forallb (fun e => negb (is_disc e)) cs = true.

(** The notification a connected header produces. *)
Definition conn_event (v : vh) (full : bool) : event := EConn (v_hash v) (v_height v) full.
Definition conn_events (vs : list vh) (fulls : list bool) : list event :=
  map (fun vf => conn_event (fst vf) (snd vf)) (combine vs fulls).

(** Truthful block locators (what a listener persisted about its own best chain). *)
Definition locator_ok (T : tree) (loc : locator) : Prop :=
  (exists nd, T (l_hash loc) = Some nd /\ l_height loc = n_height nd) /\
  forall i x, nth_error (l_prev loc) i = Some (Some x) ->
    exists l, path T x (l_hash loc) l /\ List.length l = S i.
