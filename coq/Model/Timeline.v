(** C08 timeline model: the heights at which a node reacts to an unresolved HTLC, written
    declaratively over the predicates regenerated from the Rust source (Gen/CltvChecks.v). Blocks are delivered one at a time; a
    predicate "first fires at H (scanning from h0)" means it is false on [h0, H) and true at H. *)
Require Import LdkV.Prim.U64 LdkV.Gen.Consts LdkV.Gen.CltvChecks.
Open Scope Z_scope.

Definition first_fires (p : Z -> bool) (h0 H : Z) : Prop :=
  h0 <= H /\ p H = true /\ forall h, h0 <= h < H -> p h = false.

(** A transaction broadcast when the best block is [b] confirms in a block [c] with
    [b < c <= b + MAX_BLOCKS_FOR_CONF] (the library's stated bound; a hypothesis, never proved). *)
Definition confirms_within (b c : Z) : Prop := b < c <= b + MAX_BLOCKS_FOR_CONF.

(** Dead-downstream timeline of a forwarded HTLC (outbound expiry [out_cltv], inbound [in_cltv]):
    H  : height at which the monitor decides to go on chain (first block with the outbound predicate)
    c1 : block confirming the commitment transaction
    c2 : block confirming the HTLC-timeout claim (broadcastable at once: its locktime has passed)
    F  : best-block height at which the resulting HTLCUpdate matures and the upstream fail is sent *)
Record fwd_timeline := { tl_H : Z; tl_c1 : Z; tl_c2 : Z; tl_F : Z }.

Definition fwd_timeline_ok (out_cltv h0 : Z) (t : fwd_timeline) : Prop :=
  first_fires (fun h => should_broadcast_htlc_timeout true out_cltv h false) h0 (tl_H t) /\
  confirms_within (tl_H t) (tl_c1 t) /\
  confirms_within (tl_c1 t) (tl_c2 t) /\
  tl_F t = Z.max (tl_c2 t) (confirmation_threshold (tl_c2 t) OnchainEventKind_Other 0 None).

(** Inbound HTLC whose preimage is known (claim timeline). *)
Record claim_timeline := { ct_H : Z; ct_c1 : Z; ct_c2 : Z }.
Definition claim_timeline_ok (cltv h0 : Z) (t : claim_timeline) : Prop :=
  first_fires (fun h => should_broadcast_htlc_timeout false cltv h true) h0 (ct_H t) /\
  confirms_within (ct_H t) (ct_c1 t) /\
  confirms_within (ct_c1 t) (ct_c2 t).
