(** Failure packets and attribution data (BOLT-4 "returning errors", attributable failures) as
    implemented in [lightning/src/ln/onion_utils.rs]: [build_unencrypted_failure_packet],
    [build_failure_packet], [crypt_failure_packet], [process_failure_packet],
    [process_onion_failure_inner] (for a path of plain route hops: no blinded tail, no trampoline),
    [AttributionData::{crypt, add_hmacs, write_downstream_hmacs, verify, shift_left, shift_right,
    update}], [process_fulfill_attribution_data], [decode_fulfill_attribution_data].

    Parametric in the stream cipher [ks key n] (first [n] bytes of the ChaCha20 stream, zero nonce)
    and [hmac key msg].  Nothing is proved here; see [Proofs/C14Fail.v]. *)
From Coq Require Import ZArith List Bool Lia.
Require Import LdkV.Crypto.Bytes.
Import ListNotations.
Open Scope nat_scope.

Definition MAX_HOPS : nat := 20.
Definition HOLD_TIME_LEN : nat := 4.
Definition HMAC_LEN : nat := 4.
Definition HMAC_COUNT : nat := MAX_HOPS * (MAX_HOPS + 1) / 2.
Definition DEFAULT_MIN_FAILURE_PACKET_LEN : nat := 256.
Definition LN_MAX_MSG_LEN : Z := 65535%Z.

(** [AttributionData { hold_times: [u8; 80], hmacs: [u8; 840] }] *)
Record attribution : Type := mk_attr { a_hold : bytes; a_hmacs : bytes }.
(** [OnionErrorPacket { data, attribution_data }] *)
Record err_packet : Type := mk_err { e_data : bytes; e_attr : option attribution }.
(** The keys a hop derives from its shared secret for the return path. *)
Record fkeys : Type := mk_fkeys { fk_um : bytes; fk_ammag : bytes; fk_ammagext : bytes }.

Definition attr_new : attribution := mk_attr (zeros (MAX_HOPS * HOLD_TIME_LEN)) (zeros (HMAC_LEN * HMAC_COUNT)).
(** serialization ([impl_writeable!]: the two arrays one after the other) *)
Definition attr_bytes (a : attribution) : bytes := a_hold a ++ a_hmacs a.

(** [slice.copy_within(s..e, d)] (for any element type: the proofs run it on index labels) *)
Definition copy_within {A : Type} (l : list A) (s e d : nat) : list A :=
  firstn d l ++ firstn (e - s) (skipn s l) ++ skipn (d + (e - s)) l.

Definition get_hmac (hmacs : bytes) (idx : nat) : bytes := firstn HMAC_LEN (skipn (idx * HMAC_LEN) hmacs).
Definition set_hmac (hmacs : bytes) (idx : nat) (v : bytes) : bytes :=
  firstn (idx * HMAC_LEN) hmacs ++ v ++ skipn ((idx + 1) * HMAC_LEN) hmacs.

(** [write_downstream_hmacs]: the bytes fed to the HMAC engine. *)
Fixpoint downstream_loop (hmacs : bytes) (n j hmac_idx : nat) : bytes :=
  match n with
  | O => []
  | S n' => get_hmac hmacs hmac_idx ++ downstream_loop hmacs n' (S j) (hmac_idx + (MAX_HOPS - j - 1))
  end.
Definition write_downstream_hmacs (hmacs : bytes) (position : nat) : bytes :=
  downstream_loop hmacs position 0 (MAX_HOPS + MAX_HOPS - position - 1).

(** [shift_left] *)
Fixpoint shift_left_loop {A : Type} (n : nat) (hm : list A) (src_idx dest_idx copy_len : nat) : list A :=
  match n with
  | O => hm
  | S n' =>
      shift_left_loop n'
        (copy_within hm (src_idx * HMAC_LEN) ((src_idx + copy_len) * HMAC_LEN) (dest_idx * HMAC_LEN))
        (src_idx + copy_len) (dest_idx + (copy_len + 1)) (copy_len - 1)
  end.
Definition shift_left_hold {A : Type} (h : list A) : list A := copy_within h HOLD_TIME_LEN (length h) 0.
Definition shift_left_hmacs {A : Type} (hm : list A) : list A := shift_left_loop (MAX_HOPS - 1) hm MAX_HOPS 1 (MAX_HOPS - 1).
Definition shift_left (a : attribution) : attribution :=
  mk_attr (shift_left_hold (a_hold a)) (shift_left_hmacs (a_hmacs a)).

(** [shift_right]; the loop leaves at [i == MAX_HOPS - 2] before updating the indices. *)
Fixpoint shift_right_loop {A : Type} (n : nat) (hm : list A) (src_idx dest_idx copy_len : nat) : list A :=
  match n with
  | O => hm
  | S n' =>
      let hm' := copy_within hm (src_idx * HMAC_LEN) ((src_idx + copy_len) * HMAC_LEN) (dest_idx * HMAC_LEN) in
      match n' with
      | O => hm'
      | S _ => let copy_len' := copy_len + 1 in
               shift_right_loop n' hm' (src_idx - (copy_len' + 1)) (dest_idx - copy_len') copy_len'
      end
  end.
Definition shift_right_hold {A : Type} (h : list A) : list A := copy_within h 0 ((MAX_HOPS - 1) * HOLD_TIME_LEN) HOLD_TIME_LEN.
Definition shift_right_hmacs {A : Type} (hm : list A) : list A :=
  shift_right_loop (MAX_HOPS - 1) hm (HMAC_COUNT - 2) (HMAC_COUNT - 1) 1.
Definition shift_right (a : attribution) : attribution :=
  mk_attr (shift_right_hold (a_hold a)) (shift_right_hmacs (a_hmacs a)).

Section Fail.
  Variable ks : bytes -> nat -> bytes.
  Variable hmac : bytes -> bytes -> bytes.

  (** [AttributionData::crypt]: one cipher instance over [hold_times] then [hmacs]. *)
  Definition attr_crypt (k : fkeys) (a : attribution) : attribution :=
    let nh := length (a_hold a) in
    let s := ks (fk_ammagext k) (nh + length (a_hmacs a)) in
    mk_attr (xor_bytes (a_hold a) (firstn nh s)) (xor_bytes (a_hmacs a) (skipn nh s)).

  (** the message authenticated for an assumed [position] *)
  Definition attr_hmac_input (a : attribution) (message : bytes) (position : nat) : bytes :=
    message ++ firstn ((position + 1) * HOLD_TIME_LEN) (a_hold a) ++ write_downstream_hmacs (a_hmacs a) position.

  (** [add_hmacs]: for hmac_idx in 0..MAX_HOPS, in place. *)
  Fixpoint add_hmacs_loop (n hmac_idx : nat) (um message : bytes) (a : attribution) : attribution :=
    match n with
    | O => a
    | S n' =>
        let position := MAX_HOPS - hmac_idx - 1 in
        let full_hmac := hmac um (attr_hmac_input a message position) in
        add_hmacs_loop n' (S hmac_idx) um message
          (mk_attr (a_hold a) (set_hmac (a_hmacs a) hmac_idx (firstn HMAC_LEN full_hmac)))
    end.
  Definition add_hmacs (k : fkeys) (message : bytes) (a : attribution) : attribution :=
    add_hmacs_loop MAX_HOPS 0 (fk_um k) message a.

  (** [verify]: [Some hold_time] on a matching truncated HMAC. *)
  Definition attr_verify (a : attribution) (message : bytes) (k : fkeys) (position : nat) : option Z :=
    let expected := firstn HMAC_LEN (hmac (fk_um k) (attr_hmac_input a message position)) in
    let actual := get_hmac (a_hmacs a) (MAX_HOPS - position - 1) in
    if bytes_eqb expected actual then Some (of_be32 (firstn HOLD_TIME_LEN (a_hold a))) else None.

  (** [update] *)
  Definition attr_update (a : attribution) (message : bytes) (k : fkeys) (hold_time : Z) : attribution :=
    add_hmacs k message (mk_attr (be32 hold_time ++ skipn HOLD_TIME_LEN (a_hold a)) (a_hmacs a)).

  (** [update_attribution_data] *)
  Definition update_attribution_data (p : err_packet) (k : fkeys) (hold_time : Z) : err_packet :=
    let a := match e_attr p with Some a => a | None => attr_new end in
    mk_err (e_data p) (Some (attr_update a (e_data p) k hold_time)).

  (** [crypt_failure_packet] *)
  Definition crypt_data (k : fkeys) (d : bytes) : bytes := xor_bytes d (ks (fk_ammag k) (length d)).
  Definition crypt_failure_packet (k : fkeys) (p : err_packet) : err_packet :=
    mk_err (crypt_data k (e_data p)) (option_map (attr_crypt k) (e_attr p)).

  (** the plaintext [hmac | failure_len | code | data | pad_len | pad] *)
  Definition failure_body (code : Z) (d : bytes) (min_packet_len : nat) : bytes :=
    let failure_len := 2 + length d in
    let pad_len := min_packet_len - failure_len in                   (* saturating_sub *)
    be16 (Z.of_nat failure_len) ++ be16 code ++ d ++ be16 (Z.of_nat pad_len) ++ zeros pad_len.
  Definition failure_plain (k : fkeys) (code : Z) (d : bytes) (min_packet_len : nat) : bytes :=
    let body := failure_body code d min_packet_len in
    hmac (fk_um k) body ++ body.

  (** [build_unencrypted_failure_packet] *)
  Definition build_unencrypted_failure_packet (k : fkeys) (code : Z) (d : bytes) (hold_time : Z)
             (min_packet_len : nat) : err_packet :=
    update_attribution_data (mk_err (failure_plain k code d min_packet_len) None) k hold_time.

  (** [build_failure_packet] *)
  Definition build_failure_packet (k : fkeys) (code : Z) (d : bytes) (hold_time : Z) : err_packet :=
    crypt_failure_packet k (build_unencrypted_failure_packet k code d hold_time DEFAULT_MIN_FAILURE_PACKET_LEN).

  (** [update_fail_htlc_wire_len]: 2 (type) + 32 + 8 + 2 (empty message) + data + TLV 1 of 920 bytes. *)
  Definition update_fail_htlc_wire_len (p : err_packet) : nat :=
    2 + 42 + length (e_data p) +
    match e_attr p with Some a => 1 + 3 + length (attr_bytes a) | None => 0 end.

  (** the guard at the end of [process_failure_packet]: attribution data stays unless the
      [update_fail_htlc] would exceed the message size limit *)
  Definition keeps_attribution (p : err_packet) : bool :=
    negb (LN_MAX_MSG_LEN <? Z.of_nat (update_fail_htlc_wire_len p))%Z.

  (** [process_failure_packet] *)
  Definition process_failure_packet (p : err_packet) (k : fkeys) (hold_time : Z) : err_packet :=
    let p1 := mk_err (e_data p) (option_map shift_right (e_attr p)) in
    let p2 := update_attribution_data p1 k hold_time in
    if keeps_attribution p2 then p2 else mk_err (e_data p2) None.

  (** What an intermediate hop does with a failure received from downstream
      ([get_encrypted_failure_packet] on [LightningError]). *)
  Definition wrap_failure (k : fkeys) (hold_time : Z) (p : err_packet) : err_packet :=
    crypt_failure_packet k (process_failure_packet p k hold_time).

  (** The failure as it arrives at the sender: built by hop [i] ([keys_i] is its key), then wrapped
      by the hops before it, nearest first.  [before] lists those hops from the sender's side
      ([k_0 .. k_(i-1)]) with their hold times. *)
  Definition failure_at_sender (before : list (fkeys * Z)) (ki : fkeys) (code : Z) (d : bytes) (hold_i : Z) : err_packet :=
    fold_right (fun kh p => wrap_failure (fst kh) (snd kh) p) (build_failure_packet ki code d hold_i) before.

  (** [DecodedOnionErrorPacket::read]: hmac, u16-length-prefixed [failuremsg], u16-length-prefixed
      [pad] ([CollectionLength]: 0xffff escapes to a u64).  Returns [failuremsg]. *)
  Definition read_collection (l : bytes) : option (bytes * bytes) :=
    if length l <? 2 then None
    else let len := of_be16 l in
         let r := skipn 2 l in
         if (len =? 65535)%Z then
           if length r <? 8 then None
           else let len' := (of_be64 r + 65535)%Z in
                let r' := skipn 8 r in
                if (18446744073709551615 <? len')%Z then None
                else if (Z.of_nat (length r') <? len')%Z then None
                else Some (firstn (Z.to_nat len') r', skipn (Z.to_nat len') r')
         else if (Z.of_nat (length r) <? len)%Z then None
         else Some (firstn (Z.to_nat len) r, skipn (Z.to_nat len) r).
  Definition read_err_packet (pkt : bytes) : option bytes :=
    if length pkt <? 32 then None
    else match read_collection (skipn 32 pkt) with
         | None => None
         | Some (failuremsg, r) =>
             match read_collection r with
             | None => None
             | Some _ => Some failuremsg
             end
         end.

  Inductive attributed : Type :=
  | Unattributable                       (* packet shorter than an HMAC: permanent_failure() *)
  | NoHopMatched (peeled : bytes)        (* no hop's HMAC matched *)
  | Unreadable (hop : nat)               (* HMAC of [hop] matched, packet does not parse *)
  | MissingCode (hop : nat)              (* HMAC matched, failuremsg shorter than 2 bytes *)
  | Attributed (hop : nat) (code : Z) (data : bytes).

  (** [process_onion_failure_inner], the attribution-data part of one iteration ("Only check
      attribution when an attribution data failure has not yet occurred").  State: the packet,
      [attribution_failed_channel.is_some()], the hold times so far. *)
  Definition attribution_step (k : fkeys) (idx cnt : nat) (p : err_packet) (attr_failed : bool)
             (hold_times : list Z) : err_packet * bool * list Z :=
    if attr_failed then (p, attr_failed, hold_times)
    else match e_attr p with
         | Some a =>
             if idx <? cnt then
               match attr_verify a (e_data p) k (cnt - idx - 1) with
               | Some t => (mk_err (e_data p) (Some (shift_left a)), false, hold_times ++ [t])
               | None => (p, true, hold_times)
               end
             else (p, attr_failed, hold_times)
         | None => (p, true, hold_times)
         end.

  (** [process_onion_failure_inner], the loop over the hops. *)
  Fixpoint failure_loop (keys : list fkeys) (idx cnt : nat) (p : err_packet) (attr_failed : bool)
           (hold_times : list Z) : attributed * list Z :=
    match keys with
    | [] => (NoHopMatched (e_data p), hold_times)
    | k :: tl =>
        let st := attribution_step k idx cnt (crypt_failure_packet k p) attr_failed hold_times in
        let p := fst (fst st) in
        let attr_failed := snd (fst st) in
        let hold_times := snd st in
        let d := e_data p in
        if negb (bytes_eqb (hmac (fk_um k) (skipn 32 d)) (firstn 32 d)) then
          failure_loop tl (S idx) cnt p attr_failed hold_times
        else
          match read_err_packet d with
          | None => (Unreadable idx, hold_times)
          | Some failuremsg =>
              match failuremsg with
              | c1 :: c0 :: rest => (Attributed idx (of_be16 [c1; c0]) rest, hold_times)
              | _ => (MissingCode idx, hold_times)
              end
          end
    end.

  Definition process_onion_failure (keys : list fkeys) (p : err_packet) : attributed * list Z :=
    if length (e_data p) <? 32 then (Unattributable, [])
    else failure_loop keys 0 (Nat.min (length keys) MAX_HOPS) p false [].

  (** [process_fulfill_attribution_data] *)
  Definition process_fulfill (a : option attribution) (k : fkeys) (hold_time : Z) : attribution :=
    let a := match a with None => attr_new | Some a => shift_right a end in
    attr_crypt k (attr_update a [] k hold_time).

  (** [decode_fulfill_attribution_data] *)
  Fixpoint fulfill_loop (keys : list fkeys) (idx cnt : nat) (a : attribution) (hold_times : list Z) : list Z :=
    match keys with
    | [] => hold_times
    | k :: tl =>
        if idx <? cnt then
          let a := attr_crypt k a in
          match attr_verify a [] k (cnt - idx - 1) with
          | Some t => fulfill_loop tl (S idx) cnt (shift_left a) (hold_times ++ [t])
          | None => hold_times
          end
        else hold_times
    end.
  Definition decode_fulfill (keys : list fkeys) (a : attribution) : list Z :=
    fulfill_loop keys 0 (Nat.min (length keys) MAX_HOPS) a [].

  (** the attribution data as it arrives at the sender of a fulfilled payment: created by the last
      hop, processed by every hop before it *)
  Definition fulfill_at_sender (hops : list (fkeys * Z)) : option attribution :=
    fold_right (fun kh a => Some (process_fulfill a (fst kh) (snd kh))) None hops.

  (** ** The receiving node ([ChannelManager]): a payment received through one of its PHANTOM hops is
      claimed / failed with two layers, the phantom hop's innermost. *)

  (** [claim_payment_internal]: "Create new attribution data as the final hop ... If there is a
      phantom hop, we need to double-process." *)
  Definition claim_attribution (incoming : fkeys) (phantom : option fkeys) : attribution :=
    process_fulfill (option_map (fun ph => process_fulfill None ph 0%Z) phantom) incoming 0%Z.

  (** [HTLCFailReason::get_encrypted_failure_packet], the [Reason] arm *)
  Definition local_failure (incoming : fkeys) (secondary : option fkeys) (code : Z) (d : bytes) : err_packet :=
    match secondary with
    | Some ph =>
        let packet := build_failure_packet ph code d 0%Z in
        crypt_failure_packet incoming (process_failure_packet packet incoming 0%Z)
    | None => build_failure_packet incoming code d 0%Z
    end.
End Fail.
