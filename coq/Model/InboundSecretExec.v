(** C04, part A — the executable instance of Model/InboundSecret.v: HMAC-SHA256, the
    [apply_chacha20] keystream and SHA-256 of [Crypto/], and [ExpandedKey::new]
    ([hkdf_extract_expand_8x] with the salt "LDK Inbound Payment Key Expansion"). Used by the
    correspondence check (byte-exact comparison with the Rust functions). No proofs in this file. *)
From LdkV Require Import Prim.U64 Crypto.Bytes Crypto.Sha256 Crypto.Hmac Crypto.ChaCha20 Crypto.Hkdf
  Gen.ConstsC04 Model.InboundSecret.
Open Scope Z_scope.

Definition P_exec : prims :=
  {| p_hmac := hmac_sha256; p_crypt := ldk_apply_chacha20; p_hash := sha256 |}.

(** [ExpandedKey::new]: info_key, ldk_pmt_hash_key, user_pmt_hash_key, offers_base_key,
    offers_encryption_key, spontaneous_pmt_key, phantom_node_blinded_path_key, metadata_enc_key *)
Definition keys_of (key_material : bytes) : keys :=
  let l := hkdf_extract_expand_8x (bytes_of_string "LDK Inbound Payment Key Expansion") key_material in
  {| k_info := nth 0 l []; k_ldk := nth 1 l []; k_user := nth 2 l []; k_spont := nth 5 l [] |}.

Inductive scmd : Type :=
| CCreate (min_value : option Z) (delta : Z) (rand : bytes) (now : Z) (cltv : option Z)
| CFromHash (min_value : option Z) (hash : bytes) (delta now : Z) (cltv : option Z)
| CSpont (min_value : option Z) (delta now : Z) (cltv : option Z)
| CInfo (min_value : option Z) (method delta now : Z) (cltv : option Z)
| CVerify (hash secret : bytes) (total now : Z).

Local Open Scope string_scope.
Definition show_z (z : Z) : string :=
  (* decimal rendering is not needed: results carry numbers as big-endian hex *)
  hex_of_bytes (be64 z).

Definition run_scmd (K : keys) (c : scmd) : string :=
  match c with
  | CCreate mv d r now cl =>
      match create P_exec K mv d r now cl with
      | Some (h, s) => "OK " ++ hex_of_bytes h ++ " " ++ hex_of_bytes s
      | None => "ERR"
      end
  | CFromHash mv h d now cl =>
      match create_from_hash P_exec K mv h d now cl with
      | Some s => "OK " ++ hex_of_bytes s
      | None => "ERR"
      end
  | CSpont mv d now cl =>
      match create_spontaneous P_exec K mv d now cl with
      | Some s => "OK " ++ hex_of_bytes s
      | None => "ERR"
      end
  | CInfo mv m d now cl =>
      match info_bytes mv m d now cl with
      | Some b => "OK " ++ hex_of_bytes b
      | None => "ERR"
      end
  | CVerify h s total now =>
      match verify P_exec K h s total now with
      | Some (pre, cl) =>
          "OK " ++ (match pre with Some p => hex_of_bytes p | None => "-" end) ++ " " ++
          (match cl with Some c => show_z c | None => "-" end)
      | None => "ERR"
      end
  end.

Definition run_scmds (key_material : bytes) (cs : list scmd) : list string :=
  let K := keys_of key_material in map (run_scmd K) cs.
