(** C09 trace correspondence: executable checker that replays the labels derived from a real trace
    (harness h_monupd) on [Model/MonUpd.v] and compares, after every real step, the model's state
    projection and outputs with what the implementation showed. No proofs here. *)
Require Import LdkV.Prim.U64 LdkV.Model.MonUpd.
Open Scope Z_scope.

Definition b2z (b : bool) : Z := if b then 1 else 0.
Definition code_skind (k : skind) : Z :=
  match k with KHolder => 1 | KCparty => 2 | KSecret => 3 | KPreimage => 4 | KShutdownScript => 5 end.
Definition obs_watch (o : list out) : list (Z * list Z) :=
  flat_map (fun x => match x with OWatch u => [(uid u, map code_skind (usteps u))] | _ => [] end) o.
Definition obs_rel (o : list out) : list Z :=
  flat_map (fun x => match x with
                     | ORel RRaa _ => [1] | ORel RCs _ => [2] | ORel RChannelReady _ => [3] | ORel RClosingSigned _ => [5]
                     | _ => [] end) o.
Definition obs_bcast (o : list out) : Z :=
  Z.of_nat (List.length (filter (fun x => match x with ORel RFundingBroadcast _ => true | _ => false end) o)).
Definition obs_err (o : list out) : Z :=
  Z.of_nat (List.length (filter (fun x => match x with OErr => true | _ => false end) o)).

Definition zlen {A} (l : list A) : Z := Z.of_nat (List.length l).
Definition proj (s : st) : list Z :=
  [latest (ch s); b2z (mip (ch s)); b2z (arr (ch s)); b2z (pd (ch s)); b2z (p_raa (ch s)); b2z (p_cs (ch s));
   b2z (p_cr (ch s)); b2z (raa_first (ch s)); zlen (hold (ch s)); zlen (p_fwd (ch s)); zlen (acts (mg s));
   b2z (is_ready (ch s))].

Fixpoint run_group (s : st) (ls : list label) : st * list out :=
  match ls with
  | [] => (s, [])
  | l :: t => let '(s1, o1) := step s l in let '(s2, o2) := run_group s1 t in (s2, o1 ++ o2)
  end.

Fixpoint eqzl (a b : list Z) : bool :=
  match a, b with
  | [], [] => true
  | x :: a', y :: b' => (x =? y) && eqzl a' b'
  | _, _ => false
  end.
Fixpoint eqwl (a b : list (Z * list Z)) : bool :=
  match a, b with
  | [], [] => true
  | (x, k) :: a', (y, k') :: b' => (x =? y) && eqzl k k' && eqwl a' b'
  | _, _ => false
  end.
(** index of the first differing scalar (1-based), 0 if equal *)
Fixpoint diffz (i : Z) (a b : list Z) : Z :=
  match a, b with
  | [], [] => 0
  | x :: a', y :: b' => if x =? y then diffz (i + 1) a' b' else i
  | _, _ => i
  end.

(** one real step: labels, expected scalars (as [proj]), blocked ids, in-flight ids, ChainMonitor pending ids,
    watch calls, released wire messages, funding broadcasts *)
Definition rstep := (list label * list Z * list Z * list Z * list Z * list (Z * list Z) * list Z * Z)%type.

(** returns (index of the first real step that disagrees, field code) or (-1, 0).
    field codes: 1..12 scalars of [proj]; 20 blocked; 21 in-flight; 22 ChainMonitor pending; 30 watch calls;
    31 released messages; 32 funding broadcast; 33 the model rejected a label *)
Fixpoint check (i : Z) (s : st) (rs : list rstep) : Z * Z :=
  match rs with
  | [] => (-1, 0)
  | (ls, sc, bl, infl, cmpl, w, rel, bc) :: t =>
      let '(s', o) := run_group s ls in
      let d := diffz 1 (proj s') sc in
      if negb (d =? 0) then (i, d)
      else if negb (eqzl (map uid (blocked (ch s'))) bl) then (i, 20)
      else if negb (eqzl (inflight (mg s')) infl) then (i, 21)
      else if negb (eqzl (cmp (cm s')) cmpl) then (i, 22)
      else if negb (eqwl (obs_watch o) w) then (i, 30)
      else if negb (eqzl (obs_rel o) rel) then (i, 31)
      else if negb (obs_bcast o =? bc) then (i, 32)
      else if negb (obs_err o =? 0) then (i, 33)
      else check (i + 1) s' t
  end.

(** for diagnostics: the model's view after the first [n] real steps *)
Fixpoint state_after (n : nat) (s : st) (rs : list rstep) : st * list out :=
  match n, rs with
  | S n', (ls, _, _, _, _, _, _, _) :: t =>
      let '(s', o) := run_group s ls in
      match n' with O => (s', o) | _ => state_after n' s' t end
  | _, _ => (s, [])
  end.
Definition show (so : st * list out) :=
  let s := fst so in
  (proj s, map uid (blocked (ch s)), inflight (mg s), cmp (cm s), obs_watch (snd so), obs_rel (snd so), obs_bcast (snd so), obs_err (snd so)).
