(** C15 — what [PeerManager] does with a decrypted message buffer: the decode-error policy table
    of [do_read_event] and the Init-before-anything rule of
    [do_handle_message_holding_peer_lock] (lightning/src/ln/peer_handler.rs).

    Decoding itself ([wire::read]) is C13's subject; here it is the parameter [decode], which
    yields the message type or a [DecodeError] with the type when it was read. Whether an [Init] is
    acceptable (chain and feature compatibility, every handler's [peer_connected]) and whether a
    handler asks for a disconnect are the oracles [init_ok] / [handler_ok]. Not modelled:
    [start_batch] / batched [commitment_signed] collection (splicing). *)
Require Import LdkV.Prim.U64.
From Coq Require Import List.
Import ListNotations.
Require Import LdkV.Model.Noise.
Open Scope Z_scope.

Inductive derr :=
| UnknownVersion | UnknownRequiredFeature | InvalidValue | ShortRead
| BadLengthDescriptor | IoErr | UnsupportedCompression | DangerousValue.

Inductive dres :=
| DOk (ty : Z)
| DErr (e : derr) (ty : option Z).

Definition TYPE_INIT : Z := 16.

(** [is_gossip_msg]: ChannelAnnouncement 256, NodeAnnouncement 257, ChannelUpdate 258,
    QueryShortChannelIds 261, ReplyShortChannelIdsEnd 262, QueryChannelRange 263,
    ReplyChannelRange 264 *)
Definition is_gossip_msg (ty : Z) : bool :=
  (ty =? 256) || (ty =? 258) || (ty =? 257) || (ty =? 263) || (ty =? 264) || (ty =? 261) || (ty =? 262).

Inductive dpolicy := PIgnore | PWarnIgnore | PDisconnect.

(** the [match e { .. }] on [(DecodeError, Option<u16>)] in [do_read_event], arm by arm *)
Definition decode_policy (e : derr) (ty : option Z) : dpolicy :=
  match e, ty with
  | UnknownRequiredFeature, Some t =>
    if is_gossip_msg t then PIgnore else PDisconnect
  | UnsupportedCompression, _ => PWarnIgnore
  | UnknownRequiredFeature, None => PDisconnect
  | _, Some t => if is_gossip_msg t then PWarnIgnore else PDisconnect
  | _, None => PDisconnect
  end.

Inductive event :=
| EvOutRaw (b : bytes)          (* handshake act pushed on [pending_outbound_buffer] *)
| EvNoiseDone (their_node_id : bytes)  (* handshake finished; OUR [Init] is enqueued here *)
| EvFrame (m : bytes)           (* an authenticated plaintext handed to [wire::read] *)
| EvIgnored (warn : bool)       (* decode error ignored, possibly answering with a warning *)
| EvInit                        (* THEIR [Init] accepted: [peer_connected] on every handler *)
| EvDeliver.                    (* the message reached the handler dispatch *)

Section Gate.
  Variable decode : bytes -> dres.
  Variable init_ok : bytes -> bool.
  Variable handler_ok : bytes -> bool.

  (** one decrypted message [m] with [their_features.is_some() = init_seen]:
      events, and [Some init_seen'] to go on or [None] for [Err(PeerHandleError)] *)
  Definition gate_msg (init_seen : bool) (m : bytes) : list event * option bool :=
    match decode m with
    | DErr e ty =>
      match decode_policy e ty with
      | PIgnore => ([EvFrame m; EvIgnored false], Some init_seen)
      | PWarnIgnore => ([EvFrame m; EvIgnored true], Some init_seen)
      | PDisconnect => ([EvFrame m], None)
      end
    | DOk ty =>
      if ty =? TYPE_INIT then
        if negb (init_ok m) || init_seen then ([EvFrame m], None)
        else ([EvFrame m; EvInit], Some true)
      else if negb init_seen then ([EvFrame m], None)   (* "Peer sent non-Init first message" *)
      else if handler_ok m then ([EvFrame m; EvDeliver], Some init_seen)
      else ([EvFrame m; EvDeliver], None)
    end.

  (** the gate applied directly to a list of plaintext messages: the specification the
      encrypted, fragmented transport is shown to refine *)
  Fixpoint gate_trace (init_seen : bool) (ms : list bytes) : list event * option bool :=
    match ms with
    | [] => ([], Some init_seen)
    | m :: ms' =>
      match gate_msg init_seen m with
      | (evs, None) => (evs, None)
      | (evs, Some b) => let '(evs', r) := gate_trace b ms' in (evs ++ evs', r)
      end
    end.
End Gate.

(** the order the property demands of an event trace: noise first (our Init goes out), then their
    Init, only then handler deliveries. [phase]: 0 before the handshake is done, 1 after, 2 once
    their Init was accepted. [None]: the order was violated. *)
Definition order_step (phase : Z) (e : event) : option Z :=
  match e with
  | EvOutRaw _ => if phase =? 0 then Some 0 else None
  | EvNoiseDone _ => if phase =? 0 then Some 1 else None
  | EvFrame _ => if 1 <=? phase then Some phase else None
  | EvIgnored _ => if 1 <=? phase then Some phase else None
  | EvInit => if phase =? 1 then Some 2 else None
  | EvDeliver => if phase =? 2 then Some 2 else None
  end.

Fixpoint order_run (phase : Z) (evs : list event) : option Z :=
  match evs with
  | [] => Some phase
  | e :: evs' =>
    match order_step phase e with
    | None => None
    | Some p => order_run p evs'
    end
  end.
