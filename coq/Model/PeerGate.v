(** C15 — what [PeerManager] does with a decrypted message buffer: the decode-error policy table
    of [do_read_event] and the Init-before-anything rule of
    [do_handle_message_holding_peer_lock] (lightning/src/ln/peer_handler.rs).

    Decoding itself ([wire::read]) is C13's subject; here it is the parameter [decode], which
    yields the message type or a [DecodeError] with the type when it was read. Whether an [Init] is
    acceptable (chain and feature compatibility, every handler's [peer_connected]) and whether a
    handler asks for a disconnect are the oracles [init_ok] / [handler_ok].

    The function follows the ORDER of the code path: Init handling, then the
    [their_features.is_none()] gate, then the [start_batch] / batched [commitment_signed]
    collection (which calls [handle_commitment_signed_batch] itself), then
    [gossip_timestamp_filter], then the generic dispatch. The message classification the path
    branches on is [mkind]. *)
Require Import LdkV.Prim.U64 LdkV.Gen.NoiseConsts.
From Coq Require Import List.
Import ListNotations.
Require Import LdkV.Model.Noise.
Open Scope Z_scope.

Inductive derr :=
| UnknownVersion | UnknownRequiredFeature | InvalidValue | ShortRead
| BadLengthDescriptor | IoErr | UnsupportedCompression | DangerousValue.

(** what [do_handle_message_holding_peer_lock] branches on *)
Inductive mkind :=
| KInit
| KStartBatch (channel_id : bytes) (batch_size : Z) (for_commitment_signed : bool)
                 (* [msg.message_type == Some(CommitmentSigned::TYPE)] *)
| KCommitmentSigned (channel_id : bytes)
| KGossipFilter
| KPing (ponglen : Z)
| KOther (ty : Z).

Inductive dres :=
| DOk (k : mkind)
| DErr (e : derr) (ty : option Z).

Definition BATCH_SIZE_LIMIT : Z := 20.

Fixpoint beqb (a b : bytes) : bool :=
  match a, b with
  | [], [] => true
  | x :: a', y :: b' => (x =? y) && beqb a' b'
  | _, _ => false
  end.

(** [peer.their_features.is_some()] and [peer.message_batch] (channel, expected size, collected) *)
Record gstate := mk_g { g_init : bool; g_batch : option (bytes * Z * Z) }.
Definition gate0 : gstate := mk_g false None.

(** [is_gossip_msg]: ChannelAnnouncement 256, NodeAnnouncement 257, ChannelUpdate 258,
    QueryShortChannelIds 261, ReplyShortChannelIdsEnd 262, QueryChannelRange 263,
    ReplyChannelRange 264 *)
Definition is_gossip_msg (ty : Z) : bool :=
  (ty =? 256) || (ty =? 258) || (ty =? 257) || (ty =? 263) || (ty =? 264) || (ty =? 261) || (ty =? 262).

Inductive dpolicy := PIgnore | PWarnIgnore | PDisconnect.

(** the [match e { .. }] on [(DecodeError, Option<u16>)] in [do_read_event], arm by arm *)
Definition decode_policy (e : derr) (ty : option Z) : dpolicy :=
  match e, ty with
  | UnknownRequiredFeature, Some t =>
    if is_gossip_msg t then PIgnore else PDisconnect
  | UnsupportedCompression, _ => PWarnIgnore
  | UnknownRequiredFeature, None => PDisconnect
  | _, Some t => if is_gossip_msg t then PWarnIgnore else PDisconnect
  | _, None => PDisconnect
  end.

Inductive event :=
| EvOutRaw (b : bytes)          (* handshake act pushed on [pending_outbound_buffer] *)
| EvNoiseDone (their_node_id : bytes)  (* handshake finished; OUR [Init] is enqueued here *)
| EvFrame (m : bytes)           (* an authenticated plaintext handed to [wire::read] *)
| EvIgnored (warn : bool)       (* decode error ignored, possibly answering with a warning *)
| EvReply (m : bytes)           (* a reply message enqueued for the peer (pong) *)
| EvInit                        (* THEIR [Init] accepted: [peer_connected] on every handler *)
| EvDeliver.                    (* the message reached the handler dispatch *)

(** [msgs::Pong { byteslen }] with its type: 2 + 2 + byteslen bytes *)
Definition pong_msg (byteslen : Z) : bytes := [0; 19] ++ be16 byteslen ++ repeat 0 (Z.to_nat byteslen).

Section Gate.
  Variable decode : bytes -> dres.
  Variable init_ok : bytes -> bool.
  Variable handler_ok : bytes -> bool.

  (** the generic dispatch of [do_handle_message_without_peer_lock] (or the batch handler) *)
  Definition deliver (g : gstate) (m : bytes) : list event * option gstate :=
    if handler_ok m then ([EvFrame m; EvDeliver], Some g) else ([EvFrame m; EvDeliver], None).

  (** one decrypted message [m] in gate state [g]: events, and [Some g'] to go on or [None] for
      [Err(PeerHandleError)] / a disconnecting [LightningError] *)
  Definition gate_msg (g : gstate) (m : bytes) : list event * option gstate :=
    match decode m with
    | DErr e ty =>
      match decode_policy e ty with
      | PIgnore => ([EvFrame m; EvIgnored false], Some g)
      | PWarnIgnore => ([EvFrame m; EvIgnored true], Some g)
      | PDisconnect => ([EvFrame m], None)
      end
    | DOk KInit =>
      (* "Need an Init as first message": compatibility checks, duplicate Init, peer_connected *)
      if negb (init_ok m) || g_init g then ([EvFrame m], None)
      else ([EvFrame m; EvInit], Some (mk_g true (g_batch g)))
    | DOk k =>
      if negb (g_init g) then ([EvFrame m], None)   (* "Peer sent non-Init first message" *)
      else
        match k with
        | KInit => ([EvFrame m], None)
        | KStartBatch chan size for_cs =>
          match g_batch g with
          | Some _ => ([EvFrame m], None)            (* previous batch not completed *)
          | None =>
            if size <=? 1 then ([EvFrame m; EvIgnored true], Some g)      (* warning, ignored *)
            else if BATCH_SIZE_LIMIT <? size then ([EvFrame m], None)
            else if for_cs then ([EvFrame m], Some (mk_g (g_init g) (Some (chan, size, 0))))
            else ([EvFrame m], Some g)               (* unknown batch type: ignored *)
          end
        | KCommitmentSigned chan =>
          match g_batch g with
          | Some (bchan, size, n) =>
            if negb (beqb chan bchan) then ([EvFrame m], None)
            else if n + 1 =? size then deliver (mk_g (g_init g) None) m   (* handle_commitment_signed_batch *)
            else ([EvFrame m], Some (mk_g (g_init g) (Some (bchan, size, n + 1))))
          | None => deliver g m
          end
        | KGossipFilter =>
          match g_batch g with
          | Some _ => ([EvFrame m], None)            (* unexpected message during a batch *)
          | None => ([EvFrame m], Some g)            (* only sets the sync status *)
          end
        | KPing ponglen =>
          (* [Message::Ping]: answered with a pong of [ponglen] bytes iff [ponglen] is below the
             limit, so that the pong still fits a frame *)
          match g_batch g with
          | Some _ => ([EvFrame m], None)
          | None =>
            if ponglen <? PING_PONGLEN_LIMIT then ([EvFrame m; EvDeliver; EvReply (pong_msg ponglen)], Some g)
            else ([EvFrame m; EvDeliver], Some g)
          end
        | KOther _ =>
          match g_batch g with
          | Some _ => ([EvFrame m], None)
          | None => deliver g m
          end
        end
    end.

  (** the gate applied directly to a list of plaintext messages: the specification the
      encrypted, fragmented transport is shown to refine *)
  Fixpoint gate_trace (g : gstate) (ms : list bytes) : list event * option gstate :=
    match ms with
    | [] => ([], Some g)
    | m :: ms' =>
      match gate_msg g m with
      | (evs, None) => (evs, None)
      | (evs, Some b) => let '(evs', r) := gate_trace b ms' in (evs ++ evs', r)
      end
    end.
End Gate.

(** the order the property demands of an event trace: noise first (our Init goes out), then their
    Init, only then handler deliveries. [phase]: 0 before the handshake is done, 1 after, 2 once
    their Init was accepted. [None]: the order was violated. *)
Definition order_step (phase : Z) (e : event) : option Z :=
  match e with
  | EvOutRaw _ => if phase =? 0 then Some 0 else None
  | EvNoiseDone _ => if phase =? 0 then Some 1 else None
  | EvFrame _ => if 1 <=? phase then Some phase else None
  | EvIgnored _ => if 1 <=? phase then Some phase else None
  | EvReply _ => if phase =? 2 then Some 2 else None
  | EvInit => if phase =? 1 then Some 2 else None
  | EvDeliver => if phase =? 2 then Some 2 else None
  end.

Fixpoint order_run (phase : Z) (evs : list event) : option Z :=
  match evs with
  | [] => Some phase
  | e :: evs' =>
    match order_step phase e with
    | None => None
    | Some p => order_run p evs'
    end
  end.
