(** C17 — the layer around [Model/Gossip.v] that the synchronous model leaves out:

    - [PendingChecks] of lightning/src/routing/utxo.rs: channel announcements whose UTXO lookup is
      answered asynchronously, the channel updates / node announcements HELD while it is pending
      ([check_hold_pending_channel_update], [check_hold_pending_node_announcement]), the duplicate
      filter [check_replace_previous_entry], and [check_resolved_futures] / [resolve_single_future],
      which REPLAYS the held messages through the graph's entry points — signed messages through
      the signed entry points (that is the point of the authenticity theorem);
    - rapid gossip sync ([lightning-rapid-gossip-sync/src/processing.rs]) as a pure function from
      a parsed snapshot to the unsigned graph operations it performs ([rgs_apply]).

    The graph itself only ever changes through [step] of [Model/Gossip.v]: every function here
    returns, next to its result, the list of synchronous ops it pushed through the graph, and the
    new graph is [run] of that list ([Proofs/C17Async.v]: [C17_async_refines]).  Futures are never
    dropped while pending (the harness keeps them).  No proofs in this file. *)
From stdpp Require Import gmap.
From Coq Require Import ZArith String.
Require Import LdkV.Gen.GossipConsts LdkV.Model.Gossip.
Open Scope Z_scope.

(** [Result<TxOut, UtxoLookupError>] of a resolved lookup *)
Inductive ares := AOk (sats : Z) (script_ok : bool) | AUnknownChain | AUnknownTx.
Definition utxo_of_ares (r : ares) : utxo :=
  match r with AOk v s => UOk v s | AUnknownChain => UUnknownChain | AUnknownTx => UUnknownTx end.

Record held_ann := HeldAnn { ha_sg : option ann_sigs; ha_msg : chan_ann }.
Record held_upd := HeldUpd { hu_sg : option (option Z); hu_msg : chan_upd }.
Record held_node := HeldNode { hn_sg : option bool; hn_msg : node_ann }.

(** [UtxoMessages] *)
Record pend := Pend {
  pe_ann : option held_ann;        (* channel_announce *)
  pe_complete : option ares;
  pe_na : option held_node;        (* latest_node_announce_a: announcements of node_id_1 *)
  pe_nb : option held_node;
  pe_ua : option held_upd;         (* latest_channel_update_a: updates with channel_flags & 1 == 1 *)
  pe_ub : option held_upd
}.
Definition pend_empty : pend := Pend None None None None None None.

(** the graph plus [PendingChecksContext] ([ps_futs]: every future ever handed out, by id) *)
Record pstate := PState {
  ps_g : graph;
  ps_futs : gmap Z pend;
  ps_order : list Z;               (* pending_states *)
  ps_chans : gmap Z Z;             (* channels: scid -> future *)
  ps_nodes : gmap Z (list Z)       (* nodes: node id -> futures *)
}.
Definition p_init : pstate := PState g_init ∅ [] ∅ ∅.

Inductive perr := PEAlreadyChecking | PEBeingChecked | PEAwaitUpd | PEAwaitNode.
Open Scope string_scope.
Definition perr_text (e : perr) : string :=
  match e with
  | PEAlreadyChecking => "Channel announcement is already being checked"
  | PEBeingChecked => "Channel being checked async"
  | PEAwaitUpd => "Awaiting channel_announcement validation to accept channel_update"
  | PEAwaitNode => "Awaiting channel_announcement validation to accept node_announcement"
  end.
Definition perr_action (e : perr) : string :=
  match e with
  | PEAlreadyChecking => "IgnoreDuplicateGossip"
  | _ => "IgnoreAndLog(Gossip)"
  end.
Close Scope string_scope.

Inductive pres :=
| PRes (r : gres)                  (* the result of the underlying synchronous entry point *)
| PErr (e : perr)
| PBroadcast (mids : list Z)       (* get_and_clear_pending_msg_events: stored ids of the messages to relay *)
| PRgsOk
| PRgsErr (e : gerr).

(** ** Duplicate filter *)
Global Instance chan_ann_eq_dec : EqDecision chan_ann.
Proof. solve_decision. Defined.
Definition ann_content_eq (a b : chan_ann) : bool :=
  bool_decide (ChanAnnMsg (ca_features a) (ca_chain a) (ca_scid a) (ca_n1 a) (ca_n2 a) (ca_b1 a) (ca_b2 a)
                          (ca_excess a) 0
               = ChanAnnMsg (ca_features b) (ca_chain b) (ca_scid b) (ca_n1 b) (ca_n2 b) (ca_b1 b) (ca_b2 b)
                            (ca_excess b) 0).

(** [pending_channel_announcement_matches]: a pending Full message matches only the same full
    message; a pending Unsigned one matches any delivery with the same contents *)
Definition pending_matches (sg : option ann_sigs) (a : chan_ann) (h : held_ann) : bool :=
  match ha_sg h with
  | Some _ => is_some_b sg && bool_decide (ca_mid (ha_msg h) = ca_mid a) && ann_content_eq (ha_msg h) a
  | None => ann_content_eq (ha_msg h) a
  end.

(** the announcement passes everything that precedes the UTXO lookup in
    [update_channel_from_(unsigned_)announcement] *)
Definition reaches_lookup (cf : cfg) (g : graph) (sg : option ann_sigs) (a : chan_ann) (u : utxo) : bool :=
  match pre_check cf g a u with
  | Some _ => false
  | None =>
      match (match sg with Some s => verify_ann cf a s | None => None end) with
      | Some _ => false
      | None => negb (is_some_b (g_rmc g !! ca_scid a) || is_some_b (g_rmn g !! ca_n1 a)
                      || is_some_b (g_rmn g !! ca_n2 a))
      end
  end.

(** first [check_replace_previous_entry] (no replacement): is the same announcement being checked? *)
Definition already_checking (s : pstate) (sg : option ann_sigs) (a : chan_ann) : bool :=
  match ps_chans s !! ca_scid a with
  | Some fid =>
      match ps_futs s !! fid with
      | Some pe => match pe_ann pe with Some h => pending_matches sg a h | None => false end
      | None => false
      end
  | None => false
  end.

(** ** Holding messages *)
Definition upd_newer (cur : option held_upd) (m : chan_upd) : bool :=
  match cur with Some h => cu_ts (hu_msg h) <? cu_ts m | None => true end.
Definition node_newer (cur : option held_node) (m : node_ann) : bool :=
  match cur with Some h => nm_ts (hn_msg h) <? nm_ts m | None => true end.

(** [check_hold_pending_channel_update]: [Some futures'] when the update is held *)
Definition hold_update (s : pstate) (sg : option (option Z)) (m : chan_upd) : option (gmap Z pend) :=
  match ps_chans s !! cu_scid m with
  | Some fid =>
      match ps_futs s !! fid with
      | Some pe =>
          let h := HeldUpd sg m in
          let pe' :=
            if Z.testbit (cu_cflags m) 0
            then (if upd_newer (pe_ua pe) m
                  then Pend (pe_ann pe) (pe_complete pe) (pe_na pe) (pe_nb pe) (Some h) (pe_ub pe) else pe)
            else (if upd_newer (pe_ub pe) m
                  then Pend (pe_ann pe) (pe_complete pe) (pe_na pe) (pe_nb pe) (pe_ua pe) (Some h) else pe) in
          Some (<[fid := pe']> (ps_futs s))
      | None => None
      end
  | None => None
  end.

(** [check_hold_pending_node_announcement]: the announcement is stored in every pending lookup of a
    channel of that node; [Some futures'] when held at least once *)
Definition hold_node_one (sg : option bool) (m : node_ann) (fs : gmap Z pend * bool) (fid : Z)
  : gmap Z pend * bool :=
  match fs.1 !! fid with
  | Some pe =>
      match pe_ann pe with
      | Some ha =>
          let h := HeldNode sg m in
          let pe' :=
            if ca_n1 (ha_msg ha) =? nm_nid m
            then (if node_newer (pe_na pe) m
                  then Pend (pe_ann pe) (pe_complete pe) (Some h) (pe_nb pe) (pe_ua pe) (pe_ub pe) else pe)
            else (if node_newer (pe_nb pe) m
                  then Pend (pe_ann pe) (pe_complete pe) (pe_na pe) (Some h) (pe_ua pe) (pe_ub pe) else pe) in
          (<[fid := pe']> fs.1, true)
      | None => fs
      end
  | None => fs
  end.
Definition hold_node (s : pstate) (sg : option bool) (m : node_ann) : option (gmap Z pend) :=
  match ps_nodes s !! nm_nid m with
  | Some fids =>
      let '(futs, found) := foldl (hold_node_one sg m) (ps_futs s, false) fids in
      if found then Some futs else None
  | None => None
  end.

(** ** A synchronous entry point with the pending-checks hooks.  Returns the result, the new state
    and the ops pushed through the graph ([[o]] or [[]]). *)
Definition psync (cf : cfg) (s : pstate) (o : op) : pres * pstate * list op :=
  let pass :=
    let '(r, g') := step cf (ps_g s) o in
    (PRes r, PState g' (ps_futs s) (ps_order s) (ps_chans s) (ps_nodes s), [o]) in
  match o with
  | OChanAnn via sg a u now =>
      if reaches_lookup cf (ps_g s) sg a u && already_checking s sg a
      then (PErr PEAlreadyChecking, s, [])
      else pass
  | OChanUpd via sg m now ov =>
      match (step cf (ps_g s) o).1 with
      | GErr ENoChan =>
          match hold_update s sg m with
          | Some futs => (PErr PEAwaitUpd, PState (ps_g s) futs (ps_order s) (ps_chans s) (ps_nodes s), [])
          | None => pass
          end
      | _ => pass
      end
  | ONodeAnn via sg m =>
      match (step cf (ps_g s) o).1 with
      | GErr ENoChannels =>
          match hold_node s sg m with
          | Some futs => (PErr PEAwaitNode, PState (ps_g s) futs (ps_order s) (ps_chans s) (ps_nodes s), [])
          | None => pass
          end
      | _ => pass
      end
  | OReload =>
      (* a re-read graph starts with empty pending checks *)
      (PRes (GOk VUnit), PState (step cf (ps_g s) o).2 (ps_futs s) [] ∅ ∅, [o])
  | _ => pass
  end.

(** ** An announcement whose lookup is answered with a future ([UtxoResult::Async]) *)
Definition push_fid (l : option (list Z)) (fid : Z) : option (list Z) :=
  Some (match l with Some x => x ++ [fid] | None => [fid] end).

Definition ann_async (cf : cfg) (s : pstate) (via : bool) (sg : option ann_sigs) (a : chan_ann)
    (fid : Z) (pre : option ares) (now : Z) : pres * pstate * list op :=
  let dummy := UUnknownTx in   (* "a lookup is configured" for the checks before it *)
  if negb (reaches_lookup cf (ps_g s) sg a dummy)
  then (PRes (step cf (ps_g s) (OChanAnn via sg a dummy now)).1, s, [])
  else if already_checking s sg a then (PErr PEAlreadyChecking, s, [])
  else match pre with
       | Some r =>
           (* the future was already resolved when it was handed over: handled in line *)
           let o := OChanAnn via sg a (utxo_of_ares r) now in
           let '(res, g') := step cf (ps_g s) o in
           (PRes res, PState g' (ps_futs s) (ps_order s) (ps_chans s) (ps_nodes s), [o])
       | None =>
           let pe := match ps_futs s !! fid with Some pe => pe | None => pend_empty end in
           let pe' := Pend (Some (HeldAnn sg a)) (pe_complete pe) (pe_na pe) (pe_nb pe) (pe_ua pe) (pe_ub pe) in
           (PErr PEBeingChecked,
            PState (ps_g s) (<[fid := pe']> (ps_futs s))
                   (if bool_decide (fid ∈ ps_order s) then ps_order s else ps_order s ++ [fid])
                   (<[ca_scid a := fid]> (ps_chans s))
                   (partial_alter (λ l, push_fid l fid) (ca_n2 a)
                      (partial_alter (λ l, push_fid l fid) (ca_n1 a) (ps_nodes s))),
            [])
       end.

(** ** [check_resolved_futures] *)
Definition is_complete (futs : gmap Z pend) (fid : Z) : bool :=
  match futs !! fid with Some pe => is_some_b (pe_complete pe) | None => false end.

(** the messages of one resolved future, in the order [resolve_single_future] replays them:
    the announcement (with a resolver answering [r]), node announcements a, b, updates a, b *)
Definition replay_ops (pe : pend) (r : ares) (now : Z) : list op :=
  match pe_ann pe with
  | Some ha =>
      [OChanAnn false (ha_sg ha) (ha_msg ha) (utxo_of_ares r) now]
        ++ match pe_na pe with Some h => [ONodeAnn false (hn_sg h) (hn_msg h)] | None => [] end
        ++ match pe_nb pe with Some h => [ONodeAnn false (hn_sg h) (hn_msg h)] | None => [] end
        ++ match pe_ua pe with Some h => [OChanUpd false (hu_sg h) (hu_msg h) now false] | None => [] end
        ++ match pe_ub pe with Some h => [OChanUpd false (hu_sg h) (hu_msg h) now false] | None => [] end
  | None => []
  end.

(** what is queued for relay after a successful replay of a SIGNED message *)
Definition relay_of (o : op) (r : pres) : list Z :=
  match r with
  | PRes (GOk _) =>
      match o with
      | OChanAnn _ (Some _) a _ _ => if ca_excess a <=? MAX_EXCESS_BYTES_FOR_RELAY then [ca_mid a] else []
      | OChanUpd _ (Some _) m _ _ => if cu_excess m <=? MAX_EXCESS_BYTES_FOR_RELAY then [cu_mid m] else []
      | ONodeAnn _ (Some _) m => if node_should_relay m then [nm_mid m] else []
      | _ => []
      end
  | _ => []
  end.

Definition psync_seq (cf : cfg) (acc : pstate * list Z * list op) (o : op) : pstate * list Z * list op :=
  let '(s, relay, emitted) := acc in
  let '(r, s', ops) := psync cf s o in
  (s', relay ++ relay_of o r, emitted ++ ops).

Definition resolve_one (cf : cfg) (now : Z) (acc : pstate * list Z * list op) (fid : Z)
  : pstate * list Z * list op :=
  let '(s, relay, emitted) := acc in
  match ps_futs s !! fid with
  | Some pe =>
      match pe_ann pe, pe_complete pe with
      | Some _, Some r =>
          let s1 := PState (ps_g s) (<[fid := pend_empty]> (ps_futs s)) (ps_order s) (ps_chans s) (ps_nodes s) in
          foldl (psync_seq cf) (s1, relay, emitted) (replay_ops pe r now)
      | _, _ => acc
      end
  | None => acc
  end.

Definition poll (cf : cfg) (s : pstate) (now : Z) : pres * pstate * list op :=
  let done := filter (λ fid, Is_true (is_complete (ps_futs s) fid)) (ps_order s) in
  let s1 := PState (ps_g s) (ps_futs s)
              (filter (λ fid, ¬ Is_true (is_complete (ps_futs s) fid)) (ps_order s))
              (filter (λ kv : Z * Z, ¬ Is_true (is_complete (ps_futs s) kv.2)) (ps_chans s))
              (omap (λ l, match filter (λ fid, ¬ Is_true (is_complete (ps_futs s) fid)) l with
                          | [] => None | l' => Some l' end) (ps_nodes s)) in
  let '(s2, relay, emitted) := foldl (resolve_one cf now) (s1, [], []) done in
  (PBroadcast relay, s2, emitted).

(** ** Rapid gossip sync: a parsed snapshot *)
Record rgs_ann := RgsAnn { ra_features : Z; ra_scid : Z; ra_n1 : Z; ra_n2 : Z; ra_funding : option Z }.
(** one channel update: the full flags byte (bit 7: incremental, bits 6..2: field presence, bits
    1..0: disable / direction) and the fields that are present *)
Record rgs_upd := RgsUpd {
  ru_scid : Z; ru_flags : Z;
  ru_cltv : option Z; ru_hmin : option Z; ru_base : option Z; ru_prop : option Z; ru_hmax : option Z
}.
Record rgs_defaults := RgsDefaults { rd_cltv : Z; rd_hmin : Z; rd_base : Z; rd_prop : Z; rd_hmax : Z }.
Record snapshot := Snapshot {
  sn_chain : Z;
  sn_ts : Z;                        (* latest_seen_timestamp *)
  sn_reminders : list Z;            (* node ids flagged "reminder" (v2): re-announce what is stored *)
  sn_anns : list rgs_ann;
  sn_defaults : rgs_defaults;
  sn_upds : list rgs_upd
}.

Definition backdated (sn : snapshot) : Z := Z.max 0 (sn_ts sn - 24 * 3600 * 7).
(** content id of the all-zero node announcement (no features, black, empty alias, no addresses) *)
Definition zero_content : Z := 64.

Definition opt_or (o : option Z) (d : Z) : Z := match o with Some v => v | None => d end.
Definition rgs_incremental (u : rgs_upd) : bool := Z.testbit (ru_flags u) 7.

(** the synthetic [UnsignedChannelUpdate] of one entry: defaults — or, for an incremental entry,
    the stored directional info — with exactly the flagged fields replaced; [None]: incremental
    entry for a direction the graph does not have (skipped) *)
Definition rgs_synth (g : graph) (sn : snapshot) (u : rgs_upd) : option chan_upd :=
  let d := sn_defaults sn in
  let base : option (Z * Z * Z * Z * Z) :=
    if rgs_incremental u then
      match (c ← g_chans g !! ru_scid u; chan_dir c (Z.testbit (ru_flags u) 0)) with
      | Some i => Some (ui_cltv i, ui_hmin i, ui_base i, ui_prop i, ui_hmax i)
      | None => None
      end
    else Some (rd_cltv d, rd_hmin d, rd_base d, rd_prop d, rd_hmax d) in
  match base with
  | Some (c, mn, b, p, mx) =>
      Some (ChanUpdMsg (sn_chain sn) (ru_scid u) (backdated sn) 1 (Z.land (ru_flags u) 3)
              (opt_or (ru_cltv u) c) (opt_or (ru_hmin u) mn) (opt_or (ru_hmax u) mx)
              (opt_or (ru_base u) b) (opt_or (ru_prop u) p) 0 0)
  | None => None
  end.

(** node "reminders": the stored announcement again, at the backdated timestamp (read from the
    graph as it is BEFORE the snapshot is applied) *)
Definition rgs_node_mod (g0 : graph) (sn : snapshot) (nid : Z) : node_ann :=
  NodeAnnMsg (backdated sn) nid
    (match (n ← g_nodes g0 !! nid; n_ann n) with Some a => na_content a | None => zero_content end) 0 0 0.

(** phase 1: announcements; a failure other than a duplicate aborts the whole snapshot *)
Fixpoint rgs_anns (cf : cfg) (sn : snapshot) (anns : list rgs_ann) (acc : pstate * list op)
  : option gerr * (pstate * list op) :=
  match anns with
  | [] => (None, acc)
  | a :: rest =>
      let o := OPartialAnn (ra_scid a) (ra_funding a) (backdated sn) (ra_features a) (ra_n1 a) (ra_n2 a) in
      let '(r, s', ops) := psync cf acc.1 o in
      match r with
      | PRes (GErr e) =>
          if bool_decide (err_action e = "IgnoreDuplicateGossip"%string)
          then rgs_anns cf sn rest (s', acc.2 ++ ops)
          else (Some e, (s', acc.2 ++ ops))
      | _ => rgs_anns cf sn rest (s', acc.2 ++ ops)
      end
  end.

Definition rgs_step_op (cf : cfg) (acc : pstate * list op) (o : op) : pstate * list op :=
  let '(_, s', ops) := psync cf acc.1 o in (s', acc.2 ++ ops).

Definition rgs_upd_one (cf : cfg) (sn : snapshot) (now : Z) (acc : pstate * list op) (u : rgs_upd)
  : pstate * list op :=
  match rgs_synth (ps_g acc.1) sn u with
  | Some m => rgs_step_op cf acc (OChanUpd false None m now false)
  | None => acc
  end.

(** [update_network_graph_from_byte_stream_no_std] on a parsed snapshot; [time]: current_time_unix *)
Definition rgs_apply (cf : cfg) (s : pstate) (sn : snapshot) (time : option Z) (now : Z)
  : pres * pstate * list op :=
  let mods := rgs_node_mod (ps_g s) sn <$> sn_reminders sn in
  match rgs_anns cf sn (sn_anns sn) (s, []) with
  | (Some e, (s1, ops)) => (PRgsErr e, s1, ops)
  | (None, acc1) =>
      let acc2 := foldl (λ acc m, rgs_step_op cf acc (ONodeAnn false None m)) acc1 mods in
      match sn_upds sn with
      | [] => (PRgsOk, acc2.1, acc2.2)   (* returns before the final pruning *)
      | _ =>
          let acc3 := foldl (rgs_upd_one cf sn now) acc2 (sn_upds sn) in
          let acc4 := match time with
                      | Some t => rgs_step_op cf acc3 (OPrune t)
                      | None => acc3
                      end in
          (PRgsOk, acc4.1, acc4.2)
      end
  end.

(** ** Operations of the layered model *)
Inductive pop :=
| PSync (o : op)
| PAnnAsync (via : bool) (sg : option ann_sigs) (a : chan_ann) (fid : Z) (pre : option ares) (now : Z)
| PResolve (fid : Z) (r : ares)
| PPoll (now : Z)
| PRgs (sn : snapshot) (time : option Z) (now : Z).

Definition pstep (cf : cfg) (s : pstate) (o : pop) : pres * pstate * list op :=
  match o with
  | PSync o => psync cf s o
  | PAnnAsync via sg a fid pre now => ann_async cf s via sg a fid pre now
  | PResolve fid r =>
      (PRes (GOk VUnit),
       PState (ps_g s)
              (match ps_futs s !! fid with
               | Some pe => <[fid := Pend (pe_ann pe) (Some r) (pe_na pe) (pe_nb pe) (pe_ua pe) (pe_ub pe)]> (ps_futs s)
               | None => ps_futs s
               end) (ps_order s) (ps_chans s) (ps_nodes s), [])
  | PPoll now => poll cf s now
  | PRgs sn time now => rgs_apply cf s sn time now
  end.

Definition prun (cf : cfg) (s : pstate) (ops : list pop) : pstate :=
  foldl (λ s o, (pstep cf s o).1.2) s ops.
(** all synchronous ops pushed through the graph by a run *)
Definition pemitted (cf : cfg) (s : pstate) (ops : list pop) : list op :=
  (foldl (λ (acc : pstate * list op) o, let '(_, s', e) := pstep cf acc.1 o in (s', acc.2 ++ e)) (s, []) ops).2.

(** ** Printing *)
Definition enc_pres (r : pres) : list Z :=
  match r with
  | PRes r => enc_res r
  | PErr PEAlreadyChecking => [10; 0]
  | PErr PEBeingChecked => [10; 1]
  | PErr PEAwaitUpd => [10; 2]
  | PErr PEAwaitNode => [10; 3]
  | PBroadcast l => 11 :: l
  | PRgsOk => [12]
  | PRgsErr e => [13; err_index_in all_errs e 0]
  end.
Definition pres_ok (r : pres) : bool :=
  match r with PRes (GErr _) | PErr _ | PRgsErr _ => false | _ => true end.

Fixpoint ptrace (cf : cfg) (s : pstate) (ops : list pop) : list (list (list (list Z))) :=
  match ops with
  | [] => []
  | o :: ops' =>
      let '(r, s', _) := pstep cf s o in
      (match r with
       | PRes (GErr _) | PErr _ => [[enc_pres r]]    (* graph unchanged *)
       | _ => let '(c, n, rc, rn) := dump (ps_g s') in [[enc_pres r]; c; n; enc_pairs rc; enc_pairs rn]
       end) :: ptrace cf s' ops'
  end.

(** ** Statement vocabulary: "this op is a delivered message"
    An op pushed through the graph counts as delivered when the session contains the same message
    with the same signature verdict — delivered directly ([PSync]) or with a lookup ([PAnnAsync])
    — or, for unsigned updates / node announcements / partial announcements / pruning, when a
    snapshot was applied. *)
Definition rgs_in (pops : list pop) : Prop := ∃ sn tm t, PRgs sn tm t ∈ pops.

Definition delivered (pops : list pop) (o : op) : Prop :=
  match o with
  | OChanAnn _ sg a _ _ =>
      (∃ v u t, PSync (OChanAnn v sg a u t) ∈ pops) ∨ (∃ v f p t, PAnnAsync v sg a f p t ∈ pops)
  | OChanUpd _ sg m _ _ =>
      (∃ v t ov, PSync (OChanUpd v sg m t ov) ∈ pops) ∨ (sg = None ∧ rgs_in pops)
  | ONodeAnn _ sg m => (∃ v, PSync (ONodeAnn v sg m) ∈ pops) ∨ (sg = None ∧ rgs_in pops)
  | OPartialAnn _ _ _ _ _ _ | OPrune _ => PSync o ∈ pops ∨ rgs_in pops
  | _ => PSync o ∈ pops
  end.

