(** C20, pure specification level: the chain-difference walk of lib.rs ([find_difference_from_header])
    over an abstract header DAG - parent pointers, heights, chainwork ([tree] of Model/BlockSync.v) -
    with no block source, no cache, no errors: what the walk computes when every look-up succeeds.
    [walk] mirrors the loop of the Rust function: while the two hashes differ, the header that is not
    lower steps to its parent; stepping the old side records a disconnected block, stepping the new
    side records a connected block.  No proofs here (Proofs/C20Walk.v). *)
Require Import LdkV.Prim.U64 LdkV.Model.BlockSync.
Open Scope Z_scope.
Local Open Scope list_scope.

(** result: (common ancestor, disconnected blocks TIP FIRST, connected blocks in ASCENDING order) *)
Fixpoint walk (fuel : nat) (T : tree) (cur prev : Z) (disc conn : list Z) : option (Z * list Z * list Z) :=
  match fuel with
  | O => None
  | S f =>
    match T cur, T prev with
    | Some nc, Some np =>
      if cur =? prev then Some (cur, rev disc, conn)
      else
        let down_prev := n_height nc <=? n_height np in
        let down_cur := n_height np <=? n_height nc in
        walk f T (if down_cur then n_prev nc else cur) (if down_prev then n_prev np else prev)
             (if down_prev then prev :: disc else disc) (if down_cur then cur :: conn else conn)
    | _, _ => None
    end
  end.

Definition chain_diff (T : tree) (new old : Z) : option (Z * list Z * list Z) :=
  match T new, T old with
  | Some nn, Some no => walk (S (Z.to_nat (n_height nn + n_height no))) T new old [] []
  | _, _ => None
  end.

(** A listener's view of the chain: the ascending list of the blocks above some root it knows about.
    Applying a difference: drop as many blocks from the top as were disconnected, append the connected. *)
Definition apply_diff (view disc conn : list Z) : list Z :=
  firstn (List.length view - List.length disc) view ++ conn.

(** Validated-header linkage (what [check_builds_on] and fix c78dc41 enforce on every parent look-up). *)
Definition linked (T : tree) (v : vh) : Prop :=
  forall p, T (v_prev v) = Some p -> v_height v = n_height p + 1 /\ v_cwork v = n_cwork p + v_bwork v.

(** Delivery order of a composite listener for one notification: leaves left to right. *)
Definition in_order (n : nat) (e : event) : list (nat * event) := map (fun i => (i, e)) (seq 0 n).

(** What a notification log connects, full blocks and header-only alike, and where it forks. *)
Definition conn_hashes (log : list event) : list Z :=
  flat_map (fun e => match e with EConn b _ _ => [b] | EDisc _ _ => [] end) log.
Definition fork_of (start : Z) (log : list event) : Z :=
  match log with EDisc f _ :: _ => f | _ => start end.
