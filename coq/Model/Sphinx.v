(** Sphinx onion construction and peeling (BOLT-4) as implemented in
    [lightning/src/ln/onion_utils.rs]: [construct_onion_packet_with_init_noise] and [decode_next_hop].

    The model is parametric (a [Section]) in
      - the per-hop payload type with its wire codec [enc]/[parse] (length-prefixed TLV stream in LDK),
      - the stream cipher: [ks key n] is the first [n] bytes of the ChaCha20 stream under [key] with
        the all-zero nonce, starting at byte 0 (ChaCha20::new(key, nonce, 0)),
      - [hmac key msg] (HMAC-SHA256 in LDK).
    Byte strings are [list Z] ([Crypto/Bytes.v]).  Nothing here is proved; see [Proofs/C14*.v].
    [Model/SphinxInst.v] instantiates the section with the Gallina ChaCha20 / HMAC-SHA256. *)
From Coq Require Import ZArith List Bool Lia.
Require Import LdkV.Crypto.Bytes.
Import ListNotations.
Open Scope nat_scope.

Section Sphinx.
  Variable payload : Type.
  Variable enc : payload -> bytes.
  Variable parse : bytes -> option (payload * bytes).
  Variable ks : bytes -> nat -> bytes.
  Variable hmac : bytes -> bytes -> bytes.

  (** [OnionKeys { rho, mu, .. }]; the ephemeral public key is carried next to the model (secp256k1 is
      not modelled). *)
  Record hopkeys : Type := mk_hopkeys { hk_rho : bytes; hk_mu : bytes }.
  (** The part of [msgs::OnionPacket] the construction computes: [hop_data] and [hmac]. *)
  Record packet : Type := mk_packet { p_data : bytes; p_hmac : bytes }.

  Definition hop : Type := (hopkeys * payload)%type.
  (** [payload.serialized_length() + 32] *)
  Definition hop_len (h : hop) : nat := length (enc (snd h)) + 32.
  (** [payloads_serialized_length] *)
  Definition total_len (hs : list hop) : nat := fold_right (fun h acc => hop_len h + acc) 0 hs.

  (** [ChaCha20::new(key, nonce, seek)] followed by [apply_keystream] on [len] zero bytes: the
      stream bytes [seek .. seek+len). *)
  Definition ks_at (key : bytes) (seek len : nat) : bytes := skipn seek (ks key (seek + len)).

  (** The filler loop (onion_utils.rs:881-907).  State: [pos], [res].  [None] is [Err(())]. *)
  Fixpoint filler_loop (N : nat) (hs : list hop) (pos : nat) (res : bytes) : option bytes :=
    match hs with
    | [] => Some res
    | h :: tl =>
        let seek_pos := N - pos in
        let pos' := pos + hop_len h in
        if N <? pos' then None
        else match tl with
             | [] => Some res                                  (* i == payloads.len() - 1: break *)
             | _ :: _ =>
                 let resized := res ++ zeros (pos' - length res) in   (* res.resize(pos, 0) *)
                 filler_loop N tl pos' (xor_bytes resized (ks_at (hk_rho (fst h)) seek_pos pos'))
             end
    end.

  (** The wrapping loop (onion_utils.rs:909-934) runs over the hops in reverse; as a structural
      recursion the innermost call is the last hop (the Rust [i == 0]).  Returns
      [(packet_data, hmac_res)] after the iteration for the head of [hs]. *)
  Fixpoint wrap_loop (N : nat) (ad filler noise : bytes) (hs : list hop) : bytes * bytes :=
    match hs with
    | [] => (noise, zeros 32)
    | h :: tl =>
        let '(data, hmac_res) := wrap_loop N ad filler noise tl in
        let pl := enc (snd h) in
        (* shift_slice_right(packet_data, len + 32); copy payload; copy hmac_res *)
        let shifted := pl ++ hmac_res ++ firstn (N - (length pl + 32)) data in
        let crypted := xor_bytes shifted (ks (hk_rho (fst h)) N) in
        let data' := match tl with
                     | [] => firstn (N - length filler) crypted ++ filler   (* i == 0: copy filler to the tail *)
                     | _ :: _ => crypted
                     end in
        (data', hmac (hk_mu (fst h)) (data' ++ ad))
    end.

  (** [construct_onion_packet_with_init_noise(payloads, onion_keys, packet_data = noise, associated_data)].
      [ad] is the payment hash ([[]] when [associated_data] is [None]). *)
  Definition build (noise : bytes) (hs : list hop) (ad : bytes) : option packet :=
    let N := length noise in
    match hs with
    | [] => None                                               (* payloads.is_empty() *)
    | _ :: _ =>
        match filler_loop N hs 0 [] with
        | None => None
        | Some filler =>
            if N <? length filler then None                    (* stop_index.checked_sub(filler.len()) *)
            else let '(data, h) := wrap_loop N ad filler noise hs in
                 Some (mk_packet data h)
        end
    end.

  (** [construct_onion_packet]: the initial noise is the ChaCha20 stream of [prng_seed]. *)
  Definition build_seeded (N : nat) (prng_seed : bytes) (hs : list hop) (ad : bytes) : option packet :=
    build (xor_bytes (zeros N) (ks prng_seed N)) hs ad.

  Inductive peel_err : Type :=
  | HmacCheckFailed      (* OnionDecodeErr::Malformed, InvalidOnionHMAC *)
  | BadPayload           (* OnionDecodeErr::Relay: payload does not decode *)
  | ShortHmac.           (* OnionDecodeErr::Relay: fewer than 32 bytes after the payload *)

  Inductive peeled : Type :=
  | PeelErr (e : peel_err)
  | PeelFinal (p : payload)                        (* Ok((msg, None)) *)
  | PeelForward (p : payload) (next : packet).     (* Ok((msg, Some((hmac, new_packet_bytes)))) *)

  (** [decode_next_hop(shared_secret, hop_data, hmac_bytes, payment_hash, ..)] with the keys already
      derived from the shared secret. *)
  Definition peel (k : hopkeys) (ad : bytes) (P : packet) : peeled :=
    let hop_data := p_data P in
    let N := length hop_data in
    if negb (bytes_eqb (hmac (hk_mu k) (hop_data ++ ad)) (p_hmac P)) then PeelErr HmacCheckFailed
    else
      let plain := xor_bytes hop_data (ks (hk_rho k) N) in
      match parse plain with
      | None => PeelErr BadPayload
      | Some (p, rest) =>
          if length rest <? 32 then PeelErr ShortHmac
          else
            let next_hmac := firstn 32 rest in
            let remaining := skipn 32 rest in
            if bytes_eqb next_hmac (zeros 32) then PeelFinal p
            else
              let read_pos := length remaining in
              (* the stream has produced N bytes so far; encrypt zeros until the packet is full *)
              PeelForward p (mk_packet (remaining ++ ks_at (hk_rho k) N (N - read_pos)) next_hmac)
      end.

  (** Successive peeling along a route: hop [i] peels with its key and hands the next packet on.
      Returns what each hop saw, or the first error. *)
  Fixpoint peel_route (keys : list hopkeys) (ad : bytes) (P : packet) : list payload * option peel_err * bool :=
    match keys with
    | [] => ([], None, false)
    | k :: tl =>
        match peel k ad P with
        | PeelErr e => ([], Some e, false)
        | PeelFinal p => ([p], None, true)
        | PeelForward p next =>
            let '(ps, e, fin) := peel_route tl ad next in (p :: ps, e, fin)
        end
    end.
End Sphinx.

Arguments PeelErr {payload}.
Arguments PeelFinal {payload}.
Arguments PeelForward {payload}.
