(** Model of the BOLT 11 layer of [lightning-invoice] that sits between the bech32 symbols and the
    semantic fields ([de.rs], [ser.rs], amount handling of [lib.rs]):

    - human-readable part: the [hrp_sm] state machine, [RawHrp::from_str], [Display for RawHrp],
      [InvoiceBuilder::amount_milli_satoshis], [amount_pico_btc], [check_amount];
    - big-endian base-32 integers ([parse_u64_be]/[parse_u16_be], [encode_int_be_base32]);
    - the timestamp (7 symbols) and the tagged-field framing (5-bit tag, 10-bit length, data) of
      [parse_tagged_parts] / [write_tagged_field];
    - the split of the data part into signed data and the 104-symbol signature trailer, the bytes
      that are hashed for signing ([RawBolt11Invoice::hash_from_parts]) and
      [SignedRawBolt11Invoice::check_signature] over an abstract ECDSA.

    Strings are lists of code points, symbols are [Z] in [0,32), bytes [Z] in [0,256). *)
Require Import LdkV.Prim.U64 LdkV.Model.Bech32.
Open Scope Z_scope.

(** * Decimal numbers ([u64::to_string], [str::parse::<u64>] on digit strings) *)

Definition is_digit (c : Z) : bool := (48 <=? c) && (c <=? 57).

(** digits of [x], least significant first; [fuel] bounds the number of digits *)
Fixpoint dec_digits_rev (fuel : nat) (x : Z) : list Z :=
  match fuel with
  | O => []
  | S f => if x <? 10 then [48 + x] else (48 + x mod 10) :: dec_digits_rev f (x / 10)
  end.
(** [u64::to_string]: 20 digits suffice for [x < 2^64]. *)
Definition print_dec (x : Z) : list Z := rev (dec_digits_rev 20 x).

(** [parse::<u64>] restricted to non-empty all-digit input (what the hrp state machine hands
    over): [None] on overflow of [u64]. Leading zeros are accepted. *)
Fixpoint parse_dec_go (acc : Z) (s : list Z) : option Z :=
  match s with
  | [] => Some acc
  | c :: r => let acc' := acc * 10 + (c - 48) in
              if acc' <? 2 ^ 64 then parse_dec_go acc' r else None
  end.
Definition parse_dec (s : list Z) : option Z := parse_dec_go 0 s.

(** * Human-readable part *)

Inductive currency := Bitcoin | BitcoinTestnet | Regtest | Simnet | Signet.
Inductive si_prefix := Milli | Micro | Nano | Pico.

Record raw_hrp := { h_currency : currency; h_amount : option Z; h_si : option si_prefix }.

Definition multiplier (p : si_prefix) : Z :=
  match p with Milli => 1000000000 | Micro => 1000000 | Nano => 1000 | Pico => 1 end.

(** ASCII *)
Definition currency_str (c : currency) : list Z :=
  match c with
  | Bitcoin => [98; 99]                 (* bc *)
  | BitcoinTestnet => [116; 98]         (* tb *)
  | Regtest => [98; 99; 114; 116]       (* bcrt *)
  | Simnet => [115; 98]                 (* sb *)
  | Signet => [116; 98; 115]            (* tbs *)
  end.
Definition si_char (p : si_prefix) : Z :=
  match p with Milli => 109 | Micro => 117 | Nano => 110 | Pico => 112 end.

Fixpoint list_eqb (a b : list Z) : bool :=
  match a, b with
  | [], [] => true
  | x :: a', y :: b' => (x =? y) && list_eqb a' b'
  | _, _ => false
  end.

Definition currency_of_str (s : list Z) : option currency :=
  if list_eqb s [98; 99] then Some Bitcoin
  else if list_eqb s [116; 98] then Some BitcoinTestnet
  else if list_eqb s [98; 99; 114; 116] then Some Regtest
  else if list_eqb s [115; 98] then Some Simnet
  else if list_eqb s [116; 98; 115] then Some Signet
  else None.

Definition si_of_char (c : Z) : option si_prefix :=
  if c =? 109 then Some Milli else if c =? 117 then Some Micro
  else if c =? 110 then Some Nano else if c =? 112 then Some Pico else None.

(** [Display for RawHrp]: "ln" currency amount si *)
Definition print_hrp (h : raw_hrp) : list Z :=
  [108; 110] ++ currency_str (h_currency h)
  ++ (match h_amount h with Some a => print_dec a | None => [] end)
  ++ (match h_si h with Some p => [si_char p] | None => [] end).

(** [hrp_sm]: the states and [next_state]; the machine records the three ranges, which are
    contiguous, so the model accumulates the three substrings directly. *)
Inductive hstate := HStart | HParseL | HParseN | HCurrency | HAmount | HSi.

Definition hrp_next (st : hstate) (c : Z) : rres hstate :=
  if negb ((0 <=? c) && (c <? 128)) then RErr "MalformedHRP" else
  match st with
  | HStart => if c =? 108 then ROk HParseL else RErr "MalformedHRP"
  | HParseL => if c =? 110 then ROk HParseN else RErr "MalformedHRP"
  | HParseN => if negb (is_digit c) then ROk HCurrency else ROk HAmount
  | HCurrency => if negb (is_digit c) then ROk HCurrency else ROk HAmount
  | HAmount => if is_digit c then ROk HAmount
               else match si_of_char c with Some _ => ROk HSi | None => RErr "UnknownSiPrefix" end
  | HSi => RErr "MalformedHRP"
  end.

Fixpoint hrp_sm (st : hstate) (cur amt si : list Z) (s : list Z) : rres (hstate * list Z * list Z * list Z) :=
  match s with
  | [] => ROk (st, cur, amt, si)
  | c :: r =>
      match hrp_next st c with
      | RErr e => RErr e
      | ROk st' =>
          match st' with
          | HCurrency => hrp_sm st' (cur ++ [c]) amt si r
          | HAmount => hrp_sm st' cur (amt ++ [c]) si r
          | HSi => hrp_sm st' cur amt (si ++ [c]) r
          | _ => hrp_sm st' cur amt si r
          end
      end
  end.

Definition is_final (st : hstate) : bool :=
  match st with HParseL | HParseN => false | _ => true end.

(** [RawHrp::from_str] (the argument is already lower-cased by the caller). *)
Definition parse_hrp (s : list Z) : rres raw_hrp :=
  match hrp_sm HStart [] [] [] s with
  | RErr e => RErr e
  | ROk (st, cur, amt, si) =>
      if negb (is_final st) then RErr "MalformedHRP" else
      match currency_of_str cur with
      | None => RErr "UnknownCurrency"
      | Some c =>
          match (match amt with [] => ROk None
                            | _ => match parse_dec amt with Some a => ROk (Some a) | None => RErr "ParseAmountError" end
                 end) with
          | RErr e => RErr e
          | ROk amount =>
              match si with
              | [] => ROk {| h_currency := c; h_amount := amount; h_si := None |}
              | sc :: _ =>
                  match si_of_char sc with
                  | None => RErr "UnknownSiPrefix"
                  | Some p =>
                      match amount with
                      | Some a => if 2 ^ 64 <=? a * multiplier p then RErr "IntegerOverflowError"
                                  else ROk {| h_currency := c; h_amount := amount; h_si := Some p |}
                      | None => ROk {| h_currency := c; h_amount := amount; h_si := Some p |}
                      end
                  end
              end
          end
      end
  end.

(** [RawBolt11Invoice::amount_pico_btc]: [None] if no amount or on [u64] overflow. *)
Definition amount_pico_btc (h : raw_hrp) : option Z :=
  match h_amount h with
  | None => None
  | Some v =>
      let m := match h_si h with Some p => multiplier p | None => 1000000000000 end in
      if v * m <? 2 ^ 64 then Some (v * m) else None
  end.
Definition amount_msat (h : raw_hrp) : option Z :=
  match amount_pico_btc h with Some p => Some (p / 10) | None => None end.
(** [Bolt11Invoice::check_amount] *)
Definition check_amount (h : raw_hrp) : bool :=
  match amount_pico_btc h with Some p => p mod 10 =? 0 | None => true end.

(** [InvoiceBuilder::amount_milli_satoshis]: picoBTC = msat * 10 (checked); the largest prefix
    whose multiplier divides the amount. *)
Definition build_amount (c : currency) (amount_msat : Z) : rres raw_hrp :=
  let amount := amount_msat * 10 in
  if 2 ^ 64 <=? amount then RErr "InvalidAmount" else
  let p := if amount mod 1000000000 =? 0 then Milli
           else if amount mod 1000000 =? 0 then Micro
           else if amount mod 1000 =? 0 then Nano else Pico in
  ROk {| h_currency := c; h_amount := Some (amount / multiplier p); h_si := Some p |}.

(** * Base-32 big-endian integers *)

(** [parse_u64_be] / [parse_u16_be]: checked multiply-add in the target width. *)
Definition parse_int_be (width : Z) (digits : list Z) : option Z :=
  fold_left (fun acc b =>
    match acc with
    | None => None
    | Some x => if x * 32 <? 2 ^ width
                then (if x * 32 + b <? 2 ^ width then Some (x * 32 + b) else None)
                else None
    end) digits (Some 0).

(** [encode_int_be_base32]: no leading zeros (13 symbols hold 64 bits); 0 is the empty string. *)
Fixpoint int_digits_rev (fuel : nat) (x : Z) : list Z :=
  match fuel with
  | O => []
  | S f => if x =? 0 then [] else (x mod 32) :: int_digits_rev f (x / 32)
  end.
Definition encode_int_be (x : Z) : list Z := rev (int_digits_rev 13 x).

(** [PositiveTimestamp::fe_iter]: left-padded with zeros to 7 symbols. *)
Definition encode_timestamp (t : Z) : list Z :=
  let d := encode_int_be t in repeat 0 (7 - List.length d) ++ d.

(** * Tagged fields: framing *)

(** A raw field: tag symbol and data symbols (fewer than 1024). *)
Definition field := (Z * list Z)%type.

(** [write_tagged_field] *)
Definition ser_field (f : field) : list Z :=
  let '(tag, data) := f in
  let len := Z.of_nat (List.length data) in
  [tag; len / 32; len mod 32] ++ data.
Definition ser_fields (fs : list field) : list Z := List.concat (map ser_field fs).

(** [parse_tagged_parts], the framing loop; [fuel] bounds the number of fields by the length. *)
Fixpoint parse_fields_go (fuel : nat) (data : list Z) : rres (list field) :=
  match data with
  | [] => ROk []
  | _ =>
    match fuel with
    | O => RErr "OutOfFuel"
    | S f =>
      match data with
      | tag :: l1 :: l2 :: rest =>
          let len := Z.to_nat (l1 * 32 + l2) in
          if (List.length rest <? len)%nat then RErr "UnexpectedEndOfTaggedFields"
          else match parse_fields_go f (skipn len rest) with
               | RErr e => RErr e
               | ROk fs => ROk ((tag, firstn len rest) :: fs)
               end
      | _ => RErr "UnexpectedEndOfTaggedFields"
      end
    end
  end.
Definition parse_fields (data : list Z) : rres (list field) := parse_fields_go (S (List.length data)) data.

Definition field_ok (f : field) : bool :=
  fe_ok (fst f) && forallb fe_ok (snd f) && (Z.of_nat (List.length (snd f)) <? 1024).

(** [RawDataPart]: timestamp and fields. *)
Definition ser_data (ts : Z) (fs : list field) : list Z := encode_timestamp ts ++ ser_fields fs.
Definition parse_data (data : list Z) : rres (Z * list field) :=
  if (List.length data <? 7)%nat then RErr "TooShortDataPart" else
  match parse_int_be 64 (firstn 7 data) with
  | None => RErr "IntegerOverflowError"      (* unreachable: 35 bits *)
  | Some ts => match parse_fields (skipn 7 data) with
               | RErr e => RErr e
               | ROk fs => ROk (ts, fs)
               end
  end.

(** Tags ([constants]) *)
Definition TAG_PAYMENT_HASH := 1.
Definition TAG_PRIVATE_ROUTE := 3.
Definition TAG_FEATURES := 5.
Definition TAG_EXPIRY_TIME := 6.
Definition TAG_FALLBACK := 9.
Definition TAG_DESCRIPTION := 13.
Definition TAG_PAYMENT_SECRET := 16.
Definition TAG_PAYEE_PUB_KEY := 19.
Definition TAG_DESCRIPTION_HASH := 23.
Definition TAG_MIN_FINAL_CLTV := 24.
Definition TAG_PAYMENT_METADATA := 27.

(** First field with the given tag ([find_extract!]); integer-valued fields. *)
Fixpoint find_tag (tag : Z) (fs : list field) : option (list Z) :=
  match fs with
  | [] => None
  | (t, d) :: r => if t =? tag then Some d else find_tag tag r
  end.

(** * Signature trailer and the signed bytes *)

Definition SIGNATURE_LEN_5 : nat := 104.

(** [SignedRawBolt11Invoice::from_str] after the checksum: split off the last 104 symbols. *)
Definition split_signature (data : list Z) : rres (list Z * list Z) :=
  if (List.length data <? SIGNATURE_LEN_5)%nat then RErr "TooShortDataPart"
  else ROk (firstn (List.length data - SIGNATURE_LEN_5) data, skipn (List.length data - SIGNATURE_LEN_5) data).

(** [hash_from_parts]: pad the symbols with zero symbols up to a byte boundary, regroup. *)
Definition pad_to_byte (data : list Z) : list Z :=
  let overhang := (Z.of_nat (List.length data) * 5) mod 8 in
  if 0 <? overhang then (if overhang <? 3 then data ++ [0; 0] else data ++ [0]) else data.
Definition signable_bytes (hrp : list Z) (data_without_signature : list Z) : list Z :=
  hrp ++ from_u5_lax (pad_to_byte data_without_signature).

(** The signature trailer: 64 compact bytes and the recovery id (0..3). *)
Definition parse_signature (sig5 : list Z) : rres (list Z * Z) :=
  if negb (List.length sig5 =? 104)%nat then RErr "InvalidSliceLength" else
  let bytes := from_u5_lax sig5 in
  let rid := nth 64 bytes 0 in
  if (0 <=? rid) && (rid <=? 3) then ROk (firstn 64 bytes, rid) else RErr "MalformedSignature".

(** * [check_signature] over an abstract ECDSA

    [sha : bytes -> hash], [verify hash sig pk], [recover hash sig rid : option pk].  The signable
    hash is computed from the *re-serialised* parsed invoice (timestamp and raw fields), exactly as
    [RawBolt11Invoice::signable_hash] does. *)
(** An [n] field with known semantics: tag 19 and exactly 53 symbols (any other length is skipped
    by the parser and kept as an unknown field; a 53-symbol field that is not a valid point makes
    the whole parse fail, which [decode_pk = None] stands for). *)
Definition is_payee_field (f : field) : bool :=
  (fst f =? TAG_PAYEE_PUB_KEY) && (List.length (snd f) =? 53)%nat.
(** [RawBolt11Invoice::payee_pub_key]: [find_extract!] = the FIRST such field, also when the field
    list contains several. *)
Definition first_payee_field (fs : list field) : option (list Z) :=
  match filter is_payee_field fs with f :: _ => Some (snd f) | [] => None end.

Section Signature.
  Variable hash : Type.
  Variable pubkey : Type.
  Variable sha : list Z -> hash.
  Variable verify : hash -> list Z -> pubkey -> bool.
  Variable recover : hash -> list Z -> Z -> option pubkey.
  (** secp256k1 point decoding of the 33 bytes carried by an [n] field *)
  Variable decode_pk : list Z -> option pubkey.

  Definition payee_of_fields (fs : list field) : option pubkey :=
    match first_payee_field fs with Some d => decode_pk d | None => None end.

  Record signed_raw := {
    sr_hrp : raw_hrp; sr_ts : Z; sr_fields : list field; sr_sig : list Z; sr_rid : Z }.

  Definition signable_hash (s : signed_raw) : hash :=
    sha (signable_bytes (print_hrp (sr_hrp s)) (ser_data (sr_ts s) (sr_fields s))).

  (** [SignedRawBolt11Invoice::check_signature]: the key verified against is the one
      [payee_pub_key()] returns -- the same accessor [get_payee_pub_key] reports. *)
  Definition check_signature (s : signed_raw) : bool :=
    match payee_of_fields (sr_fields s) with
    | Some pk => verify (signable_hash s) (sr_sig s) pk
    | None => match recover (signable_hash s) (sr_sig s) (sr_rid s) with Some _ => true | None => false end
    end.

  (** [Bolt11Invoice::get_payee_pub_key] *)
  Definition payee_pub_key (s : signed_raw) : option pubkey :=
    match payee_of_fields (sr_fields s) with
    | Some pk => Some pk
    | None => recover (signable_hash s) (sr_sig s) (sr_rid s)
    end.
End Signature.
