(** Executable SHA-256 / HMAC-SHA256 instances of the BOLT 12 models (merkle root, signature
    digest, metadata), used for byte-exact correspondence with [lightning::offers], and the
    expansion of [ExpandedKey::new] ([hkdf_extract_expand_8x]) needed to obtain the
    [offers_base_key] from the key material the harness uses.  The BOLT 12 specification's merkle
    test vectors are checked at the end. *)
Require Import LdkV.Prim.U64 LdkV.Crypto.Bytes LdkV.Crypto.Sha256 LdkV.Crypto.Hmac.
Require Import LdkV.Model.Bolt12Merkle LdkV.Model.OfferMeta LdkV.Model.Bech32 LdkV.Model.Bolt11.
Open Scope Z_scope.

Definition root_sha (rs : list Bolt12Merkle.bytes) : option Bolt12Merkle.bytes := root_hash sha256 rs.
Definition stream_root_sha (s : Bolt12Merkle.bytes) : option Bolt12Merkle.bytes := stream_root sha256 s.
Definition digest_sha (tag : Bolt12Merkle.bytes) (s : Bolt12Merkle.bytes) : option Bolt12Merkle.bytes :=
  match stream_root_sha s with Some r => Some (sig_digest sha256 tag r) | None => None end.

(** [hkdf_extract_expand_8x(salt, ikm)]: the 4th output is [offers_base_key]. *)
Definition LDK_KEY_EXPANSION_SALT : Bolt12Merkle.bytes := bytes_of_string "LDK Inbound Payment Key Expansion".
Definition offers_base_key (key_material : Bolt12Merkle.bytes) : Bolt12Merkle.bytes :=
  let prk := hmac_sha256 LDK_KEY_EXPANSION_SALT key_material in
  let k1 := hmac_sha256 prk [1] in
  let k2 := hmac_sha256 prk (k1 ++ [2]) in
  let k3 := hmac_sha256 prk (k2 ++ [3]) in
  hmac_sha256 prk (k3 ++ [4]).

(** Verdict of the metadata checks with the real MAC; for the derived-key form the secret key is
    returned and the public key comparison is left to the caller (secp256k1 is not modelled):
    [pk_of_sk] is instantiated by the identity and the "signing key" argument by the expected
    secret, so that [VOkDerivedKeys sk] is produced exactly when the MAC is computable. *)
Definition meta_verdict_offer (key_material : Bolt12Merkle.bytes) (stream : Bolt12Merkle.bytes) : string * Bolt12Merkle.bytes :=
  match split_records stream with
  | None => ("malformed"%string, [])
  | Some rs =>
      match find_record 4 rs with
      | None => ("Err"%string, [])
      | Some md =>
          match hmac_input md IV_OFFER_WITH_METADATA
                  (offer_records_for_metadata (List.length md =? NONCE_LEN)%nat rs) with
          | None => ("Err"%string, [])
          | Some inp =>
              let mac := hmac_sha256 (offers_base_key key_material) (inp ++ WITHOUT_ENCRYPTED_PAYMENT_ID_HMAC_INPUT) in
              if (List.length md =? NONCE_LEN)%nat then ("DerivedKeys"%string, mac)
              else if (List.length md =? NONCE_LEN + HMAC_LEN)%nat && OfferMeta.bytes_eqb (skipn NONCE_LEN md) mac
                   then ("Ok"%string, []) else ("Err"%string, [])
          end
      end
  end.

Definition meta_verdict_payer (key_material iv : Bolt12Merkle.bytes) (stream : Bolt12Merkle.bytes) : string * Bolt12Merkle.bytes :=
  match split_records stream with
  | None => ("malformed"%string, [])
  | Some rs =>
      match find_record 0 rs with
      | None => ("Err"%string, [])
      | Some md =>
          if (List.length md <? PAYMENT_ID_LEN)%nat then ("Err"%string, []) else
          let enc := firstn PAYMENT_ID_LEN md in
          let rest := skipn PAYMENT_ID_LEN md in
          match hmac_input rest iv (payer_records_for_metadata (List.length md =? PAYMENT_ID_LEN + NONCE_LEN)%nat rs) with
          | None => ("Err"%string, [])
          | Some inp =>
              let mac := hmac_sha256 (offers_base_key key_material) (inp ++ WITH_ENCRYPTED_PAYMENT_ID_HMAC_INPUT ++ enc) in
              if (List.length rest =? NONCE_LEN)%nat then ("DerivedKeys"%string, mac)
              else if (List.length rest =? NONCE_LEN + HMAC_LEN)%nat && OfferMeta.bytes_eqb (skipn NONCE_LEN rest) mac
                   then ("Ok"%string, []) else ("Err"%string, [])
          end
      end
  end.

(** BOLT 11: the hash that is signed, from the string's own hrp and data part. *)
Definition bolt11_signable_hash (hrp : list Z) (data_with_signature : list Z) : option Bolt12Merkle.bytes :=
  match split_signature data_with_signature with
  | ROk (d, _) => Some (sha256 (signable_bytes hrp d))
  | RErr _ => None
  end.

(** BOLT 12 merkle test vectors ("calculates_merkle_root_hash" in merkle.rs, from the spec). *)
Example bolt12_vector_1 :
  option_map hex_of_bytes (stream_root_sha (bytes_of_hex "010203e8")) =
  Some "b013756c8fee86503a0b4abdab4cddeb1af5d344ca6fc2fa8b6c08938caa6f93"%string.
Proof. vm_compute. reflexivity. Qed.

Example bolt12_vector_2 :
  option_map hex_of_bytes (stream_root_sha (bytes_of_hex "010203e802080000010000020003")) =
  Some "c3774abbf4815aa54ccaa026bff6581f01f3be5fe814c620a252534f434bc0d1"%string.
Proof. vm_compute. reflexivity. Qed.

Example bolt12_vector_3 :
  option_map hex_of_bytes (stream_root_sha (bytes_of_hex
    "010203e80208000001000002000303310266e4598d1d3c415f572a8488830b60f7e744ed9235eb0b1ba93283b315c0351800000000000000010000000000000002")) =
  Some "ab2e79b1283b0b31e0b035258de23782df6b89a38cfa7237bde69aed1a658c5d"%string.
Proof. vm_compute. reflexivity. Qed.

(** [verify_using_recipient_data]: the nonce comes from the blinded path, the keys are derived. *)
Definition meta_verdict_offer_rd (key_material nonce : Bolt12Merkle.bytes) (stream : Bolt12Merkle.bytes) : string * Bolt12Merkle.bytes :=
  match split_records stream with
  | None => ("malformed"%string, [])
  | Some rs =>
      match hmac_input nonce IV_OFFER_WITHOUT_METADATA (offer_records_for_metadata true rs) with
      | None => ("Err"%string, [])
      | Some inp =>
          ("DerivedKeys"%string,
           hmac_sha256 (offers_base_key key_material) (inp ++ WITHOUT_ENCRYPTED_PAYMENT_ID_HMAC_INPUT))
      end
  end.
