(** C04, part B — the receiver's claimable-payment state machine.

    Transliteration of the final-hop checks of [create_recv_pending_htlc_info]
    (onion_payment.rs), of the receive half of [process_receive_htlcs], of
    [handle_claimable_htlc] / [check_incoming_mpp_part], [check_mpp_timeout] (timer tick), the
    block-driven per-HTLC fail-back in [do_chain_event], [begin_claiming_payment] /
    [claim_payment_internal] and [fail_htlc_backwards] (channelmanager.rs).

    Payment hashes, HTLC identities (channel, htlc id), payment secrets and purposes are interned
    to [Z]. The outcome of [inbound_payment::verify] for the part (part A of the model) is an input
    of [Recv] ([auth], [min_cltv]). Monitor updates complete synchronously (the
    [pending_claiming_payments] window is empty between operations). A part carries both the amount
    actually received ([value]) and the amount the sender's onion names ([sender_intended_value]);
    they differ when the previous hop skimmed a fee and the channel accepts underpaying HTLCs
    ([skim], [underpay] of [Recv]) or when the previous hop overpays. The five comparisons that
    decide "underpaid", "already complete", "complete now", "still complete at a tick" and "the
    amount to claim is not the announced one" are NOT written here: they are the definitions of
    Gen/InboundChecks.v, regenerated from the Rust source on every run (rs2v, anchored expressions).
    Not modelled: keysend without payment secret, phantom payments, BOLT 12 contexts, trampoline
    receive, odd custom TLVs (only the multiset of even ones matters for acceptance).
    No proofs in this file. *)
From LdkV Require Import Prim.U64 Prim.Rs2vLib Gen.Consts Gen.ConstsC04 Gen.InboundChecks.
Open Scope Z_scope.

(** [LocalHTLCFailureReason] of a failed-back part *)
Definition F_FinalIncorrectCLTVExpiry : Z := 1.
Definition F_PaymentClaimBuffer : Z := 2.
Definition F_FinalIncorrectHTLCAmount : Z := 3.
Definition F_IncorrectPaymentDetails : Z := 4.
Definition F_MPPTimeout : Z := 5.
Definition F_InvalidOnionPayload : Z := 6.

(** [MppPart] (+ ghost: what the part was accepted with) *)
Record part : Type := {
  pt_id : Z;              (* prev_hop (channel_id, htlc_id), interned; [Ord] on MppPart *)
  pt_cltv : Z;            (* cltv_expiry *)
  pt_value : Z;           (* value *)
  pt_intended : Z;        (* sender_intended_value *)
  pt_ticks : Z;           (* timer_ticks *)
  pt_tvr : option Z;      (* total_value_received *)
  pt_secret : Z;          (* ghost: the payment secret its onion carried *)
  pt_height : Z           (* ghost: the height at which it was accepted *)
}.

(** [RecipientOnionFields]: payment secret, total_mpp_amount_msat, payment_metadata, even custom TLVs *)
Record fields : Type := { f_secret : Z; f_total : Z; f_meta : Z; f_even : list Z }.

(** [ClaimablePayment] *)
Record payment : Type := { py_purpose : Z; py_fields : fields; py_parts : list part }.

Record state : Type := { claimable : list (Z * payment); height : Z }.
Definition init (h : Z) : state := {| claimable := []; height := h |}.

Inductive op : Type :=
| Recv (hash pid onion_cltv cltv value intended : Z) (fl : fields) (purpose : Z)
       (auth : bool) (min_cltv : option Z)
       (skim : option Z)      (* counterparty_skimmed_fee_msat of the update_add_htlc *)
       (underpay : bool)      (* accept_underpaying_htlcs of the channel it arrived on *)
| Tick
| Block (h : Z)
| Claim (hash : Z) (custom_tlvs_known : bool)
| FailBack (hash : Z).

Inductive out : Type :=
| OClaimable (hash amount deadline : Z)
| OClaimed (hash amount : Z) (pids : list Z)
| OFulfill (pid : Z)
| OFailPart (pid reason : Z).

(** association list on payment hashes *)
Fixpoint get {A} (k : Z) (m : list (Z * A)) : option A :=
  match m with [] => None | (k', v) :: t => if k =? k' then Some v else get k t end.
Fixpoint del {A} (k : Z) (m : list (Z * A)) : list (Z * A) :=
  match m with [] => [] | (k', v) :: t => if k =? k' then del k t else (k', v) :: del k t end.
Fixpoint ins {A} (k : Z) (v : A) (m : list (Z * A)) : list (Z * A) :=
  match m with
  | [] => [(k, v)]
  | (k', v') :: t => if k <? k' then (k, v) :: (k', v') :: t
                     else if k =? k' then (k, v) :: t else (k', v') :: ins k v t
  end.

Definition sum (l : list Z) : Z := fold_right Z.add 0 l.
Definition sum_value (ps : list part) : Z := sum (map pt_value ps).
Definition sum_intended (ps : list part) : Z := sum (map pt_intended ps).
Definition min_cltv_of (ps : list part) (dflt : Z) : Z :=
  match ps with [] => dflt | p :: t => fold_right Z.min (pt_cltv p) (map pt_cltv t) end.

Fixpoint zlist_eqb (a b : list Z) : bool :=
  match a, b with
  | [], [] => true
  | x :: a', y :: b' => (x =? y) && zlist_eqb a' b'
  | _, _ => false
  end.

(** [RecipientOnionFields::check_merge] (acceptance part) *)
Definition check_merge (a b : fields) : bool :=
  (f_secret a =? f_secret b) && (f_meta a =? f_meta b) && (f_total a =? f_total b) && zlist_eqb (f_even a) (f_even b).

Fixpoint insert_part (p : part) (l : list part) : list part :=
  match l with
  | [] => [p]
  | q :: t => if pt_id p <=? pt_id q then p :: l else q :: insert_part p t
  end.
Definition sort_parts (l : list part) : list part := fold_right insert_part [] l.

Definition set_tvr (a : Z) (p : part) : part :=
  {| pt_id := pt_id p; pt_cltv := pt_cltv p; pt_value := pt_value p; pt_intended := pt_intended p;
     pt_ticks := pt_ticks p; pt_tvr := Some a; pt_secret := pt_secret p; pt_height := pt_height p |}.
Definition tick_part (p : part) : part :=
  {| pt_id := pt_id p; pt_cltv := pt_cltv p; pt_value := pt_value p; pt_intended := pt_intended p;
     pt_ticks := pt_ticks p + 1; pt_tvr := pt_tvr p; pt_secret := pt_secret p; pt_height := pt_height p |}.

(** [check_incoming_mpp_part]: [None] = Err, [Some (parts', complete)] *)
Definition check_incoming_mpp_part (parts : list part) (pf : fields) (new : part) (nf : fields)
  : option (list part * bool) :=
  if negb (check_merge pf nf) then None
  else
    let total := pt_intended new + sum_intended parts in
    if MAX_VALUE_MSAT <=? total then None
    else if mpp_already_complete total (pt_intended new) (f_total pf) then None
    else if mpp_complete_on_arrival total (f_total pf) then
      let parts1 := parts ++ [new] in
      let amount := sum_value parts1 in
      Some (sort_parts (map (set_tvr amount) parts1), true)
    else Some (parts ++ [new], false).

(** What [auth] of [Recv] stands for. A keysend HTLC ([keysend = Some m], [m]: its preimage hashes
    to the HTLC's payment hash) is authentic iff the preimage matches — the payment secret it may
    carry as well is not looked at ([has_recipient_created_payment_secret = false]); any other HTLC
    iff [inbound_payment::verify] accepts its payment secret. *)
Definition recv_auth (keysend : option bool) (verify_ok : bool) : bool :=
  match keysend with Some hash_matches => hash_matches | None => verify_ok end.

(** the two numeric checks of [inbound_payment::verify] on a secret created at time [t0] with
    [invoice_expiry_delta_secs = delta] and minimum amount [min_amt], evaluated at time [now] (the
    node's highest seen block time, as passed at the call site) *)
Definition verify_numeric_ok (total min_amt t0 delta now : Z) : bool :=
  negb (verify_amount_too_low total min_amt) && negb (verify_expired (calculate_absolute_expiry t0 delta) now).

(** a received final-hop HTLC: onion-level checks, [verify] result, [handle_claimable_htlc] *)
Definition recv (s : state) (hash pid onion_cltv cltv value intended : Z) (fl : fields) (purpose : Z)
    (auth : bool) (min_cltv : option Z) (skim : option Z) (underpay : bool) : state * list out :=
  let h := height s in
  if cltv <? onion_cltv then (s, [OFailPart pid F_FinalIncorrectCLTVExpiry])
  else if recv_cltv_too_soon cltv (recv_current_height h) then (s, [OFailPart pid F_PaymentClaimBuffer])
  else if final_hop_underpaid underpay intended value skim then (s, [OFailPart pid F_FinalIncorrectHTLCAmount])
  else if negb auth then (s, [OFailPart pid F_IncorrectPaymentDetails])
  else if match min_cltv with Some d => min_final_cltv_too_soon cltv (min_final_cltv_expected_height h d) | None => false end
       then (s, [OFailPart pid F_IncorrectPaymentDetails])
  else
    let new := {| pt_id := pid; pt_cltv := cltv; pt_value := value; pt_intended := intended; pt_ticks := 0;
                  pt_tvr := None; pt_secret := f_secret fl; pt_height := h |} in
    let '(first, entry) := match get hash (claimable s) with
                           | Some e => (false, e)
                           | None => (true, {| py_purpose := purpose; py_fields := fl; py_parts := [] |})
                           end in
    if negb (py_purpose entry =? purpose) then (s, [OFailPart pid F_IncorrectPaymentDetails])
    else
      match check_incoming_mpp_part (py_parts entry) (py_fields entry) new fl with
      | None =>
          (* on the first part the library debug_asserts; a release build leaves an empty entry *)
          ({| claimable := if first then ins hash entry (claimable s) else claimable s; height := h |},
           [OFailPart pid F_IncorrectPaymentDetails])
      | Some (parts', complete) =>
          let entry' := {| py_purpose := py_purpose entry; py_fields := py_fields entry; py_parts := parts' |} in
          ({| claimable := ins hash entry' (claimable s); height := h |},
           if complete then [OClaimable hash (sum_value parts') (min_cltv_of parts' cltv - HTLC_FAIL_BACK_BUFFER)]
           else [])
      end.

(** [check_mpp_timeout] for one payment at a timer tick *)
Definition tick_payment (kv : Z * payment) : option (Z * payment) * list out :=
  let '(hash, e) := kv in
  match py_parts e with
  | [] => (None, [])
  | _ =>
      let parts' := map tick_part (py_parts e) in
      let timed_out := existsb (fun p => MPP_TIMEOUT_TICKS <=? pt_ticks p) parts' in
      if mpp_complete_at_tick (sum_intended parts') (f_total (py_fields e)) then
        (Some (hash, {| py_purpose := py_purpose e; py_fields := py_fields e; py_parts := parts' |}), [])
      else if timed_out then (None, map (fun p => OFailPart (pt_id p) F_MPPTimeout) parts')
      else (Some (hash, {| py_purpose := py_purpose e; py_fields := py_fields e; py_parts := parts' |}), [])
  end.

(** the per-HTLC on-chain-deadline fail-back when a block at height [h] is connected *)
Definition block_payment (h : Z) (kv : Z * payment) : option (Z * payment) * list out :=
  let '(hash, e) := kv in
  let timed_out p := pt_cltv p - HTLC_FAIL_BACK_BUFFER <=? h in
  let kept := filter (fun p => negb (timed_out p)) (py_parts e) in
  let outs := map (fun p => OFailPart (pt_id p) F_PaymentClaimBuffer) (filter timed_out (py_parts e)) in
  match kept with
  | [] => (None, outs)
  | _ => (Some (hash, {| py_purpose := py_purpose e; py_fields := py_fields e; py_parts := kept |}), outs)
  end.

Fixpoint map_payments (f : Z * payment -> option (Z * payment) * list out) (m : list (Z * payment))
  : list (Z * payment) * list out :=
  match m with
  | [] => ([], [])
  | kv :: t =>
      let '(o, outs1) := f kv in
      let '(m', outs2) := map_payments f t in
      (match o with Some kv' => kv' :: m' | None => m' end, outs1 ++ outs2)
  end.

(** the amount check of [claim_payment_internal]: all parts must carry the same
    [total_value_received]; returns [(valid_mpp, expected, claimable_amt)] *)
Fixpoint claim_scan (parts : list part) (expected : option Z) (acc : Z) : bool * option Z * Z :=
  match parts with
  | [] => (true, expected, acc)
  | p :: t =>
      if match expected with Some _ => negb (match expected, pt_tvr p with
                                              | Some a, Some b => a =? b | _, _ => false end)
                        | None => false end
      then (false, expected, acc)
      else claim_scan t (pt_tvr p) (acc + pt_value p)
  end.

(** [claim_funds] / [claim_funds_with_known_custom_tlvs] *)
Definition claim (s : state) (hash : Z) (known : bool) : state * list out :=
  match get hash (claimable s) with
  | None => (s, [])
  | Some e =>
      let s' := {| claimable := del hash (claimable s); height := height s |} in
      let parts := py_parts e in
      if negb known && negb (match f_even (py_fields e) with [] => true | _ => false end) then
        (s', map (fun p => OFailPart (pt_id p) F_InvalidOnionPayload) parts)
      else
        let '(valid, expected, amt) := claim_scan parts None 0 in
        match parts, expected with
        | [], _ | _, None => (s', [])          (* an incomplete set: nothing is claimed *)
        | _, Some exp =>
            (* a part was failed back since PaymentClaimable ([amt <> exp]), or the parts disagree on
               the received total: the payment can no longer be claimed, every remaining part is
               failed back *)
            if valid && negb (claim_amount_mismatch amt expected) then
              (s', OClaimed hash amt (map pt_id parts) :: map (fun p => OFulfill (pt_id p)) parts)
            else (s', map (fun p => OFailPart (pt_id p) F_IncorrectPaymentDetails) parts)
        end
  end.

(** [fail_htlc_backwards] *)
Definition fail_back (s : state) (hash : Z) : state * list out :=
  match get hash (claimable s) with
  | None => (s, [])
  | Some e => ({| claimable := del hash (claimable s); height := height s |},
               map (fun p => OFailPart (pt_id p) F_IncorrectPaymentDetails) (py_parts e))
  end.

Definition step (s : state) (o : op) : state * list out :=
  match o with
  | Recv hash pid onion_cltv cltv value intended fl purpose auth min_cltv skim underpay =>
      recv s hash pid onion_cltv cltv value intended fl purpose auth min_cltv skim underpay
  | Tick => let '(m, outs) := map_payments tick_payment (claimable s) in
            ({| claimable := m; height := height s |}, outs)
  | Block h => let '(m, outs) := map_payments (block_payment h) (claimable s) in
               ({| claimable := m; height := h |}, outs)
  | Claim hash known => claim s hash known
  | FailBack hash => fail_back s hash
  end.

Fixpoint run (s : state) (ops : list op) : state * list (list out) :=
  match ops with
  | [] => (s, [])
  | o :: rest => let '(s1, outs) := step s o in let '(s2, tr) := run s1 rest in (s2, outs :: tr)
  end.

(** rendering for the correspondence check *)
Definition oz (o : option Z) : Z := match o with Some z => z | None => -1 end.
Definition show_out (o : out) : list Z :=
  match o with
  | OClaimable h a d => [1; h; a; d]
  | OClaimed h a pids => [2; h; a] ++ pids
  | OFulfill pid => [3; pid]
  | OFailPart pid r => [4; pid; r]
  end.
Definition show_part (p : part) : list Z := [pt_id p; pt_cltv p; pt_value p; pt_intended p; pt_ticks p; oz (pt_tvr p)].
Definition show_state (s : state) : list (list Z) :=
  flat_map (fun kv => [-5; fst kv; f_total (py_fields (snd kv))] :: map show_part (py_parts (snd kv))) (claimable s)
  ++ [[-2; height s]].
Fixpoint run_show (s : state) (ops : list op) : list (list (list Z)) :=
  match ops with
  | [] => []
  | o :: rest => let '(s1, outs) := step s o in (map show_out outs ++ [[-3]] ++ show_state s1) :: run_show s1 rest
  end.
